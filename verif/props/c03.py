"""C03 - validation stringency changes how problems are reported, never what is parsed."""
import io

from .. import colcases, filecases, impl
from ..common import exc_name, float_table, has_unmodelled
from ..runner import Outcome

LEVEL = "proof"
ASSUMPTIONS = ["a log record is a warning on the 'maflib' logger tree; the 'no matching scheme' notice of the reader is a warning in Lenient and Strict modes"]


def three(req):
    return {m: impl.run(dict(req, mode=m)) for m in ("Strict", "Lenient", "Silent")}


def first_error(res, errs_key):
    return None


def check_entry(out, what, where, res, errors_of, value_of, extra_log=()):
    """The three relations of the property on the implementation's own three runs (failures appended to `out`, a list)."""
    s, l, t = res["Silent"], res["Lenient"], res["Strict"]
    es, el = errors_of(s), errors_of(l)
    for name, r in (("Silent", s), ("Lenient", l)):
        exc = r.get("exc") or r.get("init_exc") or r.get("iter_exc")
        if exc and exc.startswith("MafFormatException"):
            out.append(dict(where, what="%s: %s mode raised the format exception" % (what, name), kind="nonstrict-raises", got=exc))
            return
    if value_of(s) != value_of(l) or es != el:
        out.append(dict(where, what="%s: Silent and Lenient differ in what they return or collect" % what, kind="silent-lenient-differ",
                        silent=es, lenient=el))
        return
    if es is None:
        return   # a non-format exception in the non-strict modes: not this property's business (C16)
    if [x for x in s.get("logs", []) if x[0] != "OTHER:DEBUG"]:
        out.append(dict(where, what="%s: Silent emitted log records" % what, kind="silent-logs", got=s.get("logs")))
    llog = [x for x in l.get("logs", []) if x[0] not in extra_log]
    missing = [e for e in el if e not in llog]
    if missing or len(llog) < len(el):
        out.append(dict(where, what="%s: Lenient did not warn about every collected error" % what, kind="lenient-logs",
                        errors=el, logs=l.get("logs")))
    texc = t.get("exc") or t.get("init_exc") or t.get("iter_exc")
    if es:
        want = "MafFormatException:%s:%s" % (es[0][0], es[0][1])
        if texc != want:
            out.append(dict(where, what="%s: Strict did not fail with the first collected error" % what, kind="strict-first-error",
                            expected=want, got=texc))
    else:
        if texc or value_of(t) != value_of(s):
            out.append(dict(where, what="%s: no error collected but Strict differs from Silent" % what, kind="strict-differs",
                            got=texc or "different value"))


# ---- one eval_* per entry point: the input processed in the three modes + the oracle.
# Each returns {"req": the line-protocol request (entries compared with the model) or None, "res": {mode: answer},
#               "failures": [...], "nontrivial": at least one error collected}.
def eval_header(lines):
    req = {"op": "hdr.lines", "lines": lines}
    res = three(req)
    fails = []
    check_entry(fails, "header parsing", {"entry": "header", "lines": lines}, res,
                lambda r: r["header"]["errors"] if "header" in r else None,
                lambda r: (r.get("header") or {}).get("records"))
    return {"req": req, "res": res, "failures": fails, "nontrivial": bool(res["Silent"].get("header", {}).get("errors"))}


def eval_record(ann, line, lineno):
    req = {"op": "rec.from_line", "scheme": ann, "line": line, "lineno": lineno,
           "floats": float_table(line.rstrip("\r\n").split("\t"))}
    res = three(req)
    fails = []
    check_entry(fails, "record parsing", {"entry": "record", "scheme": ann, "line": line, "lineno": lineno}, res,
                lambda r: r["rec"]["errors"] if "rec" in r else None,
                lambda r: (r.get("rec") or {}).get("slots"))
    return {"req": req, "res": res, "failures": fails, "nontrivial": bool(res["Silent"].get("rec", {}).get("errors"))}


def eval_file(lines, given=None, given_norestrict=None, route="list", final=True, tmp=None):
    """Whole-file reading in the three modes through one reader entry point (impl.READER_ROUTES: MafReader over a list /
    generator / text handle, MafReader.reader_from(path) plain and .gz).  The input is the file; the three modes read
    the very same one."""
    allf = [p for l in lines for p in l.rstrip("\r\n").split("\t")]
    req = {"op": "reader.run", "lines": lines, "floats": float_table(allf)}
    # a scheme given by the caller overrides the header's (version mismatch is an error)
    if given_norestrict is not None:
        req["given_norestrict"] = given_norestrict
    elif given is not None:
        req["given"] = given
    where = {"entry": "file", "lines": lines, "given": given, "given_norestrict": given_norestrict}
    if route == "list":
        res = three(req)
        mreq = req
    else:
        import tempfile
        where.update(route=route, final=final)
        with tempfile.TemporaryDirectory(dir=tmp) as d:
            res = {m: impl.reader_run_via(dict(req, mode=m), route, d, final) for m in ("Strict", "Lenient", "Silent")}
        # what the model is asked: a reader over the physical lines this route sees
        seen = impl.route_lines(route, lines, final)
        mreq = dict(req, lines=seen, floats=float_table([p for l in seen for p in l.split("\t")]))

    def errs(r):
        if "init_exc" in r:
            return None if not r["init_exc"].startswith("MafFormatException") else []
        return r["errors"]
    fails = []
    # Strict stops at the first failing stage: the error it carries is the first of the whole list
    check_entry(fails, "whole-file reading" + ("" if route == "list" else " (reader route '%s')" % route), where, res, errs,
                lambda r: [x["keys"] for x in r.get("records", [])] if not (r.get("init_exc") or r.get("iter_exc")) else None,
                extra_log=("NO_MATCHING_SCHEME_WARNING",))
    return {"req": mreq, "res": res, "failures": fails, "nontrivial": bool(res["Silent"].get("errors"))}


def hdr_via(lines, mode, route, after=None, before=0):
    """MafHeader parsed through `route` ("from_lines" | "line_reader": MafHeader.from_line_reader over a LineReader on a
    text handle holding the lines and, when `after` is not None, a following non-header line): the answer shape of hdr.lines."""
    import io
    from maflib.header import MafHeader
    from maflib.util import LineReader
    with impl.LogCapture() as lc:
        try:
            if route == "line_reader":
                text = "".join("preamble %d\n" % k for k in range(before)) + "".join(l + "\n" for l in lines) + ("" if after is None else after + "\n")
                lr = LineReader(io.StringIO(text))
                for _k in range(before):          # the caller has already read some lines from the reader it hands over
                    lr.read_line()
                h = MafHeader.from_line_reader(lr, validation_stringency=impl.MODES[mode])
            else:
                h = MafHeader.from_lines(list(lines), validation_stringency=impl.MODES[mode])
        except Exception as e:  # noqa
            return {"exc": exc_name(e)}
    try:
        sch = h.scheme()
        sch = sch.annotation_spec() if sch is not None else None
    except Exception as e:  # noqa
        sch = "EXC:" + exc_name(e)
    return {"header": impl.header_json(h), "logs": lc.parsed(), "scheme": sch}


def eval_header_via(lines, route, after=None, before=0):
    """Header parsing through MafHeader.from_line_reader (route "line_reader") in the three modes."""
    res = {m: hdr_via(lines, m, route, after, before) for m in ("Strict", "Lenient", "Silent")}
    fails = []
    check_entry(fails, "header parsing (%s)" % route, {"entry": "header", "lines": lines, "route": route, "after": after, "before": before}, res,
                lambda r: r["header"]["errors"] if "header" in r else None,
                lambda r: (r.get("header") or {}).get("records"))
    # the model is asked about the header lines the line reader hands over: all of them (each starts with '#')
    return {"req": {"op": "hdr.lines", "lines": lines}, "res": res, "failures": fails,
            "nontrivial": bool(res["Silent"].get("header", {}).get("errors"))}


def eval_header_validate(lines, created="Silent", reset=True):
    """header.validate(stringency) on a header parsed (`created`: Silent or Lenient) from the lines (implementation only):
    the stringency given to validate() is the one that counts, whatever the header was created with."""
    from maflib.header import MafHeader
    res = {}
    for mname, mode in _modes().items():
        try:
            with impl.LogCapture():
                h = MafHeader.from_lines(list(lines), validation_stringency=impl.MODES[created])
        except Exception as e:  # noqa
            return {"req": None, "res": {}, "failures": [], "nontrivial": False, "skipped": exc_name(e)}
        with impl.LogCapture() as lc:
            try:
                errs = h.validate(validation_stringency=mode, reset_errors=reset)
                res[mname] = {"errors": impl.errs_json(errs), "value": [[k, str(h[k])] for k in h]}
            except Exception as e:  # noqa
                res[mname] = {"exc": exc_name(e), "errors": impl.errs_json(h.validation_errors)}
        res[mname]["logs"] = lc.parsed()
    fails = []
    check_entry(fails, "header validation" + ("" if reset else " (reset_errors=False: the errors collected so far are kept and reported with the new ones)"),
                dict({"entry": "header-validate", "lines": lines, "created": created}, **({} if reset else {"reset": False})), res,
                lambda r: r.get("errors") if "exc" not in r or not r["exc"].startswith("MafFormat") else [],
                lambda r: r.get("value"))
    return {"req": None, "res": res, "failures": fails, "nontrivial": bool(res["Silent"].get("errors"))}


def _modes():
    from maflib.validation import ValidationStringency as VS
    return {"Strict": VS.Strict, "Lenient": VS.Lenient, "Silent": VS.Silent}


def eval_validate(ann, line, created="Silent", reset=True):
    """record.validate(stringency) on a record parsed (`created`: Silent or Lenient) from the line (implementation only):
    the stringency given to validate() is the one that counts, whatever the record was created with."""
    from maflib.record import MafRecord
    from maflib.validation import ValidationStringency as VS
    sch = impl.scheme_by_annotation(ann)
    res = {}
    for mname, mode in _modes().items():
        with impl.LogCapture():
            rec = MafRecord.from_line(line, scheme=sch, validation_stringency=impl.MODES[created])
        with impl.LogCapture() as lc:
            try:
                errs = rec.validate(validation_stringency=mode, scheme=sch, reset_errors=reset)
                res[mname] = {"errors": impl.errs_json(errs), "value": str(rec)}
            except Exception as e:  # noqa
                res[mname] = {"exc": exc_name(e)}
        res[mname]["logs"] = lc.parsed()
    fails = []
    check_entry(fails, "record validation" + ("" if reset else " (reset_errors=False: the errors collected so far are kept and reported with the new ones)"),
                dict({"entry": "validate", "scheme": ann, "line": line, "created": created}, **({} if reset else {"reset": False})), res,
                lambda r: r.get("errors") if "exc" not in r or not r["exc"].startswith("MafFormat") else [],
                lambda r: r.get("value"))
    return {"req": None, "res": res, "failures": fails, "nontrivial": bool(res["Silent"].get("errors"))}


def eval_write(ann, line, channel="handle", header_lines=None, sorting=False):
    """A writer opened through one of impl.WRITER_CHANNELS (from_fd on a caller handle, the constructor itself, from_path
    plain / .gz) on the default header of the layout - or on the header parsed (Silent) from `header_lines`, valid or
    not: the writer validates it with its stringency - and offered the record parsed (Silent) from the line."""
    import tempfile
    from maflib.header import MafHeader
    from maflib.record import MafRecord
    from maflib.validation import ValidationStringency as VS
    sch = impl.scheme_by_annotation(ann)
    wres = {}
    for mname, mode in _modes().items():
        rec = MafRecord.from_line(line, scheme=sch, validation_stringency=VS.Silent)
        text = lambda: ""   # noqa
        herrs = []
        with tempfile.TemporaryDirectory() as tmp, impl.LogCapture() as lc:
            try:
                if header_lines is None and sorting:
                    from maflib.sort_order import Coordinate
                    h = MafHeader.from_defaults(version=sch.version(), annotation=ann if ann != sch.version() else None, sort_order=Coordinate())
                elif header_lines is None:
                    h = MafHeader.from_defaults(version=sch.version(), annotation=ann if ann != sch.version() else None)
                else:
                    with impl.LogCapture():
                        h = MafHeader.from_lines(list(header_lines), validation_stringency=VS.Silent)
                    h.validation_errors = []
                stage = "open"
                w, text, _path = impl.open_writer(channel, h, mode, tmp, assume_sorted=not sorting)
                herrs = impl.errs_json(h.validation_errors)
                stage = "write"
                w += rec
                stage = "close"
                w.close()
                wres[mname] = {"errors": herrs + impl.errs_json(rec.validation_errors), "value": text()}
            except Exception as e:  # noqa
                wres[mname] = {"exc": exc_name(e), "value": None, "stage": stage}
        wres[mname]["logs"] = lc.parsed()
    fails = []
    where = {"entry": "write", "scheme": ann, "line": line}
    if channel != "handle" or header_lines is not None:
        where.update(channel=channel, header_lines=header_lines)
    if sorting:
        # a sorting writer (assume_sorted=False under a header that declares the Coordinate order): records are queued at
        # write() and emitted by close()
        where.update(sorting=True, stages={m: r.get("stage") for m, r in wres.items() if "exc" in r})
    check_entry(fails, "writing" + (" (sorting writer)" if sorting else "") + ("" if channel == "handle" else " (channel '%s')" % channel), where, wres,
                lambda r: r.get("errors") if "exc" not in r or not r["exc"].startswith("MafFormat") else [],
                lambda r: r.get("value") if "exc" not in r else None)
    return {"req": None, "res": wres, "failures": fails, "nontrivial": bool(wres["Silent"].get("errors"))}


def compare_model(ctx, reqs3, answers=None):
    """Correspondence of the three-mode runs -> (unmodelled, dontcare, disagreements, [(request, model, impl)]).
    `answers` (parallel to reqs3): the implementation's {mode: answer} obtained through another entry point than the
    one impl.run uses for the request (a reader route, MafHeader.from_line_reader); the model is asked the plain request."""
    all_reqs = [dict(r, mode=m) for r in reqs3 for m in ("Strict", "Lenient", "Silent")]
    mo = ctx.driver.run(all_reqs)
    unmodelled, dontcare, dis, triples = 0, 0, [], []
    for k, (r, m) in enumerate(zip(all_reqs, mo)):
        i = impl.run(r) if answers is None else answers[k // 3][r["mode"]]
        triples.append((r, m, i))
        if has_unmodelled(m):
            unmodelled += 1
        elif m != i:
            texts = r.get("lines") or [r.get("line", "")]
            if any(colcases.dontcare_numeric(p) or colcases.dontcare_uuid(p) for l in texts for f in l.rstrip("\r\n").split("\t") for p in [f] + f.split(";")):
                dontcare += 1
            else:
                keys = [k for k in sorted(set(m) | set(i)) if m.get(k) != i.get(k)]
                dis.append({"op": r["op"], "mode": r["mode"], "differs": keys,
                            "input": r.get("lines") or r.get("line")})
    return unmodelled, dontcare, dis, triples


def run(ctx):
    out = Outcome()
    out.rule = ("each input is processed in the three modes at five entry points (header parsing, record parsing, whole-file reading, record validation, writing), "
                "each by every public route (MafHeader.from_lines / from_line_reader / validate; MafReader over lists, generators, handles and reader_from(path) plain/.gz, LF/CRLF; "
                "MafWriter constructor / from_fd / from_path plain/.gz on default and on parsed, possibly invalid, headers); "
                "non-trivial = at least one validation error collected; distinct inputs")
    rng = ctx.rng("c03")
    reqs3 = []
    # 1. header parsing
    for _ in range(ctx.scale(300, 3000)):
        lines = filecases.header_lines(rng)
        e = eval_header(lines)
        out.evaluations += 3
        out.failures += e["failures"]
        if e["nontrivial"]:
            out.nontrivial.add(("hdr", repr(lines)))
        reqs3.append(e["req"])
    # 2. record parsing
    for ann in ["gdc-1.0.0", "gdc-1.0.0-public", "gdc-2.0.0-aliquot-merged"]:
        for line in colcases.line_cases(ann, rng, ctx.scale(60, 500)):
            e = eval_record(ann, line, rng.randrange(1, 99))
            out.evaluations += 3
            out.failures += e["failures"]
            if e["nontrivial"]:
                out.nontrivial.add(("rec", ann, line))
            reqs3.append(e["req"])
    # 3. whole-file reading
    for _ in range(ctx.scale(250, 2500)):
        ann = rng.choice([None, "gdc-1.0.0", "gdc-1.0.0-public"])
        lines = filecases.whole_file(rng, ann, sort=None, col=rng.random() < 0.9)
        given = given_norestrict = None
        k = rng.random()
        if k < 0.15:      # a scheme given by the caller overrides the header's (version mismatch is an error)
            given_norestrict = rng.choice([["c1", "c2", "c3", "c4"], ["a", "b", "c", "d"], ["x"]])
        elif k < 0.3:
            given = rng.choice(["gdc-1.0.0", "gdc-1.0.0-public"])
        e = eval_file(lines, given, given_norestrict)
        out.evaluations += 3
        out.failures += e["failures"]
        if e["nontrivial"]:
            out.nontrivial.add(("file", repr(lines)))
        reqs3.append(e["req"])
    # 4. record validation + 5. writing (implementation only)
    validation_and_writer(ctx, out, rng)
    many_errors_cases(ctx, out)
    # the same entry points by their other public routes (own random streams: the ones above are unchanged)
    via_reqs, via_answers = entry_point_routes(ctx, out)
    # correspondence of the three-mode runs
    unmodelled, dontcare, dis, _t = compare_model(ctx, reqs3)
    out.unmodelled += unmodelled
    out.dontcare += dontcare
    out.disagreements += dis
    unmodelled, dontcare, dis, _t = compare_model(ctx, via_reqs, via_answers)
    out.unmodelled += unmodelled
    out.dontcare += dontcare
    out.disagreements += [dict(d, via="another entry point (reader route / from_line_reader)") for d in dis]
    return out


ODD_WRITER_HEADERS = [[], ["#version gdc-9.9.9"], ["#version gdc-1.0.0", "#annotation.spec nothing-known"], ["#annotation.spec gdc-1.0.0-public"],
                      ["#version gdc-1.0.0", "#annotation.spec gdc-1.0.0"], ["#center x"], ["#version gdc-1.0.0", "#annotation.spec gdc-1.0.0-public", "#center x"],
                      ["#version gdc-1.0.0", "#n.samples 4"], ["#version gdc-2.0.0"]]


def entry_point_routes(ctx, out):
    """Every public route to the five entry points gets the same kind of input and the same oracle:
    whole files through MafReader over lists with terminators / a generator / a text handle and through
    MafReader.reader_from(path) plain and .gz (LF / CRLF, with or without a final line end), headers valid or not;
    headers through MafHeader.from_line_reader and header.validate(stringency); writers through the constructor,
    from_path plain / .gz, on the layout's default header or on a parsed header the writer has to validate.
    -> (model requests, the implementation's answers) for the routes that have a model op."""
    import tempfile
    via_reqs, via_answers = [], []
    rng = ctx.rng("c03-reader-routes")
    with tempfile.TemporaryDirectory() as tmp:
        for _ in range(ctx.scale(120, 1200)):
            ann = rng.choice([None, "gdc-1.0.0", "gdc-1.0.0-public"])
            header = filecases.header_lines(rng) if rng.random() < 0.4 else None
            lines = filecases.whole_file(rng, ann, sort=None, header=header, col=rng.random() < 0.9)
            given = given_norestrict = None
            k = rng.random()
            if k < 0.1:
                given_norestrict = rng.choice([["c1", "c2", "c3", "c4"], ["a", "b", "c", "d"], ["x"]])
            elif k < 0.25:
                given = rng.choice(["gdc-1.0.0", "gdc-1.0.0-public"])
            route = rng.choice(impl.READER_ROUTES[1:])
            e = eval_file(lines, given, given_norestrict, route, rng.random() < 0.8, tmp)
            out.evaluations += 3
            out.failures += e["failures"]
            out.distribution["file-route:" + route] += 1
            if e["nontrivial"]:
                out.nontrivial.add(("file", route, repr(lines)))
            if len(via_reqs) < ctx.scale(60, 400):
                via_reqs.append(e["req"])
                via_answers.append(e["res"])
    rng = ctx.rng("c03-header-routes")
    for _ in range(ctx.scale(120, 1200)):
        lines = filecases.header_lines(rng)
        e = eval_header_via(lines, "line_reader", rng.choice([None, "Hugo_Symbol\tChromosome", "", "x"]), before=rng.choice([0, 0, 1, 3]))
        out.evaluations += 3
        out.failures += e["failures"]
        out.distribution["header-route:line_reader"] += 1
        if e["nontrivial"]:
            out.nontrivial.add(("hdr-line_reader", repr(lines)))
        if len(via_reqs) < ctx.scale(120, 800):
            via_reqs.append(e["req"])
            via_answers.append(e["res"])
        e = eval_header_validate(lines, created=rng.choice(["Silent", "Lenient"]), reset=rng.random() < 0.7)
        out.evaluations += 3
        out.failures += e["failures"]
        out.distribution["header-route:validate"] += 1
    rng = ctx.rng("c03-writer-channels")
    for ann in ["gdc-1.0.0", "gdc-1.0.0-public"]:
        for line in colcases.line_cases(ann, rng, ctx.scale(15, 150)):
            channel = rng.choice(impl.WRITER_CHANNELS)
            header_lines = rng.choice(ODD_WRITER_HEADERS + [filecases.typical_header(rng, ann)]) if rng.random() < 0.4 else None
            e = eval_write(ann, line, channel, header_lines)
            out.evaluations += 3
            out.failures += e["failures"]
            out.distribution["writer-channel:" + channel + ("" if header_lines is None else "+parsed-header")] += 1
            if e["nontrivial"]:
                out.nontrivial.add(("write", channel, repr(header_lines), line))
    return via_reqs, via_answers


MANY_ERRORS = ["130 malformed header lines", "10050 lines with a wrong field count", "a misspelt column line and 10050 bad lines"]


def many_errors_lines(label):
    sch = impl.scheme_by_annotation("gdc-1.0.0")
    col = "\t".join(sch.column_names())
    return {MANY_ERRORS[0]: ["#k%d" % k for k in range(130)] + ["#version gdc-1.0.0", col, "\t".join(["x"] * len(sch.column_names()))],
            MANY_ERRORS[1]: ["#version gdc-1.0.0", "#bad", col] + ["a\tb"] * 10050,
            MANY_ERRORS[2]: ["#version gdc-1.0.0", col.lower()] + ["a\tb"] * 10050}[label]


def many_errors_cases(ctx, out):
    """Counts of errors well beyond any round number: a header with 130 malformed lines (one report), a record with more
    than 100 problems, a file with more than 10000 bad lines (one report per line).  The three relations hold whatever
    the number of errors: nothing is capped, dropped or evicted."""
    for label in MANY_ERRORS:
        lines = many_errors_lines(label)
        e = eval_file(lines)
        out.evaluations += 3
        for f in e["failures"]:
            # (the file is its description: 10 000 identical lines are not stored in the failure)
            f["lines"] = lines[:6] + ["... (%d lines in all: %s)" % (len(lines), label)]
            f["many_errors"] = label
        out.failures += e["failures"]
        out.distribution["many errors: " + label] += 1
        out.nontrivial.add(("many-errors", label))


def validation_and_writer(ctx, out, rng):
    for ann in ["gdc-1.0.0", "gdc-1.0.0-public"]:
        for line in colcases.line_cases(ann, rng, ctx.scale(40, 300)):
            out.evaluations += 3
            out.failures += eval_validate(ann, line, created=rng.choice(["Silent", "Lenient"]), reset=rng.random() < 0.7)["failures"]
            out.evaluations += 3
            out.failures += eval_write(ann, line)["failures"]
            if rng.random() < 0.3:
                out.evaluations += 3
                e = eval_write(ann, line, rng.choice(["handle", "ctor"]), None, sorting=True)
                out.failures += e["failures"]
                out.distribution["sorting writer"] += 1


def search(ctx):
    return run(ctx)


# ------------------------------------------------------------------ replay
def _short(x, n=300):
    import json
    t = x if isinstance(x, str) else json.dumps(x, default=str, ensure_ascii=True)
    return t if len(t) <= n else t[:n] + "... (%d chars)" % len(t)


def _brief(r):
    """What one mode returned: exception / collected errors / log records / size of the value."""
    if not isinstance(r, dict):
        return r
    exc = r.get("exc") or r.get("init_exc") or r.get("iter_exc")
    body = r.get("header") or r.get("rec") or r
    errors = body.get("errors") if isinstance(body, dict) else None
    if "records" in r and "errors" in r:
        errors = r["errors"]
    out = {"exc": exc, "errors": errors, "logs": r.get("logs")}
    if "records" in r and isinstance(r["records"], list):
        out["records"] = len(r["records"])
    if "value" in r:
        out["value"] = _short(r["value"], 80)
    return out


def replay_case(ctx, failure):
    """Re-run the stored input in the three modes at the entry point it failed at; the failures it produces now
    ([] = the three relations hold; None = the stored failure lacks the inputs: regenerate from the seed)."""
    f = failure
    entry = f.get("entry")
    answers = None
    if entry == "header" and "lines" in f and f.get("route", "from_lines") != "from_lines":
        if f["route"] != "line_reader":
            return None
        e = eval_header_via(f["lines"], f["route"], f.get("after"), f.get("before", 0))
        answers = [e["res"]]
        what = "MafHeader.from_line_reader(LineReader(text handle)) over %s%s" % (
            _short(f["lines"], 200), "" if f.get("after") is None else " followed by the line %r" % f["after"])
    elif entry == "header-validate" and "lines" in f:
        e = eval_header_validate(f["lines"], f.get("created", "Silent"), reset=f.get("reset", True))
        if e.get("skipped"):
            return None
        what = "MafHeader.from_lines(%s, Silent).validate(stringency)" % _short(f["lines"], 200)
    elif entry == "header" and "lines" in f:
        e = eval_header(f["lines"])
        what = "MafHeader.from_lines(%s)" % _short(f["lines"], 200)
    elif entry == "record" and all(k in f for k in ("scheme", "line", "lineno")):
        if impl.scheme_by_annotation(f["scheme"]) is None:
            return None
        e = eval_record(f["scheme"], f["line"], f["lineno"])
        what = "MafRecord.from_line(<%d fields>, scheme=%s, line_number=%s): %s" % (
            len(f["line"].split("\t")), f["scheme"], f["lineno"], _short(f["line"], 200))
    elif entry == "file" and all(k in f for k in ("lines", "given", "given_norestrict")):
        route = f.get("route", "list")
        if route not in impl.READER_ROUTES:
            return None
        if f.get("many_errors") in MANY_ERRORS:
            f = dict(f, lines=many_errors_lines(f["many_errors"]))       # the file is regenerated from its description
        e = eval_file(f["lines"], f["given"], f["given_norestrict"], route, f.get("final", True))
        if route != "list":
            answers = [e["res"]]
        opened = "MafReader(lines=<%d lines>" % len(f["lines"]) if route == "list" else \
            ("MafReader.reader_from(<%s file of %d lines, %s line ends%s>" % (
                ".gz" if route.startswith("gz") else "plain", len(f["lines"]), "CRLF" if route.endswith("crlf") else "LF",
                "" if f.get("final", True) else ", none after the last line")) if route in impl.PATH_READER_ROUTES else \
            "MafReader(lines=<%d lines as %s>" % (len(f["lines"]), {"list-nl": "a list, each ending in LF", "list-crlf": "a list, each ending in CRLF",
                                                                      "iter": "a generator", "handle": "a text handle"}[route])
        what = "%s, scheme=%s) iterated to the end: %s" % (
            opened, ("NoRestrictionsScheme(%s)" % f["given_norestrict"]) if f["given_norestrict"] is not None else f["given"],
            _short(f["lines"], 300))
    elif entry in ("validate", "write") and all(k in f for k in ("scheme", "line")):
        if impl.scheme_by_annotation(f["scheme"]) is None:
            return None
        if entry == "validate":
            e = eval_validate(f["scheme"], f["line"], f.get("created", "Silent"), reset=f.get("reset", True))
            what = "record.validate(stringency, scheme=%s)" % f["scheme"]
        else:
            channel = f.get("channel", "handle")
            if channel not in impl.WRITER_CHANNELS:
                return None
            e = eval_write(f["scheme"], f["line"], channel, f.get("header_lines"), sorting=bool(f.get("sorting")))
            what = "%s(%s, stringency%s) += record; close()" % (
                {"handle": "MafWriter.from_fd", "ctor": "MafWriter", "plain": "MafWriter.from_path(plain path)", "gz": "MafWriter.from_path(.gz path)"}[channel],
                "default %s header%s" % (f["scheme"], " declaring sort.order Coordinate" if f.get("sorting") else "") if f.get("header_lines") is None else "header parsed (Silent) from %s" % _short(f["header_lines"], 150),
                ", assume_sorted=False" if f.get("sorting") else "")
        what += " on the record parsed (Silent) from: %s" % _short(f["line"], 200)
    else:
        return None
    print("replay C03 (%s), in Strict / Lenient / Silent mode: %s" % (entry, what))
    for mode in ("Strict", "Lenient", "Silent"):
        print("  implementation %-7s: %s" % (mode, _short(_brief(e["res"][mode]), 400)))
    if e["req"] is not None:
        # entry points the module compares with the model
        _u, _d, dis, triples = compare_model(ctx, [e["req"]], answers)
        for r, m, i in triples:
            print("  model %-7s: %s (%s)" % (r["mode"], _short(_brief(m), 400),
                                             "outside the model" if has_unmodelled(m) else "agrees" if m == i else "differs"))
    else:
        print("  (this entry point is checked on the implementation only: no model answer)")
    print("  oracle: %d failure(s)%s" % (len(e["failures"]), "".join("\n    - " + x["what"] for x in e["failures"])))
    return e["failures"]

