"""C03 - validation stringency changes how problems are reported, never what is parsed."""
import io

from .. import colcases, filecases, impl
from ..common import exc_name, float_table, has_unmodelled
from ..runner import Outcome

LEVEL = "proof"
ASSUMPTIONS = ["a log record is a warning on the 'maflib' logger tree; the 'no matching scheme' notice of the reader is a warning in Lenient and Strict modes"]


def three(req):
    return {m: impl.run(dict(req, mode=m)) for m in ("Strict", "Lenient", "Silent")}


def first_error(res, errs_key):
    return None


def check_entry(out, what, where, res, errors_of, value_of, extra_log=()):
    """The three relations of the property on the implementation's own three runs."""
    s, l, t = res["Silent"], res["Lenient"], res["Strict"]
    es, el = errors_of(s), errors_of(l)
    for name, r in (("Silent", s), ("Lenient", l)):
        exc = r.get("exc") or r.get("init_exc") or r.get("iter_exc")
        if exc and exc.startswith("MafFormatException"):
            out.failures.append(dict(where, what="%s: %s mode raised the format exception" % (what, name), kind="nonstrict-raises", got=exc))
            return
    if value_of(s) != value_of(l) or es != el:
        out.failures.append(dict(where, what="%s: Silent and Lenient differ in what they return or collect" % what, kind="silent-lenient-differ",
                                 silent=es, lenient=el))
        return
    if es is None:
        return   # a non-format exception in the non-strict modes: not this property's business (C16)
    if [x for x in s.get("logs", []) if x[0] != "OTHER:DEBUG"]:
        out.failures.append(dict(where, what="%s: Silent emitted log records" % what, kind="silent-logs", got=s.get("logs")))
    llog = [x for x in l.get("logs", []) if x[0] not in extra_log]
    missing = [e for e in el if e not in llog]
    if missing or len(llog) < len(el):
        out.failures.append(dict(where, what="%s: Lenient did not warn about every collected error" % what, kind="lenient-logs",
                                 errors=el, logs=l.get("logs")))
    texc = t.get("exc") or t.get("init_exc") or t.get("iter_exc")
    if es:
        want = "MafFormatException:%s:%s" % (es[0][0], es[0][1])
        if texc != want:
            out.failures.append(dict(where, what="%s: Strict did not fail with the first collected error" % what, kind="strict-first-error",
                                     expected=want, got=texc))
    else:
        if texc or value_of(t) != value_of(s):
            out.failures.append(dict(where, what="%s: no error collected but Strict differs from Silent" % what, kind="strict-differs",
                                     got=texc or "different value"))


def run(ctx):
    out = Outcome()
    out.rule = ("each input is processed in the three modes at five entry points (header parsing, record parsing, whole-file reading, record validation, writing); "
                "non-trivial = at least one validation error collected; distinct inputs")
    rng = ctx.rng("c03")
    reqs3 = []
    # 1. header parsing
    for _ in range(ctx.scale(300, 3000)):
        lines = filecases.header_lines(rng)
        res = three({"op": "hdr.lines", "lines": lines})
        out.evaluations += 3
        check_entry(out, "header parsing", {"lines": lines}, res,
                    lambda r: r["header"]["errors"] if "header" in r else None,
                    lambda r: (r.get("header") or {}).get("records"))
        if res["Silent"].get("header", {}).get("errors"):
            out.nontrivial.add(("hdr", repr(lines)))
        reqs3.append({"op": "hdr.lines", "lines": lines})
    # 2. record parsing
    for ann in ["gdc-1.0.0", "gdc-1.0.0-public", "gdc-2.0.0-aliquot-merged"]:
        for line in colcases.line_cases(ann, rng, ctx.scale(60, 500)):
            req = {"op": "rec.from_line", "scheme": ann, "line": line, "lineno": rng.randrange(1, 99),
                   "floats": float_table(line.rstrip("\r\n").split("\t"))}
            res = three(req)
            out.evaluations += 3
            check_entry(out, "record parsing", {"scheme": ann, "line": line}, res,
                        lambda r: r["rec"]["errors"] if "rec" in r else None,
                        lambda r: (r.get("rec") or {}).get("slots"))
            if res["Silent"].get("rec", {}).get("errors"):
                out.nontrivial.add(("rec", ann, line))
            reqs3.append(req)
    # 3. whole-file reading
    for _ in range(ctx.scale(250, 2500)):
        ann = rng.choice([None, "gdc-1.0.0", "gdc-1.0.0-public"])
        lines = filecases.whole_file(rng, ann, sort=None, col=rng.random() < 0.9)
        allf = [p for l in lines for p in l.rstrip("\r\n").split("\t")]
        req = {"op": "reader.run", "lines": lines, "floats": float_table(allf)}
        k = rng.random()
        if k < 0.15:      # a scheme given by the caller overrides the header's (version mismatch is an error)
            req["given_norestrict"] = rng.choice([["c1", "c2", "c3", "c4"], ["a", "b", "c", "d"], ["x"]])
        elif k < 0.3:
            req["given"] = rng.choice(["gdc-1.0.0", "gdc-1.0.0-public"])
        res = three(req)
        out.evaluations += 3

        def errs(r):
            if "init_exc" in r:
                return None if not r["init_exc"].startswith("MafFormatException") else []
            return r["errors"]
        sres = res["Silent"]
        # Strict stops at the first failing stage: the error it carries is the first of the whole list
        check_entry(out, "whole-file reading", {"lines": lines}, res, errs,
                    lambda r: [x["keys"] for x in r.get("records", [])] if not (r.get("init_exc") or r.get("iter_exc")) else None,
                    extra_log=("NO_MATCHING_SCHEME_WARNING",))
        if sres.get("errors"):
            out.nontrivial.add(("file", repr(lines)))
        reqs3.append(req)
    # 4. record validation + 5. writing (implementation only)
    validation_and_writer(ctx, out, rng)
    # correspondence of the three-mode runs
    all_reqs = [dict(r, mode=m) for r in reqs3 for m in ("Strict", "Lenient", "Silent")]
    mo = ctx.driver.run(all_reqs)
    for r, m in zip(all_reqs, mo):
        i = impl.run(r)
        if has_unmodelled(m):
            out.unmodelled += 1
        elif m != i:
            texts = r.get("lines") or [r.get("line", "")]
            if any(colcases.dontcare_numeric(p) or colcases.dontcare_uuid(p) for l in texts for f in l.split("\t") for p in [f] + f.split(";")):
                out.dontcare += 1
            else:
                keys = [k for k in sorted(set(m) | set(i)) if m.get(k) != i.get(k)]
                out.disagreements.append({"op": r["op"], "mode": r["mode"], "differs": keys,
                                          "input": r.get("lines") or r.get("line")})
    return out


def validation_and_writer(ctx, out, rng):
    from maflib.header import MafHeader
    from maflib.record import MafRecord
    from maflib.validation import ValidationStringency as VS
    from maflib.writer import MafWriter
    modes = {"Strict": VS.Strict, "Lenient": VS.Lenient, "Silent": VS.Silent}
    for ann in ["gdc-1.0.0", "gdc-1.0.0-public"]:
        sch = impl.scheme_by_annotation(ann)
        for line in colcases.line_cases(ann, rng, ctx.scale(40, 300)):
            res = {}
            for mname, mode in modes.items():
                out.evaluations += 1
                rec = MafRecord.from_line(line, scheme=sch, validation_stringency=VS.Silent)
                with impl.LogCapture() as lc:
                    try:
                        errs = rec.validate(validation_stringency=mode, scheme=sch)
                        res[mname] = {"errors": impl.errs_json(errs), "value": str(rec)}
                    except Exception as e:  # noqa
                        res[mname] = {"exc": exc_name(e)}
                res[mname]["logs"] = lc.parsed()
            check_entry(out, "record validation", {"scheme": ann, "line": line}, res,
                        lambda r: r.get("errors") if "exc" not in r or not r["exc"].startswith("MafFormat") else [],
                        lambda r: r.get("value"))
            # writing
            wres = {}
            for mname, mode in modes.items():
                out.evaluations += 1
                rec = MafRecord.from_line(line, scheme=sch, validation_stringency=VS.Silent)
                buf = io.StringIO()
                buf.close = lambda: None
                with impl.LogCapture() as lc:
                    try:
                        h = MafHeader.from_defaults(version=sch.version(), annotation=ann if ann != sch.version() else None)
                        w = MafWriter.from_fd(buf, h, validation_stringency=mode)
                        w += rec
                        w.close()
                        wres[mname] = {"errors": impl.errs_json(rec.validation_errors), "value": buf.getvalue()}
                    except Exception as e:  # noqa
                        wres[mname] = {"exc": exc_name(e), "value": buf.getvalue()}
                wres[mname]["logs"] = lc.parsed()
            check_entry(out, "writing", {"scheme": ann, "line": line}, wres,
                        lambda r: r.get("errors") if "exc" not in r or not r["exc"].startswith("MafFormat") else [],
                        lambda r: r.get("value") if "exc" not in r else None)


def search(ctx):
    return run(ctx)

