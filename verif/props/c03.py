"""C03 - validation stringency changes how problems are reported, never what is parsed."""
import io

from .. import colcases, filecases, impl
from ..common import exc_name, float_table, has_unmodelled
from ..runner import Outcome

LEVEL = "proof"
ASSUMPTIONS = ["a log record is a warning on the 'maflib' logger tree; the 'no matching scheme' notice of the reader is a warning in Lenient and Strict modes"]


def three(req):
    return {m: impl.run(dict(req, mode=m)) for m in ("Strict", "Lenient", "Silent")}


def first_error(res, errs_key):
    return None


def check_entry(out, what, where, res, errors_of, value_of, extra_log=()):
    """The three relations of the property on the implementation's own three runs (failures appended to `out`, a list)."""
    s, l, t = res["Silent"], res["Lenient"], res["Strict"]
    es, el = errors_of(s), errors_of(l)
    for name, r in (("Silent", s), ("Lenient", l)):
        exc = r.get("exc") or r.get("init_exc") or r.get("iter_exc")
        if exc and exc.startswith("MafFormatException"):
            out.append(dict(where, what="%s: %s mode raised the format exception" % (what, name), kind="nonstrict-raises", got=exc))
            return
    if value_of(s) != value_of(l) or es != el:
        out.append(dict(where, what="%s: Silent and Lenient differ in what they return or collect" % what, kind="silent-lenient-differ",
                        silent=es, lenient=el))
        return
    if es is None:
        return   # a non-format exception in the non-strict modes: not this property's business (C16)
    if [x for x in s.get("logs", []) if x[0] != "OTHER:DEBUG"]:
        out.append(dict(where, what="%s: Silent emitted log records" % what, kind="silent-logs", got=s.get("logs")))
    llog = [x for x in l.get("logs", []) if x[0] not in extra_log]
    missing = [e for e in el if e not in llog]
    if missing or len(llog) < len(el):
        out.append(dict(where, what="%s: Lenient did not warn about every collected error" % what, kind="lenient-logs",
                        errors=el, logs=l.get("logs")))
    texc = t.get("exc") or t.get("init_exc") or t.get("iter_exc")
    if es:
        want = "MafFormatException:%s:%s" % (es[0][0], es[0][1])
        if texc != want:
            out.append(dict(where, what="%s: Strict did not fail with the first collected error" % what, kind="strict-first-error",
                            expected=want, got=texc))
    else:
        if texc or value_of(t) != value_of(s):
            out.append(dict(where, what="%s: no error collected but Strict differs from Silent" % what, kind="strict-differs",
                            got=texc or "different value"))


# ---- one eval_* per entry point: the input processed in the three modes + the oracle.
# Each returns {"req": the line-protocol request (entries compared with the model) or None, "res": {mode: answer},
#               "failures": [...], "nontrivial": at least one error collected}.
def eval_header(lines):
    req = {"op": "hdr.lines", "lines": lines}
    res = three(req)
    fails = []
    check_entry(fails, "header parsing", {"entry": "header", "lines": lines}, res,
                lambda r: r["header"]["errors"] if "header" in r else None,
                lambda r: (r.get("header") or {}).get("records"))
    return {"req": req, "res": res, "failures": fails, "nontrivial": bool(res["Silent"].get("header", {}).get("errors"))}


def eval_record(ann, line, lineno):
    req = {"op": "rec.from_line", "scheme": ann, "line": line, "lineno": lineno,
           "floats": float_table(line.rstrip("\r\n").split("\t"))}
    res = three(req)
    fails = []
    check_entry(fails, "record parsing", {"entry": "record", "scheme": ann, "line": line, "lineno": lineno}, res,
                lambda r: r["rec"]["errors"] if "rec" in r else None,
                lambda r: (r.get("rec") or {}).get("slots"))
    return {"req": req, "res": res, "failures": fails, "nontrivial": bool(res["Silent"].get("rec", {}).get("errors"))}


def eval_file(lines, given=None, given_norestrict=None):
    allf = [p for l in lines for p in l.rstrip("\r\n").split("\t")]
    req = {"op": "reader.run", "lines": lines, "floats": float_table(allf)}
    # a scheme given by the caller overrides the header's (version mismatch is an error)
    if given_norestrict is not None:
        req["given_norestrict"] = given_norestrict
    elif given is not None:
        req["given"] = given
    res = three(req)

    def errs(r):
        if "init_exc" in r:
            return None if not r["init_exc"].startswith("MafFormatException") else []
        return r["errors"]
    fails = []
    # Strict stops at the first failing stage: the error it carries is the first of the whole list
    check_entry(fails, "whole-file reading", {"entry": "file", "lines": lines, "given": given, "given_norestrict": given_norestrict}, res, errs,
                lambda r: [x["keys"] for x in r.get("records", [])] if not (r.get("init_exc") or r.get("iter_exc")) else None,
                extra_log=("NO_MATCHING_SCHEME_WARNING",))
    return {"req": req, "res": res, "failures": fails, "nontrivial": bool(res["Silent"].get("errors"))}


def _modes():
    from maflib.validation import ValidationStringency as VS
    return {"Strict": VS.Strict, "Lenient": VS.Lenient, "Silent": VS.Silent}


def eval_validate(ann, line):
    """record.validate(stringency) on a record parsed (Silent) from the line (implementation only)."""
    from maflib.record import MafRecord
    from maflib.validation import ValidationStringency as VS
    sch = impl.scheme_by_annotation(ann)
    res = {}
    for mname, mode in _modes().items():
        rec = MafRecord.from_line(line, scheme=sch, validation_stringency=VS.Silent)
        with impl.LogCapture() as lc:
            try:
                errs = rec.validate(validation_stringency=mode, scheme=sch)
                res[mname] = {"errors": impl.errs_json(errs), "value": str(rec)}
            except Exception as e:  # noqa
                res[mname] = {"exc": exc_name(e)}
        res[mname]["logs"] = lc.parsed()
    fails = []
    check_entry(fails, "record validation", {"entry": "validate", "scheme": ann, "line": line}, res,
                lambda r: r.get("errors") if "exc" not in r or not r["exc"].startswith("MafFormat") else [],
                lambda r: r.get("value"))
    return {"req": None, "res": res, "failures": fails, "nontrivial": bool(res["Silent"].get("errors"))}


def eval_write(ann, line):
    """A writer (default header of the layout, caller handle) offered the record parsed (Silent) from the line."""
    from maflib.header import MafHeader
    from maflib.record import MafRecord
    from maflib.validation import ValidationStringency as VS
    from maflib.writer import MafWriter
    sch = impl.scheme_by_annotation(ann)
    wres = {}
    for mname, mode in _modes().items():
        rec = MafRecord.from_line(line, scheme=sch, validation_stringency=VS.Silent)
        buf = io.StringIO()
        buf.close = lambda: None
        with impl.LogCapture() as lc:
            try:
                h = MafHeader.from_defaults(version=sch.version(), annotation=ann if ann != sch.version() else None)
                w = MafWriter.from_fd(buf, h, validation_stringency=mode)
                w += rec
                w.close()
                wres[mname] = {"errors": impl.errs_json(rec.validation_errors), "value": buf.getvalue()}
            except Exception as e:  # noqa
                wres[mname] = {"exc": exc_name(e), "value": buf.getvalue()}
        wres[mname]["logs"] = lc.parsed()
    fails = []
    check_entry(fails, "writing", {"entry": "write", "scheme": ann, "line": line}, wres,
                lambda r: r.get("errors") if "exc" not in r or not r["exc"].startswith("MafFormat") else [],
                lambda r: r.get("value") if "exc" not in r else None)
    return {"req": None, "res": wres, "failures": fails, "nontrivial": bool(wres["Silent"].get("errors"))}


def compare_model(ctx, reqs3):
    """Correspondence of the three-mode runs -> (unmodelled, dontcare, disagreements, [(request, model, impl)])."""
    all_reqs = [dict(r, mode=m) for r in reqs3 for m in ("Strict", "Lenient", "Silent")]
    mo = ctx.driver.run(all_reqs)
    unmodelled, dontcare, dis, triples = 0, 0, [], []
    for r, m in zip(all_reqs, mo):
        i = impl.run(r)
        triples.append((r, m, i))
        if has_unmodelled(m):
            unmodelled += 1
        elif m != i:
            texts = r.get("lines") or [r.get("line", "")]
            if any(colcases.dontcare_numeric(p) or colcases.dontcare_uuid(p) for l in texts for f in l.split("\t") for p in [f] + f.split(";")):
                dontcare += 1
            else:
                keys = [k for k in sorted(set(m) | set(i)) if m.get(k) != i.get(k)]
                dis.append({"op": r["op"], "mode": r["mode"], "differs": keys,
                            "input": r.get("lines") or r.get("line")})
    return unmodelled, dontcare, dis, triples


def run(ctx):
    out = Outcome()
    out.rule = ("each input is processed in the three modes at five entry points (header parsing, record parsing, whole-file reading, record validation, writing); "
                "non-trivial = at least one validation error collected; distinct inputs")
    rng = ctx.rng("c03")
    reqs3 = []
    # 1. header parsing
    for _ in range(ctx.scale(300, 3000)):
        lines = filecases.header_lines(rng)
        e = eval_header(lines)
        out.evaluations += 3
        out.failures += e["failures"]
        if e["nontrivial"]:
            out.nontrivial.add(("hdr", repr(lines)))
        reqs3.append(e["req"])
    # 2. record parsing
    for ann in ["gdc-1.0.0", "gdc-1.0.0-public", "gdc-2.0.0-aliquot-merged"]:
        for line in colcases.line_cases(ann, rng, ctx.scale(60, 500)):
            e = eval_record(ann, line, rng.randrange(1, 99))
            out.evaluations += 3
            out.failures += e["failures"]
            if e["nontrivial"]:
                out.nontrivial.add(("rec", ann, line))
            reqs3.append(e["req"])
    # 3. whole-file reading
    for _ in range(ctx.scale(250, 2500)):
        ann = rng.choice([None, "gdc-1.0.0", "gdc-1.0.0-public"])
        lines = filecases.whole_file(rng, ann, sort=None, col=rng.random() < 0.9)
        given = given_norestrict = None
        k = rng.random()
        if k < 0.15:      # a scheme given by the caller overrides the header's (version mismatch is an error)
            given_norestrict = rng.choice([["c1", "c2", "c3", "c4"], ["a", "b", "c", "d"], ["x"]])
        elif k < 0.3:
            given = rng.choice(["gdc-1.0.0", "gdc-1.0.0-public"])
        e = eval_file(lines, given, given_norestrict)
        out.evaluations += 3
        out.failures += e["failures"]
        if e["nontrivial"]:
            out.nontrivial.add(("file", repr(lines)))
        reqs3.append(e["req"])
    # 4. record validation + 5. writing (implementation only)
    validation_and_writer(ctx, out, rng)
    # correspondence of the three-mode runs
    unmodelled, dontcare, dis, _t = compare_model(ctx, reqs3)
    out.unmodelled += unmodelled
    out.dontcare += dontcare
    out.disagreements += dis
    return out


def validation_and_writer(ctx, out, rng):
    for ann in ["gdc-1.0.0", "gdc-1.0.0-public"]:
        for line in colcases.line_cases(ann, rng, ctx.scale(40, 300)):
            out.evaluations += 3
            out.failures += eval_validate(ann, line)["failures"]
            out.evaluations += 3
            out.failures += eval_write(ann, line)["failures"]


def search(ctx):
    return run(ctx)


# ------------------------------------------------------------------ replay
def _short(x, n=300):
    import json
    t = x if isinstance(x, str) else json.dumps(x, default=str, ensure_ascii=True)
    return t if len(t) <= n else t[:n] + "... (%d chars)" % len(t)


def _brief(r):
    """What one mode returned: exception / collected errors / log records / size of the value."""
    if not isinstance(r, dict):
        return r
    exc = r.get("exc") or r.get("init_exc") or r.get("iter_exc")
    body = r.get("header") or r.get("rec") or r
    errors = body.get("errors") if isinstance(body, dict) else None
    if "records" in r and "errors" in r:
        errors = r["errors"]
    out = {"exc": exc, "errors": errors, "logs": r.get("logs")}
    if "records" in r and isinstance(r["records"], list):
        out["records"] = len(r["records"])
    if "value" in r:
        out["value"] = _short(r["value"], 80)
    return out


def replay_case(ctx, failure):
    """Re-run the stored input in the three modes at the entry point it failed at; the failures it produces now
    ([] = the three relations hold; None = the stored failure lacks the inputs: regenerate from the seed)."""
    f = failure
    entry = f.get("entry")
    if entry == "header" and "lines" in f:
        e = eval_header(f["lines"])
        what = "MafHeader.from_lines(%s)" % _short(f["lines"], 200)
    elif entry == "record" and all(k in f for k in ("scheme", "line", "lineno")):
        if impl.scheme_by_annotation(f["scheme"]) is None:
            return None
        e = eval_record(f["scheme"], f["line"], f["lineno"])
        what = "MafRecord.from_line(<%d fields>, scheme=%s, line_number=%s): %s" % (
            len(f["line"].split("\t")), f["scheme"], f["lineno"], _short(f["line"], 200))
    elif entry == "file" and all(k in f for k in ("lines", "given", "given_norestrict")):
        e = eval_file(f["lines"], f["given"], f["given_norestrict"])
        what = "MafReader(lines=<%d lines>, scheme=%s) iterated to the end: %s" % (
            len(f["lines"]), ("NoRestrictionsScheme(%s)" % f["given_norestrict"]) if f["given_norestrict"] is not None else f["given"],
            _short(f["lines"], 300))
    elif entry in ("validate", "write") and all(k in f for k in ("scheme", "line")):
        if impl.scheme_by_annotation(f["scheme"]) is None:
            return None
        e = (eval_validate if entry == "validate" else eval_write)(f["scheme"], f["line"])
        what = ("record.validate(stringency, scheme=%s)" if entry == "validate" else "MafWriter(default %s header, stringency) += record") % f["scheme"] \
            + " on the record parsed (Silent) from: %s" % _short(f["line"], 200)
    else:
        return None
    print("replay C03 (%s), in Strict / Lenient / Silent mode: %s" % (entry, what))
    for mode in ("Strict", "Lenient", "Silent"):
        print("  implementation %-7s: %s" % (mode, _short(_brief(e["res"][mode]), 400)))
    if e["req"] is not None:
        # entry points the module compares with the model
        _u, _d, dis, triples = compare_model(ctx, [e["req"]])
        for r, m, i in triples:
            print("  model %-7s: %s (%s)" % (r["mode"], _short(_brief(m), 400),
                                             "outside the model" if has_unmodelled(m) else "agrees" if m == i else "differs"))
    else:
        print("  (this entry point is checked on the implementation only: no model answer)")
    print("  oracle: %d failure(s)%s" % (len(e["failures"]), "".join("\n    - " + x["what"] for x in e["failures"])))
    return e["failures"]

