"""C12 - allele-aware overlap iteration returns exactly the allele-compatible records."""
import itertools
from .. import impl
from ..common import exc_name, has_unmodelled
from ..runner import Outcome
from . import c11

LEVEL = "proof"
TRUSTED_EXTRA = ["translator verif/gen_bodies.py (Python ast -> PyIR terms, purely syntactic)", "PyIR interpreter (lean/MafModel/MafModel/PyIR/Interp.lean), validated on every run against the real AlleleOverlapType.equality / intersects / subset (body.allele)"]
ASSUMPTIONS = ["positional groups are C11's; this property is about the allele filter on top of them"]
RELS = ["Equality", "Intersects", "Subset"]
ALTS = [[], ["C"], ["G"], ["C", "G"], ["G", "C"], ["C", "G", "T"], ["T"], [""], ["C", "C"], ["G", "C", "G"]]      # (a list may repeat an allele: the relations are set relations)     # [""]: a blank allele column is one (empty) allele


MODE_TEXT = {"plain": "the inputs are the library's LocatableByAllele objects", "mixed": "the inputs mix real MafRecords and LocatableByAllele objects"}


def rel_test(rel, base, other):
    if rel == "Equality":
        return base == other
    if rel == "Intersects":
        return any(a in base for a in other) or base == other
    return all(a in base for a in other)


def compatible(rel, items, other):
    return any(it.ref == other.ref and rel_test(rel, it.alts, other.alts) for it in items)


def expected(groups_pos, rel, byid):
    """The documented result from the positional groups (ids), written directly."""
    out = []
    for g in groups_pos:
        first = [byid[i] for i in g[0]]
        if not first:
            continue
        subs = []
        for x in first:
            for s in subs:
                if compatible(rel, s, x):
                    s.append(x)
                    break
            else:
                subs.append([x])
        for s in subs:
            out.append([[x.rid for x in s]] + [[i for i in slot if compatible(rel, s, byid[i])] for slot in g[1:]])
    return out


def run_impl(inputs, contigs, by_barcodes, rel, mode="stream"):
    """The allele-aware iterator driven in one of c11.MODES (how the consumer takes the groups, how the contig order is
    given, what the inputs are made of)."""
    from maflib.overlap_iter import AlleleOverlapType, LocatableByAlleleOverlapIterator

    def make(iters, fasta_index):
        if fasta_index is not None:
            return LocatableByAlleleOverlapIterator(iters, fasta_index=fasta_index, by_barcodes=by_barcodes,
                                                    overlap_type=AlleleOverlapType[rel])
        return LocatableByAlleleOverlapIterator(iters, contigs=contigs, by_barcodes=by_barcodes,
                                                overlap_type=AlleleOverlapType[rel])
    if mode in ("plain", "mixed"):
        # the library's own LocatableByAllele objects (calls from another source than a MAF), alone or mixed with real
        # MafRecords in one iteration
        import itertools
        from maflib.locatable import LocatableByAllele
        rid, srcs = {}, []
        for inp in inputs:
            row = []
            for x in inp:
                if mode == "mixed" and len(x.alts) == 1 and x.rid % 2 == 0:
                    obj = c11.RecordOf([[x]], True).inputs[0][0]
                else:
                    obj = LocatableByAllele(x.chromosome, x.start, x.end, x.ref, list(x.alts))
                rid[id(obj)] = x.rid
                row.append(obj)
            srcs.append(row)
        try:
            groups = [[[rid[id(o)] for o in slot] for slot in g] for g in itertools.islice(make([iter(r) for r in srcs], None), 301)]
        except Exception as e:  # noqa
            return None, exc_name(e)
        return (groups, "RUNAWAY") if len(groups) > 300 else (groups, None)
    return c11.drive(make, inputs, contigs, mode, 300, allele_columns=True)


def mode_applies(mode, inputs, contigs):
    """A MafRecord has one alternate allele (Tumor_Seq_Allele2): real records stand only for items with exactly one."""
    if mode in ("records", "readers"):
        return all(len(x.alts) == 1 for inp in inputs for x in inp)
    return c11.mode_applies(mode, contigs)


def recs_of(inputs):
    """The raw case, as stored in a failure: per input, [rid, tumor, normal, chromosome, start, end, ref, alts] in stream order."""
    return [[[x.rid, x.tumor, x.normal, x.chromosome, x.start, x.end, x.ref, list(x.alts)] for x in inp] for inp in inputs]


def inputs_of(recs):
    return [[c11.Rec(t, n, c, s, e, rid, ref, tuple(alts)) for (rid, t, n, c, s, e, ref, alts) in inp] for inp in recs]


def model_request(inputs, contigs, by_barcodes, rel):
    flat = [x for inp in inputs for x in inp]
    return {"op": "overlap.run", "by_barcodes": by_barcodes, "contigs": contigs or [], "allele": rel,
            "inputs": [[c11.loc_of(r) for r in inp] for inp in inputs],
            "alleles": [{"ref": x.ref, "alts": list(x.alts)} for x in sorted(flat, key=lambda x: x.rid)]}


def eval_case(inputs, contigs, by_barcodes, rel, modes=None):
    """One configuration on the implementation + the property's oracle, for every use of the iterator in `modes`
    (default: all of c11.MODES that apply).
    Returns a dict: where, groups, exc (of the plain streaming use), failures, and (when the oracle ran) pos = positional
    groups, want = documented result."""
    where = {"inputs": [["%r ref=%s alts=%s" % (x, x.ref, x.alts) for x in inp] for inp in inputs], "relation": rel,
             "by_barcodes": by_barcodes, "contigs": contigs}
    res = {"where": where, "groups": None, "exc": None, "failures": [], "pos": None, "want": None, "by_mode": {}}
    stored = dict(where, recs=recs_of(inputs))
    pos = pexc = want = None
    for mode in (c11.MODES + ["plain", "mixed"] if modes is None else modes):
        if not mode_applies(mode, inputs, contigs) or (mode in ("plain", "mixed") and by_barcodes):
            continue          # (a plain LocatableByAllele has no barcodes to group by)
        groups, exc = run_impl(inputs, contigs, by_barcodes, rel, mode=mode)
        res["by_mode"][mode] = (groups, exc)
        if mode == "stream":
            res["groups"], res["exc"] = groups, exc
        tag = {} if mode == "stream" else {"mode": mode}
        note = "" if mode == "stream" else " (%s)" % MODE_TEXT.get(mode, c11.MODE_TEXT.get(mode))
        if res["failures"] and mode != "stream" and not all("mode" in f for f in res["failures"]):
            continue                                   # the plain use fails already
        if exc:
            res["failures"].append(dict(stored, what="allele-aware iteration failed with %s%s" % (exc, note), kind="exception", **tag))
            continue
        if pos is None and pexc is None:
            pos, pexc = c11.run_impl(inputs, contigs, by_barcodes)
            if pexc:
                res["pexc"] = pexc
            else:
                byid = {x.rid: x for inp in inputs for x in inp}
                want = expected(pos, rel, byid)
                res["pos"], res["want"] = pos, want
        if pexc:
            continue
        if groups != want:
            res["failures"].append(dict(stored, what="returned groups differ from 'first input partitioned by compatibility, other inputs filtered by the emitted subgroup'" + note,
                                        kind="groups", expected=want, got=groups, **tag))
        first_ids = [rid for g in groups for rid in (g[0] if g else [])]
        if sorted(first_ids) != sorted(x.rid for x in inputs[0]):
            res["failures"].append(dict(stored, what="not every record of the first input is returned exactly once" + note, kind="first-input", **tag))
    return res


def run(ctx):
    out = Outcome()
    out.rule = ("C11's configurations (1-3 inputs, <= 7 intervals, chromosomes, barcode pairs, both grouping modes) with reference alleles from {A, AT} and alternate-allele lists from "
                "{[], [C], [G], [C,G], [G,C], [C,G,T], [T]} (empty, equal, permuted, overlapping, contained) x the three relations; a second family with exactly one alternate allele "
                "per item; every configuration is run under each use of the iterator that applies (" + "; ".join("%s = %s" % (m, c11.MODE_TEXT[m]) for m in c11.MODES) + "); "
                "non-trivial = a positional group whose first slot splits into >= 2 subgroups or another slot is filtered; distinct configurations")
    rng = ctx.rng("c12")
    reqs, meta = [], []

    def add_case(rng, alts_pool):
        n_inputs, contigs, by_barcodes, items = c11.gen_config(rng, 7)
        seed = rng.randrange(10**9)

        def alleles(rid, seed=seed):
            import random
            r = random.Random(seed * 1000 + rid)
            return r.choice(["A", "A", "AT"]), tuple(r.choice(alts_pool))
        inputs = c11.build_inputs(n_inputs, contigs, by_barcodes, items, alleles=alleles)
        rel = rng.choice(RELS)
        reqs.append(model_request(inputs, contigs, by_barcodes, rel))
        meta.append((inputs, contigs, by_barcodes, rel))
    for _ in range(ctx.scale(700, 6000)):
        add_case(rng, ALTS)
    # the same with exactly one alternate allele per item: these also run over real MafRecord objects
    rng1 = ctx.rng("c12", "single-alt")
    for _ in range(ctx.scale(250, 2000)):
        add_case(rng1, [a for a in ALTS if len(a) == 1])
    mo = ctx.driver.run(reqs)
    for r, m, (inputs, contigs, by_barcodes, rel) in zip(reqs, mo, meta):
        out.evaluations += 1
        res = eval_case(inputs, contigs, by_barcodes, rel)
        groups, exc, where = res["groups"], res["exc"], res["where"]
        i = {"groups": groups} if exc is None else {"exc": exc}
        if has_unmodelled(m):
            out.unmodelled += 1
        elif m != i:
            out.disagreements.append({"op": "allele.run", "where": where, "model": m, "impl": i})
        out.failures += res["failures"]
        for mode in res["by_mode"]:
            out.distribution["use:" + mode] += 1
        if res["want"] is None:
            continue
        pos, want = res["pos"], res["want"]
        if len(want) != len([g for g in pos if g[0]]) or any(len(a[k]) != len(b[k]) for a in want for b in pos if a[0] and set(a[0]) <= set(b[0]) for k in range(1, len(b))):
            out.nontrivial.add(repr(where))
        if len(out.samples) < 3 and len(want) >= 2:
            out.sample(dict(where, groups=groups))
    two_pass_cases(ctx, out)
    interleaved_cases(ctx, out)
    long_gap_cases(ctx, out)
    # the translated relations, interpreted, against the real class methods (Props/C12Bodies proves the interpreted bodies
    # equal to the model's AlleleRel.test for all lists)
    from .. import bodycases
    bodycases.allele_cases(ctx, out)
    bodycases.translation_report(ctx, out)
    return out


def eval_long_gap(n, after, rel):
    """A long run of loci covered only by the second input (n of them), before (`after`=False: the only first-input
    record follows the run) or after the last record of the first input: the run is passed over, whatever its length."""
    from maflib.overlap_iter import AlleleOverlapType, LocatableByAlleleOverlapIterator
    first = c11.Rec("T", "N", "1" if after else "2", 1, 2, 0, "A", ("C",))
    other = [c11.Rec("T", "N", "1", 100 + 10 * k, 101 + 10 * k, k + 1, "A", ("C",)) for k in range(n)]
    where = {"kind": "long-gap", "n": n, "after": after, "relation": rel}
    try:
        groups = [[[x.rid for x in slot] for slot in g] for g in
                  LocatableByAlleleOverlapIterator([iter([first]), iter(other)], contigs=["1", "2"], by_barcodes=False, overlap_type=AlleleOverlapType[rel])]
    except Exception as e:  # noqa
        return [dict(where, what="allele-aware iteration failed with %s on a run of %d loci that only the second input covers (%s the first input's record)" % (
            exc_name(e), n, "after" if after else "before"))]
    if groups != [[[0], []]]:
        return [dict(where, what="a run of %d loci that only the second input covers: returned %s, expected the single group of the first input's record" % (n, str(groups)[:120]))]
    return []


def long_gap_cases(ctx, out):
    for after in (False, True):
        for rel in RELS[:1] if ctx.tier == "quick" else RELS:
            out.evaluations += 1
            out.failures += eval_long_gap(1500, after, rel)
            out.distribution["run of 1500 loci without a first-input record"] += 1
            out.nontrivial.add(("long-gap", after, rel))


def eval_interleaved(recs_a, recs_b, contigs, by_barcodes, rel, take):
    """Two allele-aware iterators alive at the same time (the first one is asked for `take` groups, then a second one over
    other inputs is run to the end, then the first is finished): each returns the documented result for ITS inputs."""
    from maflib.overlap_iter import AlleleOverlapType, LocatableByAlleleOverlapIterator
    ia, ib = inputs_of(recs_a), inputs_of(recs_b)
    stored = {"kind": "interleaved", "recs": recs_a, "recs_b": recs_b, "contigs": contigs, "by_barcodes": by_barcodes, "relation": rel, "take": take}

    def mk(inputs):
        return LocatableByAlleleOverlapIterator([iter(x) for x in inputs], contigs=contigs, by_barcodes=by_barcodes, overlap_type=AlleleOverlapType[rel])

    def want(inputs):
        pos, pexc = c11.run_impl(inputs, contigs, by_barcodes)
        return None if pexc else expected(pos, rel, {x.rid: x for inp in inputs for x in inp})
    try:
        wa, wb = want(ia), want(ib)
        if wa is None or wb is None:
            return {"failures": []}
        a = mk(ia)
        got_a = []
        for _ in range(take):
            try:
                got_a.append([[x.rid for x in slot] for slot in next(a)])
            except StopIteration:
                break
        got_b = [[[x.rid for x in slot] for slot in g] for g in itertools.islice(mk(ib), 300)]
        for g in itertools.islice(a, 300):
            got_a.append([[x.rid for x in slot] for slot in g])
    except Exception as e:  # noqa
        return {"failures": [dict(stored, what="two allele-aware iterators alive at the same time: iteration failed with %s" % exc_name(e))]}
    fails = []
    if got_b != wb:
        fails.append(dict(stored, what="an allele-aware iterator started while another one was part-way through does not return the documented result for its own inputs", expected=wb, got=got_b))
    elif got_a != wa:
        fails.append(dict(stored, what="an allele-aware iterator that was part-way through while another one ran does not return the documented result for its own inputs", expected=wa, got=got_a))
    return {"failures": fails}


def interleaved_cases(ctx, out):
    rng = ctx.rng("c12", "interleaved")
    for _ in range(ctx.scale(120, 1000)):
        cfg = []
        contigs = by_barcodes = None
        for _k in range(2):
            n_inputs, cs, bb, items = c11.gen_config(rng, 6)
            if contigs is None:
                contigs, by_barcodes = cs, bb
            seed = rng.randrange(10**9)

            def alleles(rid, seed=seed):
                import random
                r = random.Random(seed * 1000 + rid)
                return r.choice(["A", "A", "AT"]), tuple(r.choice(ALTS))
            # same chromosome universe / contig list for both: only the records differ
            items = [it for it in items if contigs is None or it[2] in contigs]
            cfg.append(c11.build_inputs(n_inputs, contigs, by_barcodes, items, alleles=alleles))
        out.evaluations += 1
        e = eval_interleaved(recs_of(cfg[0]), recs_of(cfg[1]), contigs, by_barcodes, rng.choice(RELS), rng.choice([0, 1, 1, 2]))
        out.failures += e["failures"]
        out.distribution["two iterators alive at the same time"] += 1
        out.nontrivial.add(("interleaved", repr(recs_of(cfg[0])), repr(recs_of(cfg[1]))))


def eval_two_pass(recs, recs2, contigs, by_barcodes, rel):
    """The same MafRecord OBJECTS iterated twice: built with the alleles of `recs`, iterated to the end, their allele
    columns then changed in place (column.value = ...) to the alleles of `recs2` (same records otherwise), iterated again.
    The second pass must give the documented result for the alleles the records hold then."""
    from maflib.overlap_iter import AlleleOverlapType, LocatableByAlleleOverlapIterator
    inputs1, inputs2 = inputs_of(recs), inputs_of(recs2)
    ro = c11.RecordOf(inputs1, allele_columns=True)
    stored = {"recs": recs, "recs2": recs2, "relation": rel, "by_barcodes": by_barcodes, "contigs": contigs, "kind": "two-pass"}

    def one_pass():
        it = LocatableByAlleleOverlapIterator([iter(x) for x in ro.inputs], contigs=contigs, by_barcodes=by_barcodes, overlap_type=AlleleOverlapType[rel])
        out = []
        for g in it:
            out.append([ro.ids(slot) for slot in g])
            if len(out) > 300:
                break
        return out
    try:
        first = one_pass()
        for row, inp2 in zip(ro.inputs, inputs2):
            for r, x in zip(row, inp2):
                r["Reference_Allele"].value = x.ref
                r["Tumor_Seq_Allele2"].value = x.alts[0]
        second = one_pass()
    except Exception as e:  # noqa
        return {"first": None, "second": None, "failures": [dict(stored, what="two passes over the same records failed with %s" % exc_name(e))]}
    pos, pexc = c11.run_impl(inputs2, contigs, by_barcodes)
    fails = []
    if not pexc:
        want = expected(pos, rel, {x.rid: x for inp in inputs2 for x in inp})
        if second != want:
            fails.append(dict(stored, what="second pass over the same record objects, after their allele columns were changed in place, differs from the documented result for the alleles they hold now",
                              expected=want, got=second))
    return {"first": first, "second": second, "failures": fails}


def two_pass_cases(ctx, out):
    rng = ctx.rng("c12", "two-pass")
    single = [a for a in ALTS if len(a) == 1]
    for _ in range(ctx.scale(150, 1500)):
        n_inputs, contigs, by_barcodes, items = c11.gen_config(rng, 6)
        seeds = [rng.randrange(10**9), rng.randrange(10**9)]

        def alleles_for(seed):
            def alleles(rid):
                import random
                r = random.Random(seed * 1000 + rid)
                return r.choice(["A", "A", "AT"]), tuple(r.choice(single))
            return alleles
        i1 = c11.build_inputs(n_inputs, contigs, by_barcodes, items, alleles=alleles_for(seeds[0]))
        i2 = c11.build_inputs(n_inputs, contigs, by_barcodes, items, alleles=alleles_for(seeds[1]))
        rel = rng.choice(RELS)
        out.evaluations += 1
        e = eval_two_pass(recs_of(i1), recs_of(i2), contigs, by_barcodes, rel)
        out.failures += e["failures"]
        out.distribution["two-pass (alleles edited in place between passes)"] += 1
        if e["second"] and any(len(g[0]) > 1 or any(g[1:]) for g in e["second"]):
            out.nontrivial.add(("two-pass", repr(recs_of(i2)), rel))


def replay_case(ctx, failure):
    if failure.get("kind") == "long-gap":
        fails = eval_long_gap(int(failure["n"]), bool(failure["after"]), failure["relation"])
        print("replay C12: first input = one record; second input = %d records on consecutive loci %s it; LocatableByAlleleOverlapIterator(%s) iterated to the end" % (
            int(failure["n"]), "after" if failure["after"] else "before", failure["relation"]))
        for x in fails:
            print("  oracle: %s" % x["what"])
        return fails
    """Re-evaluate the stored inputs on the current implementation; the failures they produce now ([] = property holds)."""
    if failure.get("kind") == "interleaved" and "recs_b" in failure:
        e = eval_interleaved(failure["recs"], failure["recs_b"], failure.get("contigs"), failure["by_barcodes"], failure["relation"], failure.get("take", 1))
        print("replay C12: an allele-aware iterator (overlap_type=%s, by_barcodes=%s, contigs=%s) is asked for %d group(s); a second one over other inputs is run to the end; the first is finished" % (
            failure["relation"], failure["by_barcodes"], failure.get("contigs"), failure.get("take", 1)))
        for f in e["failures"]:
            print("  oracle: %s (expected %s, got %s)" % (f["what"], f.get("expected"), f.get("got")))
        return e["failures"]
    if failure.get("kind") == "two-pass" and "recs2" in failure:
        e = eval_two_pass(failure["recs"], failure["recs2"], failure.get("contigs"), failure["by_barcodes"], failure["relation"])
        print("replay C12: the same MafRecord objects iterated twice (overlap_type=%s, by_barcodes=%s, contigs=%s); alleles changed in place between the passes" % (
            failure["relation"], failure["by_barcodes"], failure.get("contigs")))
        print("  first pass: %s\n  second pass: %s" % (e["first"], e["second"]))
        for f in e["failures"]:
            print("  oracle: %s (expected %s)" % (f["what"], f.get("expected")))
        return e["failures"]
    if "recs" not in failure or "relation" not in failure or "by_barcodes" not in failure:
        return None
    inputs = inputs_of(failure["recs"])
    contigs, by_barcodes, rel = failure.get("contigs"), failure["by_barcodes"], failure["relation"]
    print("replay C12: LocatableByAlleleOverlapIterator over %d input(s), overlap_type=%s, by_barcodes=%s, contigs=%s" % (len(inputs), rel, by_barcodes, contigs))
    for k, inp in enumerate(inputs):
        print("  input %d: %s" % (k, "; ".join("%r ref=%s alts=%s" % (x, x.ref, x.alts) for x in inp) or "(empty)"))
    mode = failure.get("mode", "stream")
    if mode not in c11.MODES or not mode_applies(mode, inputs, contigs):
        return None
    print("  use: %s" % c11.MODE_TEXT[mode])
    res = eval_case(inputs, contigs, by_barcodes, rel, modes=[mode])
    groups, exc = res["by_mode"][mode]
    print("  implementation: %s" % ("raised %s" % exc if exc else "groups (record ids per input) %s" % groups))
    if res["want"] is not None:
        print("  positional groups (C11 iterator): %s" % res["pos"])
        print("  documented result from them:      %s" % res["want"])
    elif not exc:
        print("  positional iteration failed with %s: nothing to compare with" % res.get("pexc"))
    if getattr(ctx, "driver_ok", True) and ctx.driver.available():
        m = ctx.driver.run([model_request(inputs, contigs, by_barcodes, rel)])[0]
        i = {"groups": groups} if exc is None else {"exc": exc}
        print("  model: %s (%s)" % (m, "outside the model" if has_unmodelled(m) else "same as the implementation" if m == i else "DIFFERS from the implementation"))
    for f in res["failures"]:
        print("  oracle: %s" % f["what"])
    return res["failures"]


def search(ctx):
    return run(ctx)

