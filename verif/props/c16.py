"""C16 - reading arbitrary text terminates and fails only in documented ways."""
from .. import filecases, impl
from ..common import exc_name, float_table, has_unmodelled
from ..runner import Outcome

LEVEL = "proof"
ASSUMPTIONS = ["lines are Python str without lone surrogates (not representable in the model, nor in UTF-8 files)"]
MODES = ["Strict", "Lenient", "Silent"]
ANNS = [None, None, "gdc-1.0.0", "gdc-1.0.0-public", "gdc-2.0.0-aliquot-merged-masked", "gdc-1.0.0-genie"]
SORTABLE = ("Coordinate", "BarcodesAndCoordinate")


def gen_file(rng):
    ann = rng.choice(ANNS)
    k = rng.random()
    if k < 0.25:
        header = filecases.header_lines(rng)     # arbitrary pragmas, also malformed / pseudo-scheme / unknown
        lines = filecases.whole_file(rng, ann, header=header, col=rng.random() < 0.9)
    else:
        lines = filecases.whole_file(rng, ann, sort=rng.choice([None, None, "Coordinate", "BarcodesAndCoordinate", "Unsorted", "Unknown"]),
                                     contigs=rng.choice([None, None, ["1", "2", "10", "X"], ["chr1", "chr2"]]),
                                     col=rng.random() < 0.93)
    return lines


def body_count(lines):
    """Number of lines that follow the column-name line (first line not starting with '#')."""
    stripped = [l.rstrip("\r\n") for l in lines]
    k = 0
    while k < len(stripped) and stripped[k].startswith("#"):
        k += 1
    if k >= len(stripped):
        return 0
    return len(stripped) - k - 1


def declared_sortable(lines):
    for l in lines:
        s = l.rstrip("\r\n")
        if not s.startswith("#"):
            break
        parts = s[1:].split(" ", 1)
        if len(parts) == 2 and parts[0] == "sort.order" and parts[1].rstrip() in SORTABLE:
            return True
    return False


def request(lines, mode):
    """The reader.run request (implementation and model) for one file in one mode."""
    allf = [p for l in lines for p in l.rstrip("\r\n").split("\t")]
    return {"op": "reader.run", "lines": lines, "mode": mode, "floats": float_table(allf)}


def oracle(lines, mode, i):
    """The property on the implementation's answer `i` to reading `lines` in `mode`: the failure dicts (at most one)."""
    where = {"lines": lines, "mode": mode}
    exc = i.get("init_exc") or i.get("iter_exc")
    sortable = declared_sortable(lines)
    if exc:
        ok = (mode == "Strict" and exc.startswith("MafFormatException:")) or (sortable and exc == "ValueError" and "iter_exc" in i and i.get("iter_exc"))
        if not ok:
            return [dict(where, what="reading failed with %s, which is neither the format exception in Strict mode nor the documented ordering error" % exc,
                         kind="undocumented-exception", exception=exc, stage="init" if i.get("init_exc") else "iteration")]
        return []
    want = body_count(lines)
    if len(i["records"]) != want:
        return [dict(where, what="yielded %d records for %d lines after the column line" % (len(i["records"]), want), kind="count")]
    return []


def eval_read(r, m):
    """One read (shared by run and replay_case): executed on the implementation, compared with the model's answer `m`
    (None = model not consulted) and judged by the oracle.
    Returns (implementation answer, correspondence, failures); correspondence is None / "agree" / "unmodelled" / "dontcare" / a disagreement dict."""
    lines, mode = r["lines"], r["mode"]
    i = impl.run(r)
    corr = None
    if m is not None:
        corr = "agree"
        if has_unmodelled(m):
            corr = "unmodelled"
        elif m != i:
            from .. import colcases
            dc = any(colcases.dontcare_numeric(p) or colcases.dontcare_uuid(p) for l in lines for f in l.split("\t") for p in [f] + f.split(";"))
            if dc:
                corr = "dontcare"
            else:
                keys = [k for k in sorted(set(m) | set(i)) if m.get(k) != i.get(k)]
                corr = {"op": "reader.run", "lines": lines, "mode": mode, "differs": keys,
                        "model": {k: m.get(k) for k in keys if k != "records"},
                        "impl": {k: i.get(k) for k in keys if k != "records"}}
    return i, corr, oracle(lines, mode, i)


def run(ctx):
    out = Outcome()
    out.rule = ("random files over an adversarial alphabet (pragmas in any position, blank lines, wrong counts, invalid fields, control / non-ASCII characters, "
                "pseudo-scheme and unknown annotations) x 3 modes x declared order present/absent x built-in / unrecognised layouts; "
                "non-trivial = file with a body or a malformed header; distinct files")
    rng = ctx.rng("files")
    reqs = []
    for _ in range(ctx.scale(500, 6000)):
        lines = gen_file(rng)
        for mode in MODES:
            reqs.append(request(lines, mode))
    mo = ctx.driver.run(reqs)
    for r, m in zip(reqs, mo):
        out.evaluations += 1
        lines, mode = r["lines"], r["mode"]
        i, corr, failures = eval_read(r, m)
        if corr == "unmodelled":
            out.unmodelled += 1
        elif corr == "dontcare":
            out.dontcare += 1
        elif isinstance(corr, dict):
            out.disagreements.append(corr)
        exc = i.get("init_exc") or i.get("iter_exc")
        if exc:
            out.distribution["exc:" + exc.split(":")[0]] += 1
        else:
            out.distribution["completed"] += 1
        out.failures += failures
        if body_count(lines) or any(l.startswith("#") for l in lines):
            out.nontrivial.add(repr(lines))
        if len(out.samples) < 4 and body_count(lines) > 1:
            out.sample({"lines": [l[:80] for l in lines[:6]], "mode": mode, "outcome": exc or "completed"})
    return out


def _brief(a):
    """What a reader.run answer says, in one line."""
    if a is None:
        return "(not available)"
    if "init_exc" in a:
        return "constructing the reader raised %s" % a["init_exc"]
    return "scheme=%s, %d record(s) yielded, iteration %s, %d validation error(s)%s" % (
        (a.get("scheme") or {}).get("annotation"), len(a.get("records", [])),
        "raised %s" % a["iter_exc"] if a.get("iter_exc") else "completed", len(a.get("errors", [])),
        (" %s" % a["errors"][:4]) if a.get("errors") else "")


def replay_case(ctx, failure):
    """Re-evaluate the stored failing input on the current implementation; return the list of failure dicts it
    produces now (empty list = the property holds on that input)."""
    lines, mode = failure.get("lines"), failure.get("mode")
    if failure.get("kind") not in ("undocumented-exception", "count") or not isinstance(lines, list) or mode not in MODES:
        return None
    r = request(lines, mode)
    m = None
    if ctx.driver.available():
        try:
            m = ctx.driver.run([r])[0]
        except Exception as e:  # noqa
            print("model: driver failed (%s)" % str(e)[:200])
    i, corr, failures = eval_read(r, m)
    print("executed: MafReader(lines=<%d lines>, validation_stringency=%s), then iterated to the end" % (len(lines), mode))
    for n, l in enumerate(lines[:12], start=1):
        print("  line %d: %r" % (n, l[:100]))
    print("  %d line(s) after the column line; sortable order declared: %s" % (body_count(lines), declared_sortable(lines)))
    print("implementation: %s" % _brief(i))
    if m is not None:
        print("model:          %s" % (_brief(m) if corr != "unmodelled" else "input outside the model's domain"))
        print("model vs implementation: %s" % (corr if isinstance(corr, str) else "differ in %s" % corr["differs"]))
    for g in failures:
        print("oracle: %s" % g["what"])
    if not failures:
        print("oracle: satisfied (%s)" % ("documented failure" if (i.get("init_exc") or i.get("iter_exc")) else "one record per line after the column line"))
    return failures


def shrink(ctx, f):
    lines = list(f["lines"])
    mode = f["mode"]

    def fails(ls):
        i = impl.run({"op": "reader.run", "lines": ls, "mode": mode})
        exc = i.get("init_exc") or i.get("iter_exc")
        if f["kind"] == "count":
            return not exc and len(i["records"]) != body_count(ls)
        return exc == f.get("exception")
    changed = True
    while changed:
        changed = False
        for k in range(len(lines)):
            ls = lines[:k] + lines[k + 1:]
            if fails(ls):
                lines = ls
                changed = True
                break
    return dict(f, lines=lines, shrunk_from=len(f["lines"]))


def search(ctx):
    return run(ctx)

