"""C16 - reading arbitrary text terminates and fails only in documented ways."""
from .. import filecases, impl, sortcases as SC
from ..common import exc_name, float_table, has_unmodelled
from ..runner import Outcome
from . import c09
from .c08 import expected_cmp

LEVEL = "proof"
ASSUMPTIONS = ["lines are Python str without lone surrogates (not representable in the model, nor in UTF-8 files)",
               "the lines of a file on disk are its physical lines: ended by LF, CRLF or a lone CR (text mode, universal newlines), nothing else",
               "whether the data contradicts the declared order is judged only when the header declares the order (and at most one contig list) exactly once "
               "and the records involved carry a chromosome name, integer positions and text barcodes; other ordering errors are accepted as before"]
PENDING_DEFECTS = []
MODES = ["Strict", "Lenient", "Silent"]
ANNS = [None, None, "gdc-1.0.0", "gdc-1.0.0-public", "gdc-2.0.0-aliquot-merged-masked", "gdc-1.0.0-genie"]
SORTABLE = ("Coordinate", "BarcodesAndCoordinate")


def gen_file(rng):
    ann = rng.choice(ANNS)
    k = rng.random()
    if k < 0.25:
        header = filecases.header_lines(rng)     # arbitrary pragmas, also malformed / pseudo-scheme / unknown
        lines = filecases.whole_file(rng, ann, header=header, col=rng.random() < 0.9)
    else:
        lines = filecases.whole_file(rng, ann, sort=rng.choice([None, None, "Coordinate", "BarcodesAndCoordinate", "Unsorted", "Unknown"]),
                                     contigs=rng.choice([None, None, ["1", "2", "10", "X"], ["chr1", "chr2"]]),
                                     col=rng.random() < 0.93)
    return lines


def body_count(lines):
    """Number of lines that follow the column-name line (first line not starting with '#')."""
    stripped = [l.rstrip("\r\n") for l in lines]
    k = 0
    while k < len(stripped) and stripped[k].startswith("#"):
        k += 1
    if k >= len(stripped):
        return 0
    return len(stripped) - k - 1


def declared_sortable(lines):       # (kept for older callers; declared() is what the oracle uses)
    for l in lines:
        s = l.rstrip("\r\n")
        if not s.startswith("#"):
            break
        parts = s[1:].split(" ", 1)
        if len(parts) == 2 and parts[0] == "sort.order" and parts[1].rstrip() in SORTABLE:
            return True
    return False


def request(lines, mode, via=None, consume=None, text=None, given=None, given_norestrict=None):
    """The reader.run request for one file in one mode.  It is what the model is asked (its "lines" are the lines the reader
    is given); the implementation is run on the same request through factory `via` (filecases.READER_VIAS; None = the plain
    MafReader(lines=<list>)) and consumed in style `consume` (filecases.CONSUME_STYLES; None = a for loop).  For the
    path-based factories `text` is the text of the file and the lines are its physical lines."""
    if via in ("path", "gz"):
        lines = filecases.physical_lines(text)
    allf = [p for l in lines for p in l.rstrip("\r\n").split("\t")]
    r = {"op": "reader.run", "lines": lines, "mode": mode, "floats": float_table(allf)}
    if via is not None:
        r["via"], r["consume"] = via, consume or "for"
        if via in ("path", "gz"):
            r["text"] = text
    if given is not None:
        r["given"] = given
    if given_norestrict is not None:
        r["given_norestrict"] = given_norestrict
    return r


def how_of(r):
    """The part of a request beyond lines and mode (stored in failures, enough to rebuild the request)."""
    return {k: r[k] for k in ("via", "consume", "text", "given", "given_norestrict") if k in r}


def declared(lines):
    """What the header of the file declares about order, read off the text by the documented pragma syntax
    ('#key value', value without trailing blanks): {"sortable": a sortable order is named on some sort.order line,
    "order", "contigs": set when exactly one well-formed sort.order line (naming a sortable order) and at most one
    (then well-formed) contigs line exist - otherwise the declaration is not clear-cut and "order" is None}."""
    so, cg = [], []
    for l in lines:
        s = l.rstrip("\r\n")
        if not s.startswith("#"):
            break
        parts = s[1:].split(" ", 1)
        key = parts[0]
        val = parts[1].rstrip() if len(parts) == 2 else None
        if key == "sort.order":
            so.append(val)
        elif key == "contigs":
            cg.append(val)
    out = {"sortable": any(v in SORTABLE for v in so), "order": None, "contigs": None}
    if len(so) == 1 and so[0] in SORTABLE and len(cg) <= 1 and all(cg):
        out["order"], out["contigs"] = so[0], (cg[0].split(",") if cg else [])
    return out


def read_loc(rec):
    """What a sort order reads from a record, through the accessors the library uses, each component on its own;
    "missing" lists the coordinate components whose column the record does not hold."""
    def cell(column):
        # straight from the columns the record holds (not through the record's convenience accessors: the oracle's view
        # of the input must not depend on the code under test more than it has to)
        try:
            c = rec[column]
        except Exception:  # noqa
            return None, False
        return (None, False) if c is None else (c.value, True)
    out = {"tumor": SC.kv(cell("Tumor_Sample_Barcode")[0]), "normal": SC.kv(cell("Matched_Norm_Sample_Barcode")[0]), "missing": []}
    for name, column in (("chr", "Chromosome"), ("start", "Start_Position"), ("stop", "End_Position")):
        v, held = cell(column)
        out[name] = SC.kv(v) if held else None
        if not held:
            out["missing"].append(name)
    out["hasCoords"] = not out["missing"]
    return out


def body_locs(lines, i):
    """What the order reads from each line after the column line (read_loc of the line parsed alone, in Silent mode,
    under the scheme the reader reports); None when the reader reports no scheme."""
    from maflib.record import MafRecord
    from maflib.schemes import NoRestrictionsScheme
    from maflib.validation import ValidationStringency as VS
    if not i.get("scheme"):
        return None
    sch = impl.scheme_by_annotation(i["scheme"]["annotation"]) or NoRestrictionsScheme(column_names=i["scheme"]["names"])
    stripped = [l.rstrip("\r\n") for l in lines]
    k = 0
    while k < len(stripped) and stripped[k].startswith("#"):
        k += 1
    locs = []
    for l in stripped[k + 1:]:
        try:
            locs.append(read_loc(MafRecord.from_line(l, scheme=sch, validation_stringency=VS.Silent)))
        except Exception:  # noqa
            locs.append(None)
    return locs


def _position(v):
    """"num": a position the documented order can read (missing, a number, or the plain decimal text of an integer);
    "bad": a text that is no integer under any reading; None: anything else (not judged)."""
    import re
    if v is None or isinstance(v, int):
        return "num"
    if isinstance(v, str):
        if re.match(r"^[+-]?[0-9]+$", v):
            return "num"
        try:
            int(v)
        except ValueError:
            return "bad"
    return None


def key_class(loc, order, cs):
    """How a line after the column line takes part in the declared order: "contig" (it names a chromosome - or none -
    that the declared contig list does not hold: it contradicts the list whatever else it holds), "keyed" (chromosome name
    or none, readable positions, text-or-missing barcodes: the documented order compares it), "malformed" (a coordinate
    column is missing, or a position text is not an integer: it cannot be compared, so it can neither follow nor contradict
    the order), None (something else: not judged)."""
    if not loc:
        return None
    if "chr" not in loc["missing"]:
        if not (loc["chr"] is None or isinstance(loc["chr"], (str, int))):
            return None
        if cs and str(loc["chr"]) not in cs:
            return "contig"
    ps = [_position(loc["start"]), _position(loc["stop"])]
    if loc["missing"] or "bad" in ps:
        return "malformed"
    if None in ps:
        return None
    if order == "BarcodesAndCoordinate" and not all(loc[b] is None or isinstance(loc[b], str) for b in ("tumor", "normal")):
        return None
    return "keyed"


def ordering_verdict(lines, i, decl=None):
    """A ValueError was raised after len(i["records"]) records, i.e. on reading the next line: does that line contradict
    the declared order or contig list?  "contig" / "descent" (it does: the documented ordering error), "spurious" (it does
    not: it names a listed chromosome and is not smaller, in the documented order, than any comparable record before it),
    "malformed" (the line has no readable coordinates, so it contradicts nothing: the failure is due to a malformed line),
    or None (not judged: declaration not clear-cut, or a record involved is of neither kind)."""
    decl = decl or declared(lines)
    order, cs = decl["order"], decl["contigs"]
    if order is None:
        return None
    locs = body_locs(lines, i)
    d = len(i.get("records", []))
    if locs is None or d >= len(locs):
        return None
    kd = key_class(locs[d], order, cs)
    if kd != "keyed":
        return kd
    classes = [key_class(x, order, cs) for x in locs[:d]]
    if None in classes or "contig" in classes:
        return None                                # (an earlier contradiction that went unreported is C09's subject)
    prev = [x for x, c in zip(locs[:d], classes) if c == "keyed"]
    if any(expected_cmp(locs[d], x, order, cs) < 0 for x in prev):
        return "descent"
    return "spurious"


def oracle(lines, mode, i, how=None):
    """The property on the implementation's answer `i` to reading `lines` in `mode`: the failure dicts (at most one)."""
    where = dict({"lines": lines, "mode": mode}, **(how or {}))
    exc = i.get("init_exc") or i.get("iter_exc")
    decl = declared(lines)
    if exc:
        if mode == "Strict" and exc.startswith("MafFormatException:"):
            return []
        if decl["sortable"] and exc == "ValueError" and i.get("iter_exc"):
            v = ordering_verdict(lines, i, decl)
            d = len(i["records"])
            about = dict(where, exception=exc, stage="iteration", order=decl["order"], contigs=decl["contigs"], at_record=d)
            if v == "spurious":
                return [dict(about, what="the ordering error was raised on the line of record %d although it does not contradict the declared order %s%s: "
                                         "it is not smaller than any record before it" % (d + 1, decl["order"], " with contigs %s" % decl["contigs"] if decl["contigs"] else ""),
                             kind="spurious-ordering-error")]
            if v == "malformed":
                return [dict(about, what="reading failed with ValueError on the line of record %d, which has no readable coordinates (missing column or non-integer position text): "
                                         "a malformed line contradicts no order%s" % (d + 1, "" if mode == "Strict" else ", and the non-strict modes never fail merely because a line is malformed"),
                             kind="ordering-error-on-malformed-line")]
            return []
        return [dict(where, what="reading failed with %s, which is neither the format exception in Strict mode nor the documented ordering error" % exc,
                     kind="undocumented-exception", exception=exc, stage="init" if i.get("init_exc") else "iteration")]
    want = body_count(lines)
    if len(i["records"]) != want:
        return [dict(where, what="yielded %d records for %d lines after the column line" % (len(i["records"]), want), kind="count")]
    return []


def eval_read(r, m):
    """One read (shared by run and replay_case): executed on the implementation, compared with the model's answer `m`
    (None = model not consulted) and judged by the oracle.
    Returns (implementation answer, correspondence, failures); correspondence is None / "agree" / "unmodelled" / "dontcare" / a disagreement dict."""
    lines, mode = r["lines"], r["mode"]
    i = filecases.reader_open(r) if "via" in r else impl.run(r)
    corr = None
    if m is not None:
        corr = "agree"
        if has_unmodelled(m):
            corr = "unmodelled"
        elif r.get("consume") in filecases.UNCHECKED_STYLES and m.get("iter_exc") == "ValueError":
            corr = "unmodelled"     # the model reads as a for loop does (order enforced); next(reader) bypasses the order check
        elif m != i:
            from .. import colcases
            dc = any(colcases.dontcare_numeric(p) or colcases.dontcare_uuid(p) for l in lines for f in l.rstrip("\r\n").split("\t") for p in [f] + f.split(";"))
            if dc:
                corr = "dontcare"
            else:
                keys = [k for k in sorted(set(m) | set(i)) if m.get(k) != i.get(k)]
                corr = {"op": "reader.run", "lines": lines, "mode": mode, "how": how_of(r), "differs": keys,
                        "model": {k: m.get(k) for k in keys if k != "records"},
                        "impl": {k: i.get(k) for k in keys if k != "records"}}
    return i, corr, oracle(lines, mode, i, how_of(r))


GIVEN_NAMES = [["c1", "c2", "c3", "c4"], ["a", "b", "c", "d"], c09.UNTYPED, ["x"]]


def gen_how(rng, lines, via=None):
    """A factory, a consumption style and (sometimes) a scheme given by the caller for reading `lines`: keyword arguments of request()."""
    via = via or rng.choice(filecases.READER_VIAS)
    kw = {"via": via, "consume": rng.choice(["for", "for", "iter", "next", "method", "iter-method"])}
    if via in ("path", "gz"):
        kw["text"] = filecases.text_of(rng, lines)
    k = rng.random()
    if k < 0.1:
        kw["given"] = rng.choice([a for a in ANNS if a])
    elif k < 0.2:
        kw["given_norestrict"] = rng.choice(GIVEN_NAMES)
    return kw


def gen_factory_file(rng):
    """A file of the main family, often with empty lines and with characters that are not line terminators although
    str.splitlines() (and some editors) break on them, or that text handling tends to special-case."""
    lines = gen_file(rng)
    k = rng.random()
    if k < 0.45:
        lines = filecases.inject_chars(rng, lines, filecases.LINEBREAKISH)
    elif k < 0.6:
        lines = filecases.inject_chars(rng, lines, filecases.ODD_CHARS)
    if rng.random() < 0.35:
        lines = filecases.with_empty_lines(rng, lines)
    return lines


BAD_COORD_TEXTS = ["abc", "", "1.5", "x y", "é", "-", "1e3", "0x10", "None",
                   # texts that float() reads although int() does not: no integer position, hence no key (never an arithmetic error)
                   "inf", "-Infinity", "1e999", "nan", "12.0"]
CONTIG_LISTS = [None, ["1", "2", "10", "X"], ["chr1", "chr2", "chr10"], ["10", "2", "X", "1"], ["chr10", "chr2", "chr1"], [str(i) for i in range(1, 13)] + ["X"],
                # a list that names a contig twice (concatenated lists): the first mention ranks it
                ["1", "2", "10", "1"], ["chr1", "chr2", "chr10", "chr2", "chr1"], ["0", "1", "2"]]
EXTRA_PRAGMAS = ["#center broad.mit.edu", "#n.samples 4", "#note sorted by the pipeline"]


def gen_ordered_file(rng, corrupt=0.0):
    """A file that declares a sortable order (with or without a contig list, either pragma first) over a typed (gdc-1.0.0)
    or scheme-less body whose records follow the documented order, left alone / with two records swapped / shuffled / with a
    chromosome outside the list, with malformed lines in between (no coordinates) and - with probability `corrupt` - with one
    coordinate text made unreadable."""
    typed = rng.random() < 0.5
    order = rng.choice(SORTABLE)
    contigs = rng.choice(CONTIG_LISTS)
    chroms = contigs or rng.choice([["1", "2", "10", "X"], ["chr1", "chr2", "chr10"]])
    recs = c09.gen_recs(rng, rng.randrange(1, 8), chroms)
    for x in recs:
        x["_typed"] = typed
    recs = c09.sort_recs(recs, order, contigs or [])
    k = rng.random()
    if k < 0.3 and len(recs) >= 2:
        a = rng.randrange(len(recs) - 1)
        b = rng.randrange(a + 1, len(recs))
        recs[a], recs[b] = recs[b], recs[a]
    elif k < 0.4:
        rng.shuffle(recs)
    elif k < 0.5 and contigs and recs:
        rng.choice(recs)["chr"] = rng.choice(["3", "chrY", "MT"])
    header = ["#version gdc-1.0.0"] + ([] if typed else ["#annotation.spec my-spec"])
    decl = ["#sort.order " + order] + (["#contigs " + ",".join(contigs)] if contigs else [])
    rng.shuffle(decl)
    header += decl
    if rng.random() < 0.3:
        header.insert(rng.randrange(1, len(header) + 1), rng.choice(EXTRA_PRAGMAS))
    col = "\t".join(impl.scheme_by_annotation("gdc-1.0.0").column_names()) if typed else "\t".join(c09.UNTYPED)
    body = c09.to_lines(recs, typed, rng)
    if body and rng.random() < corrupt:
        # one coordinate / barcode text made unreadable (a malformed line: under a typed scheme the column is invalid,
        # in a scheme-less file the text is simply not a number)
        names = col.split("\t")
        k = rng.randrange(len(body))
        fields = body[k].split("\t")
        fields[names.index(rng.choice(["Start_Position", "Start_Position", "End_Position", "Chromosome", "Tumor_Sample_Barcode"]))] = rng.choice(BAD_COORD_TEXTS)
        body[k] = "\t".join(fields)
    if rng.random() < 0.35:
        for _ in range(rng.randrange(1, 3)):
            body.insert(rng.randrange(len(body) + 1), rng.choice(filecases.ODD_LINES))
    return header + [col] + body


STREAM_SCRIPT = r"""
import json, sys
sys.path.insert(0, sys.argv[1])
from maflib.reader import MafReader
from maflib.validation import ValidationStringency as VS
try:
    rd = MafReader.reader_from("/dev/stdin", validation_stringency=getattr(VS, sys.argv[2]))
    n = sum(1 for _r in rd)
    print(json.dumps({"records": n}))
except Exception as e:
    print(json.dumps({"exc": type(e).__name__}))
"""


def eval_read_once(lines, mode):
    """The path names a read-once stream (/dev/stdin fed by a pipe; a named pipe behaves alike): reader_from still yields
    one record per line after the column line - the stream is opened and read once."""
    import json
    import subprocess
    import sys
    from ..common import REPO
    where = {"kind": "read-once-stream", "lines": lines, "mode": mode}
    p = subprocess.run([sys.executable, "-c", STREAM_SCRIPT, REPO, mode], input="".join(l + "\n" for l in lines), stdout=subprocess.PIPE, stderr=subprocess.PIPE, text=True, timeout=120)
    try:
        res = json.loads(p.stdout.strip().splitlines()[-1])
    except Exception:  # noqa
        return [dict(where, what="reading /dev/stdin through reader_from failed: %s" % (p.stderr.strip().splitlines() or ["no output"])[-1][:200])]
    want = body_count(lines)
    if "exc" in res:
        if mode == "Strict" and res["exc"] == "MafFormatException":
            return []
        return [dict(where, what="reading a read-once stream (reader_from('/dev/stdin')) failed with %s" % res["exc"])]
    if res["records"] != want:
        return [dict(where, what="reader_from on a read-once stream yielded %d records for %d lines after the column line" % (res["records"], want))]
    return []


def read_once_cases(ctx, out):
    rng = ctx.rng("c16-stream")
    for _ in range(ctx.scale(3, 20)):
        lines = ["#version gdc-1.0.0", "#annotation.spec lab-x", "a\tb\tc"] + ["%d\tx\ty" % k for k in range(rng.randrange(1, 6))]
        out.evaluations += 1
        out.failures += eval_read_once(lines, rng.choice(["Silent", "Lenient"]))
        out.distribution["reader_from on a read-once stream"] += 1
        out.nontrivial.add(("read-once", tuple(lines)))


def run(ctx):
    out = Outcome()
    out.rule = ("random files over an adversarial alphabet (pragmas in any position, blank lines, wrong counts, invalid fields, control / non-ASCII characters, "
                "pseudo-scheme and unknown annotations) x 3 modes x declared order present/absent x built-in / unrecognised layouts; "
                "non-trivial = file with a body or a malformed header; distinct files")
    out.rule += ("; every reader factory (MafReader(lines=<list>), (lines=<iterator>), reader_from(<plain file>), reader_from(<.gz file>)) x "
                 "consumption style (for / iter()+next() / next(reader)) x scheme given by the caller or not, over files with LF / CRLF / CR / mixed terminators, empty lines and "
                 "characters str.splitlines() breaks on; files declaring a sortable order (contig list absent / listed in non-lexical order) over bodies that follow it, descend "
                 "once or name an unlisted chromosome: an ordering error is accepted only on a line that contradicts the declaration")
    rng = ctx.rng("files")
    reqs = []
    for _ in range(ctx.scale(500, 6000)):
        lines = gen_file(rng)
        for mode in MODES:
            reqs.append(request(lines, mode))
    # every factory / consumption style / caller-given scheme (own stream: the cases above are unchanged)
    rng = ctx.rng("factories")
    for _ in range(ctx.scale(120, 1500)):
        lines = gen_factory_file(rng)
        for via in ("iter", "path", "gz"):
            kw = gen_how(rng, lines, via)
            if "text" in kw and not filecases.encodable(kw["text"]):
                continue
            reqs.append(request(lines, rng.choice(MODES), **kw))
    # declared order over bodies that follow / contradict it
    for salt, n, corrupt in (("ordered", ctx.scale(160, 2000), 0.0), ("ordered-unreadable", ctx.scale(80, 1000), 0.8)):
        rng = ctx.rng(salt)
        for _ in range(n):
            lines = gen_ordered_file(rng, corrupt)
            kw = gen_how(rng, lines)
            kw.pop("given", None)
            kw.pop("given_norestrict", None)
            reqs.append(request(lines, rng.choice(MODES), **kw))
    mo = ctx.driver.run(reqs)
    for r, m in zip(reqs, mo):
        out.evaluations += 1
        lines, mode = r["lines"], r["mode"]
        i, corr, failures = eval_read(r, m)
        for tag in ("via:" + r.get("via", "list"), "style:" + r.get("consume", "for")) + (("scheme-given",) if "given" in r or "given_norestrict" in r else ()):
            out.distribution[tag] += 1
        if i.get("iter_exc") == "ValueError":
            out.distribution["ordering-error:%s" % ordering_verdict(lines, i)] += 1
        if corr == "unmodelled":
            out.unmodelled += 1
        elif corr == "dontcare":
            out.dontcare += 1
        elif isinstance(corr, dict):
            out.disagreements.append(corr)
        exc = i.get("init_exc") or i.get("iter_exc")
        if exc:
            out.distribution["exc:" + exc.split(":")[0]] += 1
        else:
            out.distribution["completed"] += 1
        out.failures += failures
        if body_count(lines) or any(l.startswith("#") for l in lines):
            out.nontrivial.add(repr((lines, sorted(how_of(r).items()))) if "via" in r else repr(lines))
        if len(out.samples) < 4 and body_count(lines) > 1:
            out.sample({"lines": [l[:80] for l in lines[:6]], "mode": mode, "outcome": exc or "completed"})
    read_once_cases(ctx, out)
    return out


def _brief(a):
    """What a reader.run answer says, in one line."""
    if a is None:
        return "(not available)"
    if "init_exc" in a:
        return "constructing the reader raised %s" % a["init_exc"]
    return "scheme=%s, %d record(s) yielded, iteration %s, %d validation error(s)%s" % (
        (a.get("scheme") or {}).get("annotation"), len(a.get("records", [])),
        "raised %s" % a["iter_exc"] if a.get("iter_exc") else "completed", len(a.get("errors", [])),
        (" %s" % a["errors"][:4]) if a.get("errors") else "")


KINDS = ("undocumented-exception", "count", "spurious-ordering-error", "ordering-error-on-malformed-line")


INPUT_KEYS = ("lines", "mode", "via", "consume", "text", "given", "given_norestrict")


def replay_case(ctx, failure):
    if failure.get("kind") == "read-once-stream" and isinstance(failure.get("lines"), list):
        fails = eval_read_once(failure["lines"], failure.get("mode", "Silent"))
        print("replay C16: child interpreter with the %d lines on its standard input; MafReader.reader_from('/dev/stdin', %s) iterated to the end" % (len(failure["lines"]), failure.get("mode", "Silent")))
        for x in fails:
            print("  oracle: %s" % x["what"])
        return fails
    """Re-evaluate the stored failing input on the current implementation; return the list of failure dicts it
    produces now (empty list = the property holds on that input)."""
    lines, mode = failure.get("lines"), failure.get("mode")
    if failure.get("kind") not in KINDS or not isinstance(lines, list) or mode not in MODES:
        return None
    how = how_of(failure)
    if how.get("via") in ("path", "gz") and not isinstance(how.get("text"), str):
        return None
    r = request(lines, mode, **how)
    lines = r["lines"]
    m = None
    if ctx.driver.available():
        try:
            m = ctx.driver.run([r])[0]
        except Exception as e:  # noqa
            print("model: driver failed (%s)" % str(e)[:200])
    i, corr, failures = eval_read(r, m)
    via, style = how.get("via", "list"), how.get("consume", "for")
    opened = {"list": "MafReader(lines=<list of %d lines>" % len(lines), "iter": "MafReader(lines=<iterator over %d lines>" % len(lines),
              "path": "MafReader.reader_from(<plain file of %d characters, %d physical lines>" % (len(how.get("text", "")), len(lines)),
              "gz": "MafReader.reader_from(<.gz file of %d characters, %d physical lines>" % (len(how.get("text", "")), len(lines))}[via]
    given = ", scheme=<%s>" % how["given"] if "given" in how else ", scheme=NoRestrictionsScheme(%s)" % how["given_norestrict"] if "given_norestrict" in how else ""
    print("executed: %s, validation_stringency=%s%s), then consumed to the end with %s" % (
        opened, mode, given, filecases.STYLE_TEXT[style]))
    if "text" in how:
        print("  file text: %r" % how["text"][:300])
    for n, l in enumerate(lines[:12], start=1):
        print("  line %d: %r" % (n, l[:100]))
    decl = declared(lines)
    print("  %d line(s) after the column line; sortable order declared: %s%s" % (body_count(lines), decl["sortable"],
          " (%s, contigs %s)" % (decl["order"], decl["contigs"] or "not listed") if decl["order"] else ""))
    print("implementation: %s" % _brief(i))
    if i.get("iter_exc") == "ValueError" and decl["sortable"]:
        v = ordering_verdict(lines, i, decl)
        locs = body_locs(lines, i) or []
        for j, x in enumerate(locs[:len(i["records"]) + 1]):
            print("  record %d: %s" % (j + 1, "unreadable" if not x else "tumor=%r normal=%r chr=%r start=%r end=%r" % (x["tumor"], x["normal"], x["chr"], x["start"], x["stop"]) + (" (no column: %s)" % ", ".join(x["missing"]) if x["missing"] else "")))
        print("  the ordering error was raised on the line of record %d: %s" % (len(i["records"]) + 1, {
            "contig": "its chromosome is not in the declared contig list", "descent": "it is smaller than a record before it", "spurious": "it does NOT contradict the declaration",
            "malformed": "it has no readable coordinates, so it contradicts nothing",
            None: "not judged (declaration not clear-cut or coordinates not well-formed)"}[v]))
    if m is not None:
        print("model:          %s" % (_brief(m) if corr != "unmodelled" else "input outside the model's domain"))
        print("model vs implementation: %s" % (corr if isinstance(corr, str) else "differ in %s" % corr["differs"]))
    for g in failures:
        print("oracle: %s" % g["what"])
    if not failures:
        print("oracle: satisfied (%s)" % ("documented failure" if (i.get("init_exc") or i.get("iter_exc")) else "one record per line after the column line"))
        print("the stored input alone satisfies the property; the failure may depend on what the process did before it (state kept between calls):")
        failures = filecases.rerun_in_fresh_process("C16", failure, INPUT_KEYS)
        for g in failures[:1]:
            print("oracle (in the re-run): %s" % g["what"])
    return failures


def shrink(ctx, f):
    """Drops lines (for a file on disk: physical lines together with their terminators) while the same kind of failure remains."""
    import re
    mode = f["mode"]
    how = how_of(f)
    on_disk = how.get("via") in ("path", "gz")
    # the pieces of the input: lines, or physical lines with their terminators
    pieces = [p for p in re.findall(r"[^\r\n]*(?:\r\n|\r|\n|$)", how["text"]) if p] if on_disk else list(f["lines"])

    def req(ps):
        return request(None, mode, **dict(how, text="".join(ps))) if on_disk else request(ps, mode, **how)

    def failing(ps):
        return [g for g in eval_read(req(ps), None)[2] if g["kind"] == f["kind"] and g.get("exception") == f.get("exception")]
    n0 = len(pieces)
    changed = True
    while changed:
        changed = False
        for k in range(len(pieces)):
            ps = pieces[:k] + pieces[k + 1:]
            if failing(ps):
                pieces = ps
                changed = True
                break
    if len(pieces) == n0:
        return f
    return dict(failing(pieces)[0], shrunk_from=n0)


def search(ctx):
    return run(ctx)

