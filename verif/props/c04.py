"""C04 - rendering a parsed record is a canonical fixpoint that preserves its values."""
from .. import colcases, impl
from ..common import float_table, has_unmodelled, is_model_text
from ..runner import Outcome
from .c01 import zone

LEVEL = "proof"
ASSUMPTIONS = [
    "float()/repr(): FloatHost laws (parse(repr f) = f, repr contains no separator) are assumptions checked on the recorded graph each run",
    "a 'line' carries no embedded CR/LF (framing of such texts is C06/C02/C16's concern); NaN is excluded from 'denotes equal values' (nan != nan in Python)",
]
SEPS = ("\t", "\n", "\r")


def py_eq(a, b):
    """Python == on encoded values (True == 1; floats by repr; everything else structural)."""
    if a == b:
        return True
    ta, tb = a.get("t"), b.get("t")
    if {ta, tb} == {"bool", "int"}:
        x = a if ta == "bool" else b
        y = b if ta == "bool" else a
        return int(y["v"]) == (1 if x["v"] else 0)
    if ta == tb and ta in ("list", "tuple"):
        return len(a["v"]) == len(b["v"]) and all(py_eq(x, y) for x, y in zip(a["v"], b["v"]))
    return False


def preferred_null(cls, value=None, given=False):
    """The preferred spelling of a null value: among the spellings of THAT null value (a class may have several null
    values), the empty text if it is one of them, else the first."""
    d = cls.__nullable_dict__()
    if not d:
        return None
    keys = [k for k, v in d.items() if v == value] if given else list(d)
    if not keys:
        return None
    return "" if "" in keys else keys[0]


def eval_field(ann, name, text, cls):
    """The fixpoint property on the implementation for one field text under column class `cls`.
    -> {"status": "rejected" | "accepted", "failures": [...], "rendered": ..., "value": ..., "reparsed": ..., "rerendered": ...}"""
    where = {"scheme": ann, "column": name, "text": text}
    e = {"status": "rejected", "failures": []}
    fails = e["failures"]
    try:
        c1 = cls.build(name=name, value=text, column_index=0)
    except Exception as x:  # noqa
        e["why"] = "build raised %s" % type(x).__name__
        return e
    if type(c1).__name__ == "MafColumnRecord" and cls.__name__ != "MafColumnRecord":
        e["why"] = "built a plain MafColumnRecord"
        return e
    if c1.validate():
        e["why"] = "validation errors"
        return e
    e["status"] = "accepted"
    try:
        s1 = e["rendered"] = str(c1)
    except Exception as x:  # noqa
        fails.append(dict(where, text_length=len(text),
                          what="an accepted field has no rendering: str() of the column raised %s" % type(x).__name__, kind="render-raises"))
        return e
    e["value"] = impl.enc_val(c1.value)
    if any(ch in s1 for ch in SEPS):
        fails.append(dict(where, what="rendered field contains a tab or line break", kind="separator", rendered=s1))
        return e
    if c1.is_null():
        pn = preferred_null(cls, c1.value, given=True)
        if s1 != pn:
            fails.append(dict(where, what="null value is not rendered as the preferred null spelling",
                              kind="null-spelling", rendered=s1, expected=pn))
    try:
        c2 = cls.build(name=name, value=s1, column_index=0)
        errs = c2.validate()
    except Exception as x:  # noqa
        fails.append(dict(where, what="rendering of an accepted field is not accepted", kind="reparse",
                          rendered=s1, got=repr(x)))
        return e
    if errs:
        fails.append(dict(where, what="rendering of an accepted field is not accepted", kind="reparse",
                          rendered=s1, got=[x.tpe.name for x in errs]))
        return e
    v1, v2 = e["value"], impl.enc_val(c2.value)
    e["reparsed"] = v2
    nan = v1.get("t") == "float" and v1["v"] == "nan"
    if not nan and not py_eq(v1, v2):
        fails.append(dict(where, what="value changes across render + parse", kind="value-changed",
                          rendered=s1, value=v1, reparsed=v2))
    s2 = e["rerendered"] = str(c2)
    if s2 != s1:
        fails.append(dict(where, what="rendering is not a fixpoint", kind="not-fixpoint", rendered=s1, rerendered=s2))
    return e


def field_cases(ctx, out, per_sig_uses):
    rng = ctx.rng("fields")
    sigs = colcases.class_signatures()
    reqs = []
    for sig, uses in sorted(sigs.items()):
        for ann, name in rng.sample(uses, min(per_sig_uses, len(uses))):
            cls = impl.scheme_by_annotation(ann).column_class(name)
            for t in colcases.pool_for(cls, rng):
                if any(ch in t for ch in SEPS):
                    continue
                out.evaluations += 1
                e = eval_field(ann, name, t, cls)
                out.failures += e["failures"]
                k = e["status"]
                out.distribution["field:" + k] += 1
                if k == "accepted":
                    out.nontrivial.add((sig, t))
                    # correspondence: the model renders and re-parses the same way
                    reqs.append(colcases.build_req(ann, name, t, 0))
                    if len(out.samples) < 4 and t:
                        out.sample({"scheme": ann, "column": name, "text": t, "rendered": str(cls.build(name=name, value=t))})
    unmodelled, dontcare, dis, _d = compare_model(ctx, reqs)
    out.unmodelled += unmodelled
    out.dontcare += dontcare
    out.disagreements += dis


def compare_model(ctx, reqs):
    """Model side of accepted fields: build, then build the model's own rendering; both compared with the
    implementation.  -> (unmodelled, dontcare, disagreements, {index of request: [(request, model, impl), ...]})"""
    mo = ctx.driver.run(reqs)
    unmodelled, dontcare, dis, detail = 0, 0, [], {}
    second = []
    for k, (r, m) in enumerate(zip(reqs, mo)):
        i = impl.run(r)
        detail[k] = [(r, m, i)]
        if has_unmodelled(m):
            unmodelled += 1
            continue
        if m != i:
            if colcases.dontcare_numeric(r["text"]) or colcases.dontcare_uuid(r["text"]):
                dontcare += 1
            else:
                dis.append({"op": "col.build", "request": r, "model": m, "impl": i})
            continue
        s1 = m["col"]["str"].get("ok")
        if s1 is not None and is_model_text(s1):
            second.append((k, colcases.build_req(r["scheme"], r["col"], s1, 0)))
    mo2 = ctx.driver.run([r for _k, r in second])
    for (k, r), m in zip(second, mo2):
        i = impl.run(r)
        detail[k].append((r, m, i))
        if not has_unmodelled(m) and m != i and not (colcases.dontcare_numeric(r["text"]) or colcases.dontcare_uuid(r["text"])):
            dis.append({"op": "col.build(rendered)", "request": r, "model": m, "impl": i})
    return unmodelled, dontcare, dis, detail


def eval_line(ann, line):
    """One whole line (it may still carry its terminator: LF, CRLF, CR): str(record) re-parses to an equal record and
    renders to itself.  -> {"status": "not-accepted" | "accepted", "failures": [...], "rendered": ..., "rerendered": ...}"""
    from maflib.record import MafRecord
    from maflib.validation import ValidationStringency
    sch = impl.scheme_by_annotation(ann)
    r1 = MafRecord.from_line(line, scheme=sch, validation_stringency=ValidationStringency.Silent)
    return eval_parsed(ann, r1, line.split("\t"), {"scheme": ann, "line": line})


def eval_kept(ann, line):
    """A record is parsed and kept; then the caller edits, in place, the lists that OTHER parsed records hand out
    (colcases.edit_parsed_lists).  The kept record still renders as it did, and its rendering still denotes the values
    it was parsed with (copied at parse time)."""
    import random
    from maflib.record import MafRecord
    from maflib.validation import ValidationStringency
    sch = impl.scheme_by_annotation(ann)
    where = {"scheme": ann, "line": line, "history": "parsed-lists-edited"}
    r1 = MafRecord.from_line(line, scheme=sch, validation_stringency=ValidationStringency.Silent)
    if r1.validation_errors:
        return {"status": "not-accepted", "failures": []}
    v0 = [impl.enc_val(v) for v in r1.column_values()]
    s0 = str(r1)
    fails = []
    undo = colcases.edit_parsed_lists(ann, random.Random(11))
    try:
        s1 = str(r1)
        if s1 != s0:
            fails.append(dict(where, what="a kept record renders differently after lists handed out by other parsed records were edited in place", kind="not-fixpoint", rendered=s0, rerendered=s1))
        else:
            r2 = MafRecord.from_line(s1, scheme=sch, validation_stringency=ValidationStringency.Silent)
            v2 = [impl.enc_val(v) for v in r2.column_values()]
            for k, (a, b) in enumerate(zip(v0, v2)):
                if not py_eq(a, b) and not (a.get("t") == "float" and a["v"] == "nan"):
                    fails.append(dict(where, what="value changes across render + parse (the record was parsed, kept, and rendered after lists handed out by other parsed records were edited in place)",
                                      kind="value-changed", column=sch.column_names()[k], text=line.split("\t")[k], value=a, reparsed=b))
                    break
    finally:
        undo()
    return {"status": "accepted", "failures": fails, "rendered": s0}


def app_classes():
    """Column classes an application defines on top of the library's abstract ones: an enumerated column over a plain
    standard-library Enum (not the library's MafEnum), and custom columns with two different null values."""
    import enum
    import maflib.column_types as CT
    from maflib.column import MafCustomColumnRecord

    class Platform(enum.Enum):
        Illumina = "ILLUMINA"
        IonTorrent = "ION"

    class PlatformColumn(CT.EnumColumn):
        @classmethod
        def __enum_class__(cls):
            return Platform

    class _Custom(MafCustomColumnRecord):
        @classmethod
        def __build__(cls, value):
            return str(value)

        def __validate__(self):
            return None

    class EmptyOrNA(_Custom):
        @classmethod
        def __nullable_dict__(cls):
            return {"": None, "NA": ()}

    class NAOrND(_Custom):
        @classmethod
        def __nullable_dict__(cls):
            return {"NA": (), "ND": None, "n/d": None}
    return [(PlatformColumn, ["ILLUMINA", "ION", "Illumina", "IonTorrent", "illumina", ""]), (EmptyOrNA, ["", "NA", "x", "na"]), (NAOrND, ["NA", "ND", "n/d", "x", ""])]


def app_class_cases(ctx, out):
    for cls, texts in app_classes():
        for t in texts:
            out.evaluations += 1
            e = eval_field("application-defined column class %s" % cls.__name__, "col", t, cls)
            for f in e["failures"]:
                f["app_class"] = cls.__name__
            out.failures += e["failures"]
            out.distribution["application-defined column class: " + e["status"]] += 1
            if e["status"] == "accepted":
                out.nontrivial.add(("app-class", cls.__name__, t))


def kept_record_cases(ctx, out):
    rng = ctx.rng("c04-kept")
    for ann in rng.sample(impl.builtin_annotations(), ctx.scale(4, 14)):
        for prefer in (0.0, 0.6):
            line = "\t".join(colcases.valid_fields(ann, rng, prefer_nonnull=prefer))
            out.evaluations += 1
            e = eval_kept(ann, line)
            out.failures += e["failures"]
            out.distribution["kept record rendered after other records' lists were edited in place"] += 1
            if e["status"] == "accepted":
                out.nontrivial.add((ann, "kept", line))


def eval_parsed(ann, r1, fields, where):
    """The fixpoint oracle on a record `r1` the library parsed (from_line or a reader) from the field texts `fields`."""
    from maflib.record import MafRecord
    from maflib.validation import ValidationStringency
    sch = impl.scheme_by_annotation(ann)
    e = {"status": "not-accepted", "failures": []}
    fails = e["failures"]
    if r1.validation_errors:
        e["errors"] = [x.tpe.name for x in r1.validation_errors]
        return e
    e["status"] = "accepted"
    s1 = e["rendered"] = str(r1)
    if len(s1.split("\t")) != len(fields) or "\n" in s1 or "\r" in s1:
        fails.append(dict(where, what="rendered line has a different field count or a line break",
                          kind="separator", rendered=s1))
        return e
    r2 = MafRecord.from_line(s1, scheme=sch, validation_stringency=ValidationStringency.Silent)
    if r2.validation_errors:
        fails.append(dict(where, what="rendered line is not accepted", kind="reparse", rendered=s1,
                          got=[x.tpe.name for x in r2.validation_errors]))
        return e
    v1 = [impl.enc_val(v) for v in r1.column_values()]
    v2 = [impl.enc_val(v) for v in r2.column_values()]
    for k, (a, b) in enumerate(zip(v1, v2)):
        if not py_eq(a, b) and not (a.get("t") == "float" and a["v"] == "nan"):
            fails.append(dict(where, what="value changes across render + parse", kind="value-changed",
                              column=sch.column_names()[k], text=fields[k], value=a, reparsed=b))
            break
    e["rerendered"] = str(r2)
    if e["rerendered"] != s1:
        fails.append(dict(where, what="rendering is not a fixpoint", kind="not-fixpoint",
                          rendered=s1, rerendered=e["rerendered"]))
    return e


TERMINATORS = ("\n", "\r\n", "\r")


def terminated_line_cases(ctx, out, per_scheme):
    """Accepted lines handed to MafRecord.from_line with their terminator still on (lines of a file opened with
    newline='' or decoded from bytes): the terminator is not part of the last field, so the rendering has no line break."""
    rng = ctx.rng("lines-terminated")
    for ann in impl.builtin_annotations():
        for _ in range(per_scheme):
            for term in TERMINATORS:
                line = "\t".join(colcases.valid_fields(ann, rng, prefer_nonnull=rng.choice([0.1, 0.7, 0.95]))) + term
                out.evaluations += 1
                e = eval_line(ann, line)
                out.distribution["line%r:%s" % (term, e["status"])] += 1
                if e["status"] == "accepted":
                    out.nontrivial.add((ann, line))
                out.failures += e["failures"]


def file_preamble(ann):
    sch = impl.scheme_by_annotation(ann)
    header = ["#version " + sch.version()] + ([] if sch.is_basic() else ["#annotation.spec " + ann])
    return header, "\t".join(sch.column_names())


def eval_file(case, tmp):
    """Records the library's readers hand out for a file of lines (case = {"scheme", "lines", "route", "final"}; valid
    header and column line of the layout; Silent mode): every accepted one is under the fixpoint oracle.
    -> {"results": [eval_parsed result per record], "failures": [...], "exc": ...}"""
    ann = case["scheme"]
    header, col = file_preamble(ann)
    lines = header + [col] + list(case["lines"])
    seen = impl.route_lines(case["route"], lines, case.get("final", True))[len(header) + 1:]
    e = {"results": [], "failures": [], "exc": None}
    try:
        reader = impl.open_reader(case["route"], lines, impl.MODES["Silent"], None, tmp, case.get("final", True))
        recs = list(reader)
        reader.close()
    except Exception as x:  # noqa
        e["exc"] = repr(x)       # reading itself is the concern of C01 / C16
        return e
    for j, (rec, text) in enumerate(zip(recs, seen)):
        r = eval_parsed(ann, rec, text.split("\t"), {"scheme": ann, "file": dict(case), "data_index": j, "text_of_line": text})
        e["results"].append(r)
        e["failures"] += r["failures"]
    return e


def file_cases(ctx, out, per_scheme, n_lines):
    """Accepted lines reaching a record through the readers (list with CRLF terminators, text handle, plain / .gz path
    with LF or CRLF line ends) instead of MafRecord.from_line."""
    import tempfile
    rng = ctx.rng("files")
    with tempfile.TemporaryDirectory() as tmp:
        for ann in impl.builtin_annotations():
            for _ in range(per_scheme):
                lines = ["\t".join(colcases.valid_fields(ann, rng, prefer_nonnull=rng.choice([0.1, 0.7, 0.95]))) for _ in range(n_lines)]
                for route in rng.sample(impl.READER_ROUTES, 3):
                    case = {"scheme": ann, "lines": lines, "route": route, "final": rng.random() < 0.8}
                    e = eval_file(case, tmp)
                    out.evaluations += max(1, len(e["results"]))
                    out.failures += e["failures"]
                    out.distribution["file-route:" + route] += 1
                    for r in e["results"]:
                        out.distribution["file-line:" + r["status"]] += 1
                        if r["status"] == "accepted":
                            out.nontrivial.add((ann, route, r["rendered"]))


def line_cases(ctx, out, per_scheme):
    """Whole accepted lines: str(record) re-parses to an equal record and renders to itself."""
    rng = ctx.rng("lines")
    for ann in impl.builtin_annotations():
        for _ in range(per_scheme):
            fields = colcases.valid_fields(ann, rng)
            line = "\t".join(fields)
            out.evaluations += 1
            e = eval_line(ann, line)
            out.distribution["line:" + e["status"]] += 1
            if e["status"] == "accepted":
                out.nontrivial.add((ann, line))
            out.failures += e["failures"]


MIXIN_BASE = [["Entrez_Gene_Id", "EntrezGeneId"], ["Depth", "NullableZeroBasedIntegerColumn"], ["Note", "NullableStringColumn"],
              ["Flag", "NullableYesOrNo"], ["Alleles", "NullableDnaString"], ["Ids", "SequenceOfIntegers"], ["Score", "NullableFloatColumn"]]
MIXIN_OVER = [["Entrez_Gene_Id", "NullableIntegerColumn"], ["Depth", "RequireNullValue"], ["Note", "StringColumn"], ["Flag", "RequireNullValue"],
              ["Alleles", "DnaString"], ["Score", "RequireNullValue"]]
MIXIN_PRIOR_MAXLEN = 64


def mixin_schemes():
    """The base scheme m-1.0.0 and m-1.0.0-derived, which redefines columns of it with another (nullable) type."""
    import json as _json
    import os
    import tempfile
    from maflib.column_types import get_column_types
    from maflib.scheme_factory import build_schemes, load_all_scheme_data
    defs = [{"version": "m-1.0.0", "annotation-spec": "m-1.0.0", "extends": "None", "filtered": "None", "columns": MIXIN_BASE},
            {"version": "m-1.0.0", "annotation-spec": "m-1.0.0-derived", "extends": "m-1.0.0", "filtered": "None", "columns": MIXIN_OVER}]
    with tempfile.TemporaryDirectory() as d:
        paths = []
        for k, df in enumerate(defs):
            p = os.path.join(d, "m%d.json" % k)
            _json.dump(df, open(p, "w"))
            paths.append(p)
        schemes = build_schemes(load_all_scheme_data(paths, get_column_types()))
    return schemes["m-1.0.0"](), schemes["m-1.0.0-derived"]()


def eval_mixin_text(b, dv, name, t):
    """One text on the base class, the derived class and the base class again (same process).
    -> [(scheme tag, eval_field result), ...]"""
    return [(tag, eval_field(tag, name, t, sch.column_class(name)))
            for sch, tag in ((b, "m-1.0.0"), (dv, "m-1.0.0-derived"), (b, "m-1.0.0"))]


def custom_mixins(ctx, out):
    """Mixin types synthesised by scheme inheritance beyond the built-in ones: a column redefined with another
    (nullable) type.  Base and derived classes are exercised alternately in one process.  A failure carries the
    texts of the same column that were exercised (and accepted by either class) before it: `prior`."""
    rng = ctx.rng("mixins")
    try:
        b, dv = mixin_schemes()
    except Exception as e:  # noqa
        out.notes.append("custom mixin schemes could not be built: %r" % e)
        return
    for name, _t in MIXIN_BASE:
        pool = colcases.pool_for(b.column_class(name), rng)
        prior = []
        for t in pool:
            if any(ch in t for ch in SEPS):
                continue
            accepted = False
            for tag, e in eval_mixin_text(b, dv, name, t):
                out.evaluations += 1
                out.failures += [dict(f, mixin=True, prior=list(prior)) for f in e["failures"]]
                k = e["status"]
                if k == "accepted":
                    accepted = True
                    out.nontrivial.add((tag, name, t))
                out.distribution["mixin:" + k] += 1
            if accepted and len(t) <= MIXIN_PRIOR_MAXLEN:
                prior.append(t)


def eval_float_law(t):
    """FloatHost laws on one text -> (counted, failures)."""
    try:
        f = float(t)
    except ValueError:
        return 0, []
    fails = []
    r = repr(f)
    if f == f and float(r) != f:
        fails.append({"what": "float(repr(f)) != f", "kind": "float-law", "law": "float", "text": t})
    if not r or any(c in r for c in "\t\r\n;"):
        fails.append({"what": "repr(float) contains a separator", "kind": "float-law", "law": "float", "text": t})
    return 1, fails


def eval_int_law(t):
    """law parse_int (used for StringIntegerOrFloatColumn): float() accepts every integer literal -> (counted, failures)."""
    if not t.isascii():
        return 0, []
    try:
        int(t)
    except ValueError:
        return 0, []
    try:
        float(t)
    except (ValueError, OverflowError):
        return 1, [{"what": "float() rejects an integer literal", "kind": "float-law", "law": "int", "text": t}]
    return 1, []


def eval_empty_law():
    try:
        float("")
        return [{"what": "float('') accepted", "kind": "float-law", "law": "empty"}]
    except ValueError:
        return []


def float_laws(ctx, out):
    """The FloatHost assumptions on the graph of this run."""
    rng = ctx.rng("floats")
    from ..textgen import float_texts
    n = 0
    for t in float_texts(rng) + [repr(rng.uniform(-1e9, 1e9)) for _ in range(200)] + [repr(rng.random() * 10 ** rng.randrange(-300, 300)) for _ in range(200)]:
        c, fails = eval_float_law(t)
        n += c
        out.failures += fails
    from ..textgen import int_texts
    for t in int_texts(rng) + [str(rng.randrange(-10**30, 10**30)) for _ in range(100)]:
        c, fails = eval_int_law(t)
        n += c
        out.failures += fails
    out.failures += eval_empty_law()
    out.extra["float_law_checks"] = n


def run(ctx):
    out = Outcome()
    out.rule = ("every accepted spelling of the type-directed pools (aliases by enum member name, case variants, non-canonical numerals, "
                "UUID spellings, list encodings) per distinct column class, plus whole accepted lines per layout: given to MafRecord.from_line bare and with "
                "their terminator (LF, CRLF, CR) still on, and read from files through the reader entry points (lists, text handle, plain/.gz paths, LF/CRLF); non-trivial = accepted by the "
                "implementation (the property only speaks about accepted texts); distinct = distinct (class, text) or (scheme, line)")
    field_cases(ctx, out, ctx.scale(1, 4))
    line_cases(ctx, out, ctx.scale(6, 60))
    terminated_line_cases(ctx, out, ctx.scale(1, 6))
    file_cases(ctx, out, ctx.scale(1, 4), 2)
    custom_mixins(ctx, out)
    float_laws(ctx, out)
    kept_record_cases(ctx, out)
    app_class_cases(ctx, out)
    return out


def search(ctx):
    return run(ctx)


# ------------------------------------------------------------------ replay
def _short(x, n=300):
    import json
    t = x if isinstance(x, str) else json.dumps(x, default=str, ensure_ascii=True)
    return t if len(t) <= n else t[:n] + "... (%d chars)" % len(t)


def _field_account(tag, cls, name, text, e):
    if e["status"] == "rejected":
        return "%s %s.build(%r, %r): not accepted (%s)" % (tag, cls.__name__, name, text, e.get("why"))
    return "%s %s.build(%r, %r): value %s, rendered %r, re-parsed %s, re-rendered %r" % (
        tag, cls.__name__, name, text, _short(e.get("value"), 120), e.get("rendered"),
        _short(e.get("reparsed", "-"), 120), e.get("rerendered", "-"))


def replay_case(ctx, failure):
    """Re-evaluate the stored text / line on the current implementation; the failures it produces now
    ([] = render + parse is a value-preserving fixpoint on it; None = inputs not stored: regenerate from the seed)."""
    f = failure
    if f.get("kind") == "float-law":
        law = f.get("law")
        if law == "empty":
            fails = eval_empty_law()
        elif law in ("float", "int") and "text" in f:
            fails = (eval_float_law if law == "float" else eval_int_law)(f["text"])[1]
        else:
            return None
        print("replay C04 float law (%s) of the host on %r: %d failure(s) (CPython only: no implementation or model involved)"
              % (law, f.get("text", ""), len(fails)))
        return fails
    if "file" in f and "scheme" in f:
        import tempfile
        case = f["file"]
        if not isinstance(case, dict) or any(k not in case for k in ("scheme", "lines", "route")) or \
                impl.scheme_by_annotation(case["scheme"]) is None or case["route"] not in impl.READER_ROUTES:
            return None
        with tempfile.TemporaryDirectory() as tmp:
            e = eval_file(case, tmp)
        print("replay C04 file: %d line(s) accepted under %s read through reader route '%s' (Silent), each record rendered, parsed and rendered again "
              "(implementation only)" % (len(case["lines"]), case["scheme"], case["route"]))
        if e["exc"]:
            print("  implementation: reading failed with %s: outside the property" % e["exc"])
        for j, r in enumerate(e["results"]):
            print("  record %d: %s" % (j, "not accepted (%s)" % _short(r.get("errors")) if r["status"] != "accepted" else
                                       "rendered %s; re-rendered %s" % (_short(repr(r["rendered"]), 200),
                                                                        "identical" if r.get("rerendered") == r["rendered"] else _short(repr(r.get("rerendered", "-")), 200))))
        print("  oracle: %d failure(s)%s" % (len(e["failures"]), "".join("\n    - " + x["what"] for x in e["failures"])))
        return e["failures"]
    if "line" in f and "scheme" in f and f.get("history") == "parsed-lists-edited":
        if impl.scheme_by_annotation(f["scheme"]) is None:
            return None
        e = eval_kept(f["scheme"], f["line"])
        print("replay C04: r = MafRecord.from_line(<line>, scheme=%s, Silent) is kept; other lines of the layout are parsed and the lists those records hand out are edited in place "
              "(value.append(...)); then str(r) is parsed again and compared with the values r was parsed with" % f["scheme"])
        print("  line: %s" % _short(f["line"]))
        print("  oracle: %d failure(s)%s" % (len(e["failures"]), "".join("\n    - %s" % x["what"] for x in e["failures"])))
        return e["failures"]
    if "line" in f and "scheme" in f:
        if impl.scheme_by_annotation(f["scheme"]) is None:
            return None
        e = eval_line(f["scheme"], f["line"])
        print("replay C04 line: str(MafRecord.from_line(<%d fields>, scheme=%s, Silent)), parsed and rendered again (implementation only)"
              % (len(f["line"].split("\t")), f["scheme"]))
        print("  line:        %s" % _short(f["line"]))
        bare = f["line"].rstrip("\r\n")
        if bare != f["line"]:
            print("  (the line is given with its terminator %r still on; last field text %r)" % (f["line"][len(bare):], bare.split("\t")[-1]))
        if e["status"] != "accepted":
            print("  implementation: line not accepted (%s): outside the property" % _short(e.get("errors")))
        else:
            print("  rendered:    %s" % _short(e["rendered"]))
            print("  re-rendered: %s" % ("identical" if e.get("rerendered") == e["rendered"] else _short(e.get("rerendered", "-"))))
        print("  oracle: %d failure(s)%s" % (len(e["failures"]), "".join("\n    - %s%s" % (x["what"], " (column %s, text %r: %s -> %s)" % (
            x["column"], x["text"], _short(x["value"], 100), _short(x["reparsed"], 100)) if x["kind"] == "value-changed" else "") for x in e["failures"])))
        return e["failures"]
    if not all(k in f for k in ("scheme", "column", "text")):
        return None
    if f.get("app_class"):
        cls = dict((c.__name__, c) for c, _t in app_classes()).get(f["app_class"])
        if cls is None:
            return None
        e = eval_field(f["scheme"], f["column"], f["text"], cls)
        print("replay C04: %s.build('col', %r) rendered, parsed and rendered again (%s: %s)" % (f["app_class"], f["text"], f["app_class"], (cls.__doc__ or "an application-defined column class").strip()))
        print("  oracle: %d failure(s)%s" % (len(e["failures"]), "".join("\n    - " + x["what"] for x in e["failures"])))
        return e["failures"]
    ann, name, text = f["scheme"], f["column"], f["text"]
    if ann.startswith("m-1.0.0"):
        # a synthesised mixin type: base / derived / base in one process, after the texts exercised before it
        if "prior" not in f:
            return None
        try:
            b, dv = mixin_schemes()
        except Exception as x:  # noqa
            print("replay C04: custom mixin schemes could not be built: %r" % x)
            return None
        if name not in b.column_names():
            return None
        for t in f["prior"]:
            eval_mixin_text(b, dv, name, t)
        print("replay C04 mixin column %s (%s in m-1.0.0, redefined in m-1.0.0-derived), text %r, after %d earlier text(s) of the same column "
              "on base/derived/base (implementation only)" % (name, b.column_class(name).__name__, text, len(f["prior"])))
        fails = []
        for tag, e in eval_mixin_text(b, dv, name, text):
            print("  " + _field_account(tag, (b if tag == "m-1.0.0" else dv).column_class(name), name, text, e))
            fails += [dict(x, mixin=True, prior=list(f["prior"])) for x in e["failures"]]
        print("  oracle: %d failure(s)%s" % (len(fails), "".join("\n    - %s: %s" % (x["scheme"], x["what"]) for x in fails)))
        return fails
    sch = impl.scheme_by_annotation(ann)
    if sch is None or name not in sch.column_names():
        return None
    cls = sch.column_class(name)
    e = eval_field(ann, name, text, cls)
    print("replay C04 field: render + parse of one field text")
    print("  implementation: " + _field_account(ann, cls, name, text, e))
    if is_model_text(text):
        _u, _d, dis, detail = compare_model(ctx, [colcases.build_req(ann, name, text, 0)])
        for r, m, i in detail[0]:
            col = m.get("col") or {}
            print("  model: build(%r) -> %s (%s)" % (r["text"], _short({"value": col.get("value"), "invalid": col.get("invalid"), "str": col.get("str")} if col else m, 200),
                                                  "outside the model" if has_unmodelled(m) else "agrees" if m == i else "differs"))
    print("  oracle: %d failure(s)%s" % (len(e["failures"]), "".join("\n    - " + x["what"] for x in e["failures"])))
    return e["failures"]

