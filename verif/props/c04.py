"""C04 - rendering a parsed record is a canonical fixpoint that preserves its values."""
from .. import colcases, impl
from ..common import float_table, has_unmodelled, is_model_text
from ..runner import Outcome
from .c01 import zone

LEVEL = "proof"
ASSUMPTIONS = [
    "float()/repr(): FloatHost laws (parse(repr f) = f, repr contains no separator) are assumptions checked on the recorded graph each run",
    "a 'line' carries no embedded CR/LF (framing of such texts is C06/C02/C16's concern); NaN is excluded from 'denotes equal values' (nan != nan in Python)",
]
SEPS = ("\t", "\n", "\r")


def py_eq(a, b):
    """Python == on encoded values (True == 1; floats by repr; everything else structural)."""
    if a == b:
        return True
    ta, tb = a.get("t"), b.get("t")
    if {ta, tb} == {"bool", "int"}:
        x = a if ta == "bool" else b
        y = b if ta == "bool" else a
        return int(y["v"]) == (1 if x["v"] else 0)
    if ta == tb and ta in ("list", "tuple"):
        return len(a["v"]) == len(b["v"]) and all(py_eq(x, y) for x, y in zip(a["v"], b["v"]))
    return False


def preferred_null(cls):
    d = cls.__nullable_dict__()
    if not d:
        return None
    return "" if "" in d else list(d)[0]


def check_field(out, ann, name, text, cls):
    """The fixpoint property on the implementation for one accepted field."""
    where = {"scheme": ann, "column": name, "text": text}
    try:
        c1 = cls.build(name=name, value=text, column_index=0)
    except Exception:  # noqa
        return "rejected"
    if type(c1).__name__ == "MafColumnRecord" and cls.__name__ != "MafColumnRecord":
        return "rejected"
    if c1.validate():
        return "rejected"
    s1 = str(c1)
    if any(ch in s1 for ch in SEPS):
        out.failures.append(dict(where, what="rendered field contains a tab or line break", kind="separator", rendered=s1))
        return "accepted"
    if c1.is_null():
        pn = preferred_null(cls)
        if s1 != pn:
            out.failures.append(dict(where, what="null value is not rendered as the preferred null spelling",
                                     kind="null-spelling", rendered=s1, expected=pn))
    try:
        c2 = cls.build(name=name, value=s1, column_index=0)
        errs = c2.validate()
    except Exception as e:  # noqa
        out.failures.append(dict(where, what="rendering of an accepted field is not accepted", kind="reparse",
                                 rendered=s1, got=repr(e)))
        return "accepted"
    if errs:
        out.failures.append(dict(where, what="rendering of an accepted field is not accepted", kind="reparse",
                                 rendered=s1, got=[e.tpe.name for e in errs]))
        return "accepted"
    v1, v2 = impl.enc_val(c1.value), impl.enc_val(c2.value)
    nan = v1.get("t") == "float" and v1["v"] == "nan"
    if not nan and not py_eq(v1, v2):
        out.failures.append(dict(where, what="value changes across render + parse", kind="value-changed",
                                 rendered=s1, value=v1, reparsed=v2))
    s2 = str(c2)
    if s2 != s1:
        out.failures.append(dict(where, what="rendering is not a fixpoint", kind="not-fixpoint", rendered=s1, rerendered=s2))
    return "accepted"


def field_cases(ctx, out, per_sig_uses):
    rng = ctx.rng("fields")
    sigs = colcases.class_signatures()
    reqs = []
    for sig, uses in sorted(sigs.items()):
        for ann, name in rng.sample(uses, min(per_sig_uses, len(uses))):
            cls = impl.scheme_by_annotation(ann).column_class(name)
            for t in colcases.pool_for(cls, rng):
                if any(ch in t for ch in SEPS):
                    continue
                out.evaluations += 1
                k = check_field(out, ann, name, t, cls)
                out.distribution["field:" + k] += 1
                if k == "accepted":
                    out.nontrivial.add((sig, t))
                    # correspondence: the model renders and re-parses the same way
                    reqs.append((colcases.build_req(ann, name, t, 0), cls))
                    if len(out.samples) < 4 and t:
                        out.sample({"scheme": ann, "column": name, "text": t, "rendered": str(cls.build(name=name, value=t))})
    # model side: build, then build the model's own rendering
    mo = ctx.driver.run([r for r, _ in reqs])
    second = []
    for (r, cls), m in zip(reqs, mo):
        i = impl.run(r)
        if has_unmodelled(m):
            out.unmodelled += 1
            continue
        if m != i:
            if colcases.dontcare_numeric(r["text"]) or colcases.dontcare_uuid(r["text"]):
                out.dontcare += 1
            else:
                out.disagreements.append({"op": "col.build", "request": r, "model": m, "impl": i})
            continue
        s1 = m["col"]["str"].get("ok")
        if s1 is not None and is_model_text(s1):
            second.append(colcases.build_req(r["scheme"], r["col"], s1, 0))
    mo2 = ctx.driver.run(second)
    for r, m in zip(second, mo2):
        i = impl.run(r)
        if not has_unmodelled(m) and m != i and not (colcases.dontcare_numeric(r["text"]) or colcases.dontcare_uuid(r["text"])):
            out.disagreements.append({"op": "col.build(rendered)", "request": r, "model": m, "impl": i})


def line_cases(ctx, out, per_scheme):
    """Whole accepted lines: str(record) re-parses to an equal record and renders to itself."""
    from maflib.record import MafRecord
    from maflib.validation import ValidationStringency
    rng = ctx.rng("lines")
    for ann in impl.builtin_annotations():
        sch = impl.scheme_by_annotation(ann)
        for _ in range(per_scheme):
            fields = colcases.valid_fields(ann, rng)
            line = "\t".join(fields)
            out.evaluations += 1
            r1 = MafRecord.from_line(line, scheme=sch, validation_stringency=ValidationStringency.Silent)
            if r1.validation_errors:
                out.distribution["line:not-accepted"] += 1
                continue
            out.distribution["line:accepted"] += 1
            out.nontrivial.add((ann, line))
            s1 = str(r1)
            where = {"scheme": ann, "line": line}
            if len(s1.split("\t")) != len(fields) or "\n" in s1 or "\r" in s1:
                out.failures.append(dict(where, what="rendered line has a different field count or a line break",
                                         kind="separator", rendered=s1))
                continue
            r2 = MafRecord.from_line(s1, scheme=sch, validation_stringency=ValidationStringency.Silent)
            if r2.validation_errors:
                out.failures.append(dict(where, what="rendered line is not accepted", kind="reparse", rendered=s1,
                                         got=[e.tpe.name for e in r2.validation_errors]))
                continue
            v1 = [impl.enc_val(v) for v in r1.column_values()]
            v2 = [impl.enc_val(v) for v in r2.column_values()]
            for k, (a, b) in enumerate(zip(v1, v2)):
                if not py_eq(a, b) and not (a.get("t") == "float" and a["v"] == "nan"):
                    out.failures.append(dict(where, what="value changes across render + parse", kind="value-changed",
                                             column=sch.column_names()[k], text=fields[k], value=a, reparsed=b))
                    break
            if str(r2) != s1:
                out.failures.append(dict(where, what="rendering is not a fixpoint", kind="not-fixpoint",
                                         rendered=s1, rerendered=str(r2)))


def custom_mixins(ctx, out):
    """Mixin types synthesised by scheme inheritance beyond the built-in ones: a column redefined with another
    (nullable) type.  Base and derived classes are exercised alternately in one process."""
    import json as _json
    import os
    import tempfile
    from maflib.column_types import get_column_types
    from maflib.scheme_factory import build_schemes, load_all_scheme_data
    rng = ctx.rng("mixins")
    base_cols = [["Entrez_Gene_Id", "EntrezGeneId"], ["Depth", "NullableZeroBasedIntegerColumn"], ["Note", "NullableStringColumn"],
                 ["Flag", "NullableYesOrNo"], ["Alleles", "NullableDnaString"], ["Ids", "SequenceOfIntegers"], ["Score", "NullableFloatColumn"]]
    over = [["Entrez_Gene_Id", "NullableIntegerColumn"], ["Depth", "RequireNullValue"], ["Note", "StringColumn"], ["Flag", "RequireNullValue"],
            ["Alleles", "DnaString"], ["Score", "RequireNullValue"]]
    defs = [{"version": "m-1.0.0", "annotation-spec": "m-1.0.0", "extends": "None", "filtered": "None", "columns": base_cols},
            {"version": "m-1.0.0", "annotation-spec": "m-1.0.0-derived", "extends": "m-1.0.0", "filtered": "None", "columns": over}]
    with tempfile.TemporaryDirectory() as d:
        paths = []
        for k, df in enumerate(defs):
            p = os.path.join(d, "m%d.json" % k)
            _json.dump(df, open(p, "w"))
            paths.append(p)
        try:
            schemes = build_schemes(load_all_scheme_data(paths, get_column_types()))
        except Exception as e:  # noqa
            out.notes.append("custom mixin schemes could not be built: %r" % e)
            return
    b, dv = schemes["m-1.0.0"](), schemes["m-1.0.0-derived"]()
    for name, _t in base_cols:
        pool = colcases.pool_for(b.column_class(name), rng)
        for t in pool:
            if any(ch in t for ch in SEPS):
                continue
            for sch, tag in ((b, "m-1.0.0"), (dv, "m-1.0.0-derived"), (b, "m-1.0.0")):
                out.evaluations += 1
                k = check_field(out, tag, name, t, sch.column_class(name))
                if k == "accepted":
                    out.nontrivial.add((tag, name, t))
                out.distribution["mixin:" + k] += 1


def float_laws(ctx, out):
    """The FloatHost assumptions on the graph of this run."""
    rng = ctx.rng("floats")
    from ..textgen import float_texts
    n = 0
    for t in float_texts(rng) + [repr(rng.uniform(-1e9, 1e9)) for _ in range(200)] + [repr(rng.random() * 10 ** rng.randrange(-300, 300)) for _ in range(200)]:
        try:
            f = float(t)
        except ValueError:
            continue
        n += 1
        r = repr(f)
        if f == f and float(r) != f:
            out.failures.append({"what": "float(repr(f)) != f", "kind": "float-law", "text": t})
        if not r or any(c in r for c in "\t\r\n;"):
            out.failures.append({"what": "repr(float) contains a separator", "kind": "float-law", "text": t})
    # law parse_int (used for StringIntegerOrFloatColumn): float() accepts every integer literal
    from ..textgen import int_texts
    for t in int_texts(rng) + [str(rng.randrange(-10**30, 10**30)) for _ in range(100)]:
        if not t.isascii():
            continue
        try:
            int(t)
        except ValueError:
            continue
        n += 1
        try:
            float(t)
        except (ValueError, OverflowError):
            out.failures.append({"what": "float() rejects an integer literal", "kind": "float-law", "text": t})
    try:
        float("")
        out.failures.append({"what": "float('') accepted", "kind": "float-law"})
    except ValueError:
        pass
    out.extra["float_law_checks"] = n


def run(ctx):
    out = Outcome()
    out.rule = ("every accepted spelling of the type-directed pools (aliases by enum member name, case variants, non-canonical numerals, "
                "UUID spellings, list encodings) per distinct column class, plus whole accepted lines per layout; non-trivial = accepted by the "
                "implementation (the property only speaks about accepted texts); distinct = distinct (class, text) or (scheme, line)")
    field_cases(ctx, out, ctx.scale(1, 4))
    line_cases(ctx, out, ctx.scale(6, 60))
    custom_mixins(ctx, out)
    float_laws(ctx, out)
    return out


def search(ctx):
    return run(ctx)

