"""C19 - reading, unsorted writing and overlap iteration are incremental."""
import os
import tempfile

import functools

from .. import filecases, impl, sortcases as SC
from ..common import exc_name
from ..runner import Outcome
from . import c11, c16
from .c08 import expected_cmp

LEVEL = "proof"
ASSUMPTIONS = ["buffering below the handle's write() call (OS / gzip) is not observed: 'emitted' means write() was called on the handle",
               "spilled records are counted by decoding the spill files in the sorter's temp directory",
               "path-based readers: 'pulled' counts the lines requested from the text handle that open() / gzip.open() returned to maflib.reader "
               "(iteration, readline, or everything a read() / readlines() returned); buffering below that handle (TextIOWrapper, gzip, OS) is not observed",
               "allele-aware overlap iteration hands out a positional overlap set in several sub-groups: its bound counts, per input, the records of the "
               "overlap sets up to the one a sub-group has been handed out from (plus the one look-ahead)"]
PENDING_DEFECTS = []


class CountingIter:
    def __init__(self, items):
        self.items = list(items)
        self.pulled = 0

    def __iter__(self):
        return self

    def __next__(self):
        if self.pulled >= len(self.items):
            self.pulled_past_end = True
            raise StopIteration
        x = self.items[self.pulled]
        self.pulled += 1
        return x


class CountingIterable:
    """An iterable that is not its own iterator (what a list is to the reader): iter() gives a counting iterator."""

    def __init__(self, items):
        self.it = CountingIter(items)

    def __iter__(self):
        return self.it

    @property
    def pulled(self):
        return self.it.pulled


class CountingHandle:
    """The text handle the reader module gets from open() / gzip.open(), counting the lines it is asked for."""

    def __init__(self, h):
        self.h = h
        self.pulled = 0

    def __iter__(self):
        return self

    def __next__(self):
        line = next(self.h)
        self.pulled += 1
        return line

    def readline(self, *a):
        line = self.h.readline(*a)
        if line:
            self.pulled += 1
        return line

    def read(self, *a):
        t = self.h.read(*a)
        self.pulled += len(filecases.physical_lines(t))
        return t

    def readlines(self, *a):
        ls = self.h.readlines(*a)
        self.pulled += len(ls)
        return ls

    def close(self):
        self.h.close()

    def __enter__(self):
        return self

    def __exit__(self, *a):
        self.close()

    def __getattr__(self, n):
        return getattr(self.h, n)


class CountingOpen:
    """While active, maflib.reader's open() and gzip.open() hand out CountingHandles (kept in self.handles)."""

    def __enter__(self):
        import builtins
        import gzip
        import maflib.reader as R
        self.R, self.handles = R, []
        outer = self

        class GzipProxy:
            def open(self, *a, **kw):
                h = CountingHandle(gzip.open(*a, **kw))
                outer.handles.append(h)
                return h

            def __getattr__(self, n):
                return getattr(gzip, n)

        def counting_open(*a, **kw):
            h = CountingHandle(builtins.open(*a, **kw))
            outer.handles.append(h)
            return h
        self.saved_gzip = R.gzip
        R.gzip = GzipProxy()
        R.open = counting_open
        return self

    def __exit__(self, *a):
        self.R.gzip = self.saved_gzip
        del self.R.open


READER_SOURCES = ["iter", "iterable", "path", "gz"]


# ---- one eval_* per kind of case, shared by the *_cases generators and replay_case; each returns (info, failures)
def eval_reader(lines, via="iter", consume="next", mode=None, text=None, given=None, given_norestrict=None):
    """A reader over an instrumented line source: how many lines it has pulled after construction and after every record.

    `via`: "iter" / "iterable" = MafReader(lines=<counting iterator / iterable over `lines`>), "path" / "gz" =
    MafReader.reader_from(<plain / gzip file holding `text`>) with the handle instrumented (the lines are then the physical
    lines of the text); `consume` (filecases.CONSUME_STYLES): "next" / "method" = next(reader) / reader.next(), "for" / "iter" / "iter-method" = next() /
    .next() on iter(reader), which is what a for loop does; `mode` a stringency name or None; a scheme may be given.
    info["completed"] is False when the reader could not be constructed or was already too eager when constructed."""
    import shutil
    import tempfile
    from maflib.reader import MafReader
    info = {"completed": False, "init_exc": None, "pulled_after_init": None, "steps": [], "exc": None, "observed": True}
    req = {"mode": mode, "given": given, "given_norestrict": given_norestrict}
    scheme = filecases.given_scheme(req)
    on_disk = via in ("path", "gz")
    if on_disk:
        lines = filecases.physical_lines(text)
    how = {"via": via, "consume": consume, "mode": mode}
    how.update({k: v for k, v in (("text", text if on_disk else None), ("given", given), ("given_norestrict", given_norestrict)) if v is not None})
    tmp = tempfile.mkdtemp(prefix="verif_c19_") if on_disk else None
    rd = None
    try:
        try:
            if on_disk:
                with CountingOpen() as co:
                    rd = MafReader.reader_from(filecases.write_file(tmp, text, via == "gz"), validation_stringency=impl.MODES[mode], scheme=scheme)
                if len(co.handles) != 1:
                    info["observed"] = False          # the file was not opened through open() / gzip.open(): nothing to count
                    return info, []
                src = co.handles[0]
            else:
                src = CountingIter(lines) if via == "iter" else CountingIterable(lines)
                rd = MafReader(lines=src, validation_stringency=impl.MODES[mode], scheme=scheme)
        except Exception as e:  # noqa
            info["init_exc"] = exc_name(e)
            return info, []
        k = 0
        stripped = [l.rstrip("\r\n") for l in lines]
        while k < len(stripped) and stripped[k].startswith("#"):
            k += 1
        info["header_lines"] = k
        info["pulled_after_init"] = src.pulled
        where = dict({"lines": [l[:40] for l in lines], "header_lines": k, "input_lines": list(lines)}, **how)
        # after construction: header lines, the column line and one look-ahead
        if src.pulled > k + 2:
            return info, [dict(where, what="constructing the reader pulled %d lines (header %d + column line + 1 look-ahead allowed)" % (src.pulled, k),
                               kind="reader-eager")]
        failures = []
        returned = 0
        it = rd if consume in filecases.UNCHECKED_STYLES else iter(rd)
        step = it.next if consume in ("method", "iter-method") else (lambda: next(it))
        try:
            while True:
                step()
                returned += 1
                bound = (k + 1) + returned + 1
                info["steps"].append((returned, src.pulled, bound))
                if src.pulled > bound:
                    failures.append(dict(where, what="after returning record %d the reader had pulled %d lines (> %d)" % (returned, src.pulled, bound),
                                         kind="reader-eager"))
                    break
        except StopIteration:
            pass
        except Exception as e:  # noqa   (format exception in Strict mode, ordering error: the reading ends there)
            info["exc"] = exc_name(e)
        info["completed"] = True
        return info, failures
    finally:
        try:
            if rd is not None:
                rd.close()
        except Exception:  # noqa
            pass
        if tmp:
            shutil.rmtree(tmp, ignore_errors=True)


def eval_writer(typed, header, nrec):
    """An unsorted writer (assume_sorted default) over a recording handle: each record's line is there when += returns.
    Record j is the fixed record at T/N, chromosome 1, position 10 + j (typed: parsed under gdc-1.0.0; else scheme-less)."""
    from maflib.header import MafHeader
    from maflib.validation import ValidationStringency as VS
    from maflib.writer import MafWriter
    failures = []
    info = {"steps": []}
    buf = impl.RecordingHandle()
    w = MafWriter.from_fd(buf, MafHeader.from_lines(header, validation_stringency=VS.Silent), validation_stringency=VS.Silent)   # assume_sorted default
    for j in range(nrec):
        rec = SC.typed_record(None, "T", "N", "1", 10 + j, 10 + j) if typed else SC.untyped_record("T", "N", "1", str(10 + j), str(10 + j))
        before = buf.text()
        w += rec
        after = buf.text()
        new = after[len(before):]
        info["steps"].append((j, len(new), new.endswith(str(rec) + "\n")))
        if not new.endswith(str(rec) + "\n"):
            failures.append({"what": "an unsorted writer had not emitted the record's line when write() returned", "kind": "writer-deferred",
                             "header": header, "record_index": j, "emitted": new[-120:], "typed": typed, "records": nrec})
            break
    w.close()
    info["total_written"] = len(buf.text())
    return info, failures


class RecordingOpen:
    """While active, maflib.writer's open() and gzip.open() hand out handles that record the text passed to write()
    (and forward it): what a writer opened by MafWriter.from_path has emitted at any moment."""

    def __enter__(self):
        import builtins
        import gzip
        import maflib.writer as W
        self.W, self.written = W, []
        outer = self

        class Recording:
            def __init__(self, h):
                self._h = h

            def write(self, text):
                outer.written.append(text)
                return self._h.write(text)

            def __getattr__(self, n):
                return getattr(self._h, n)

        class GzipProxy:
            def open(self, *a, **kw):
                return Recording(gzip.open(*a, **kw))

            def __getattr__(self, n):
                return getattr(gzip, n)
        self.saved_gzip = W.gzip
        W.gzip = GzipProxy()
        W.open = lambda *a, **kw: Recording(builtins.open(*a, **kw))
        return self

    def text(self):
        return "".join(self.written)

    def __exit__(self, *a):
        self.W.gzip = self.saved_gzip
        del self.W.open


def eval_writer_path(typed, header, nrec, gz):
    """The same through MafWriter.from_path (plain or .gz): the handle is the one from_path opens."""
    from maflib.header import MafHeader
    from maflib.validation import ValidationStringency as VS
    from maflib.writer import MafWriter
    failures = []
    info = {"steps": []}
    with tempfile.TemporaryDirectory() as tmp, RecordingOpen() as ro:
        w = MafWriter.from_path(os.path.join(tmp, "out.maf" + (".gz" if gz else "")), MafHeader.from_lines(header, validation_stringency=VS.Silent),
                                validation_stringency=VS.Silent)
        for j in range(nrec):
            rec = SC.typed_record(None, "T", "N", "1", 10 + j, 10 + j) if typed else SC.untyped_record("T", "N", "1", str(10 + j), str(10 + j))
            before = ro.text()
            w += rec
            new = ro.text()[len(before):]
            info["steps"].append((j, len(new), new.endswith(str(rec) + "\n")))
            if not new.endswith(str(rec) + "\n"):
                failures.append({"what": "an unsorted writer opened by from_path(%s) had not passed the record's line to its handle when write() returned" % ("*.gz" if gz else "plain path"),
                                 "kind": "writer-deferred-path", "header": header, "record_index": j, "emitted": new[-120:], "typed": typed, "records": nrec, "gz": gz})
                break
        w.close()
    return info, failures


def eval_writer_textlayer(typed, header, nrec, encoding, via):
    """An unsorted writer given a real text layer over a binary stream (io.TextIOWrapper, what open(path, "w",
    encoding=...) and sys.stdout are), whatever its declared encoding: once write() has returned and the caller has
    flushed ITS handle, the record's line is in the binary stream - the writer keeps no text of its own back."""
    import io
    from maflib.header import MafHeader
    from maflib.validation import ValidationStringency as VS
    from maflib.writer import MafWriter
    failures = []
    info = {"steps": []}
    raw = io.BytesIO()
    handle = io.TextIOWrapper(raw, encoding=encoding, newline="")
    h = MafHeader.from_lines(header, validation_stringency=VS.Silent)
    w = MafWriter(handle, h, validation_stringency=VS.Silent) if via == "ctor" else MafWriter.from_fd(handle, h, validation_stringency=VS.Silent)
    for j in range(nrec):
        rec = SC.typed_record(None, "T", "N", "1", 10 + j, 10 + j) if typed else SC.untyped_record("T", "N", "1", str(10 + j), str(10 + j))
        w += rec
        handle.flush()
        got = raw.getvalue().decode(encoding)
        ok = got.endswith(str(rec) + "\n")
        info["steps"].append((j, len(got), ok))
        if not ok:
            failures.append({"what": "an unsorted writer on a text layer over a binary stream (encoding %s, %s): after write() returned and the caller flushed its handle, "
                                     "the record's line is not in the stream" % (encoding, "MafWriter(...)" if via == "ctor" else "from_fd"),
                             "kind": "writer-deferred-textlayer", "header": header, "record_index": j, "emitted": got[-120:], "typed": typed, "records": nrec,
                             "encoding": encoding, "via": via})
            break
    try:
        w.close()
    except Exception:  # noqa
        pass
    return info, failures


def fasta_index_file(tmp, contigs):
    import os
    fai = os.path.join(tmp, "ref.fa.fai")
    with open(fai, "w") as h:
        h.write("".join("%s\t1000\t%d\t60\t61\n" % (c, 10 + 2000 * j) for j, c in enumerate(contigs)))
    return fai


def eval_overlap(n_inputs, contigs, by_barcodes, items, fasta=False, peek=None):
    """Overlap iteration over instrumented inputs (a configuration of C11): pulls per input against records emitted.
    `fasta`: the contig order is given by a FASTA index file instead of a list."""
    import shutil
    import tempfile
    from maflib.overlap_iter import LocatableOverlapIterator
    inputs = c11.build_inputs(n_inputs, contigs, by_barcodes, items)
    srcs = [CountingIter(inp) for inp in inputs]
    config = {"n_inputs": n_inputs, "contigs": contigs, "by_barcodes": by_barcodes, "items": [list(x) for x in items]}
    if fasta and contigs:
        config["fasta_index"] = True
    kw = {}
    if peek:
        # the look-ahead class given through the extension point, in the forms a caller may hold it: the class itself, a
        # sub-class, functools.partial of it, a lambda around it
        import functools
        from maflib.util import PeekableIterator

        class MyPeekable(PeekableIterator):
            pass
        kw["peekable_iterator_class"] = {"class": PeekableIterator, "subclass": MyPeekable, "partial": functools.partial(PeekableIterator),
                                         "lambda": (lambda it: PeekableIterator(it))}[peek]
        config["peekable_iterator_class"] = peek
    info = {"inputs": inputs, "steps": 0, "pulled": None, "emitted": None, "exc": None}
    failures = []
    tmp = tempfile.mkdtemp(prefix="verif_c19_") if (fasta and contigs) else None
    try:
        it = (LocatableOverlapIterator(srcs, fasta_index=fasta_index_file(tmp, contigs), by_barcodes=by_barcodes, **kw) if tmp else
              LocatableOverlapIterator(srcs, contigs=contigs, by_barcodes=by_barcodes, **kw))
        emitted = [0] * len(inputs)
        bad = None
        if any(s.pulled > 1 for s in srcs):
            bad = "construction pulled more than one record from an input"
        info["pulled_after_init"] = [s.pulled for s in srcs]
        steps = 0
        for g in it:
            steps += 1
            for i, slot in enumerate(g):
                emitted[i] += len(slot)
            for i, s in enumerate(srcs):
                if s.pulled > emitted[i] + 1:
                    bad = "after group %d input %d had been pulled %d times for %d emitted records" % (steps, i, s.pulled, emitted[i])
            if bad or steps > 100:
                break
        info["steps"], info["pulled"], info["emitted"] = steps, [s.pulled for s in srcs], emitted
        if bad:
            failures.append({"what": "overlap iteration is not incremental: " + bad, "kind": "overlap-eager",
                             "inputs": [[repr(x) for x in inp] for inp in inputs], "config": config})
    except Exception as e:  # noqa
        info["exc"] = exc_name(e)
        failures.append({"what": "overlap iteration failed: %s" % exc_name(e), "kind": "exception", "config": config})
    finally:
        if tmp:
            shutil.rmtree(tmp, ignore_errors=True)
    return info, failures


def eval_overlap_unkeyable(layout, by_barcodes):
    """Inputs of scheme-less MafRecords some of which cannot be keyed (position text that is not a number): whatever the
    library does with them (at present it fails with KeyError when it meets one), the pulls per input stay within one
    record of what has been emitted - at construction and after every group.  `layout`: per input, a list of start
    positions (int) or None for an unkeyable record."""
    from maflib.overlap_iter import LocatableOverlapIterator
    inputs = [[SC.untyped_record("T", "N", "1", str(p) if p is not None else "n/a", str(p + 1) if p is not None else "n/a") for p in inp] for inp in layout]
    srcs = [CountingIter(inp) for inp in inputs]
    where = {"kind": "overlap-eager-unkeyable", "layout": layout, "by_barcodes": by_barcodes}
    info = {"exc": None, "pulled": None, "emitted": None}
    emitted = [0] * len(inputs)
    bad = None
    try:
        it = LocatableOverlapIterator(srcs, by_barcodes=by_barcodes)
        if any(s.pulled > 1 for s in srcs):
            bad = "construction pulled %s records from the inputs" % [s.pulled for s in srcs]
        steps = 0
        while bad is None and steps < 50:
            try:
                g = next(it)
            except StopIteration:
                break
            steps += 1
            for i, slot in enumerate(g):
                emitted[i] += len(slot)
            for i, sc in enumerate(srcs):
                if sc.pulled > emitted[i] + 1:
                    bad = "after group %d input %d had been pulled %d times for %d emitted records" % (steps, i, sc.pulled, emitted[i])
    except Exception as e:  # noqa: how the library treats a record it cannot key is not this property's subject; and a
        # group that was being assembled when iteration stopped has been pulled but not emitted: nothing to judge then
        info["exc"] = exc_name(e)
    info["pulled"], info["emitted"] = [sc.pulled for sc in srcs], emitted
    return info, ([dict(where, what="overlap iteration is not incremental on inputs with records that cannot be keyed: " + bad)] if bad else [])


def overlap_unkeyable_cases(ctx, out, rng):
    for _ in range(ctx.scale(40, 300)):
        n_inputs = rng.choice([1, 2, 2, 3])
        layout = []
        for _i in range(n_inputs):
            pos = sorted(rng.randrange(1, 30) for _k in range(rng.randrange(0, 6)))
            row = []
            for p in pos:
                while rng.random() < 0.3:
                    row.append(None)
                row.append(p)
            while rng.random() < 0.3:
                row.append(None)
            layout.append(row)
        out.evaluations += 1
        info, fails = eval_overlap_unkeyable(layout, rng.random() < 0.5)
        out.failures += fails
        out.distribution["overlap inputs with unkeyable records: %s" % (info["exc"] or "iterated to the end")] += 1
        out.nontrivial.add(("unkeyable", repr(layout)))


RELS = ["Equality", "Intersects", "Subset"]
ALTS = [[], ["C"], ["G"], ["C", "G"], ["G", "C"], ["C", "G", "T"], ["T"]]


def alleles_by(aseed):
    """Reference / alternate alleles of record `rid`, fixed by the seed of the case."""
    def alleles(rid):
        import random
        r = random.Random(aseed * 1000 + rid)
        return r.choice(["A", "A", "AT"]), tuple(r.choice(ALTS))
    return alleles


def overlap_sets(inputs, contigs, by_barcodes):
    """The positional overlap sets of the inputs (connected components of the overlap graph) in the order in which they
    are due (documented order of their smallest member), each as {record id: input index}."""
    order = "BarcodesAndCoordinate" if by_barcodes else "Coordinate"
    byid = {x.rid: (x, k) for k, inp in enumerate(inputs) for x in inp}
    cmp_rec = functools.cmp_to_key(lambda a, b: expected_cmp(c11.loc_of(a), c11.loc_of(b), order, contigs or []))
    firsts = [(min((byid[r][0] for r in comp), key=cmp_rec), comp) for comp in c11.components(inputs, by_barcodes)]
    firsts.sort(key=lambda p: cmp_rec(p[0]))
    return [{r: byid[r][1] for r in comp} for _m, comp in firsts]


def eval_allele(n_inputs, contigs, by_barcodes, items, rel, aseed, fasta=False):
    """Allele-aware overlap iteration (relation `rel`) over instrumented inputs: after every sub-group handed out, input i
    has been pulled at most (its records in the overlap sets up to the one the sub-group comes from) + 1 times.
    `fasta`: the contig order is given by a FASTA index file instead of a list."""
    import shutil
    import tempfile
    from maflib.overlap_iter import AlleleOverlapType, LocatableByAlleleOverlapIterator
    inputs = c11.build_inputs(n_inputs, contigs, by_barcodes, items, alleles=alleles_by(aseed))
    srcs = [CountingIter(inp) for inp in inputs]
    config = {"n_inputs": n_inputs, "contigs": contigs, "by_barcodes": by_barcodes, "items": [list(x) for x in items],
              "relation": rel, "allele_seed": aseed, "fasta_index": bool(fasta and contigs)}
    info = {"inputs": inputs, "steps": [], "pulled": None, "exc": None}
    failures = []
    sets = overlap_sets(inputs, contigs, by_barcodes)
    where = {rid: p for p, comp in enumerate(sets) for rid in comp}
    cum = []                                  # cum[p][i]: records of input i in the overlap sets 0..p
    tot = [0] * len(inputs)
    for comp in sets:
        for rid, k in comp.items():
            tot[k] += 1
        cum.append(list(tot))
    tmp = tempfile.mkdtemp(prefix="verif_c19_") if (fasta and contigs) else None
    try:
        kw = {"fasta_index": fasta_index_file(tmp, contigs)} if tmp else {"contigs": contigs}
        it = LocatableByAlleleOverlapIterator(srcs, by_barcodes=by_barcodes, overlap_type=AlleleOverlapType[rel], **kw)
        bad = None
        if any(s.pulled > 1 for s in srcs):
            bad = "construction pulled more than one record from an input"
        info["pulled_after_init"] = [s.pulled for s in srcs]
        steps = 0
        for g in it:
            steps += 1
            ids = [r.rid for slot in g for r in slot]
            if not ids:
                break
            p = max(where[r] for r in (([r.rid for r in g[0]]) or ids))
            allowed = [c + 1 for c in cum[p]]
            info["steps"].append((steps, [[r.rid for r in slot] for slot in g], [s.pulled for s in srcs], allowed))
            for i, s in enumerate(srcs):
                if s.pulled > allowed[i]:
                    bad = bad or ("after sub-group %d (overlap set %d of %d) input %d had been pulled %d times; its records in the overlap sets so far: %d (+ 1 look-ahead allowed)" % (
                        steps, p + 1, len(sets), i, s.pulled, cum[p][i]))
            if bad or steps > 300:
                break
        info["pulled"] = [s.pulled for s in srcs]
        if bad:
            failures.append({"what": "allele-aware overlap iteration is not incremental: " + bad, "kind": "allele-eager",
                             "inputs": [["%r ref=%s alts=%s" % (x, x.ref, x.alts) for x in inp] for inp in inputs], "config": config})
    except Exception as e:  # noqa
        info["exc"] = exc_name(e)
        failures.append({"what": "allele-aware overlap iteration failed: %s" % exc_name(e), "kind": "allele-exception", "config": config})
    finally:
        if tmp:
            shutil.rmtree(tmp, ignore_errors=True)
    return info, failures


def eval_sorter(cap, sp, next_key, count):
    """A sorter of capacity `cap` fed `count` items whose keys come from next_key(): records on disk after every add.
    Stops at the first add after which too many records are still in memory (no further key is drawn)."""
    from maflib.sorter import Sorter
    from .c07 import JsonCodec
    info = {"adds": 0, "keys": [], "spilled": []}
    failures = []
    with tempfile.TemporaryDirectory() as tmp:
        s = Sorter(cap, JsonCodec(), lambda x: x[0], tmp_dir=tmp, always_spill=sp)
        for k in range(count):
            info["adds"] += 1
            key = next_key()
            info["keys"].append(key)
            s += (key, k)
            added = k + 1
            spilled = spilled_count(tmp)
            info["spilled"].append(spilled)
            if added - spilled >= cap or added - spilled < 0:
                failures.append({"what": "after %d adds with capacity %d only %d records are on disk (%d still in memory, must be < %d)" % (
                    added, cap, spilled, added - spilled, cap), "kind": "sorter-not-spilling", "capacity": cap, "always_spill": sp,
                    "keys": list(info["keys"])})
                break
        s.close()
    return info, failures


def reader_cases(ctx, out, rng):
    for _ in range(ctx.scale(200, 2500)):
        ann = rng.choice([None, "gdc-1.0.0"])
        lines = filecases.whole_file(rng, ann, sort=None, n_data=rng.randrange(0, 7), col=rng.random() < 0.95)
        out.evaluations += 1
        info, failures = eval_reader(lines)
        out.failures += failures
        if info["completed"]:
            out.nontrivial.add(("reader", repr(lines)))
    out.distribution["reader"] += 1


GIVEN_NAMES = [["c1", "c2", "c3", "c4"], ["a", "b", "c", "d"]]


def reader_factory_cases(ctx, out, rng):
    """Every line source (iterator, iterable, plain file, gzip file) x consumption style (next(reader), for / iter) x declared
    order (none, Unsorted, Unknown, Coordinate, BarcodesAndCoordinate, with / without contig list) x stringency x scheme given or not."""
    for _ in range(ctx.scale(300, 3000)):
        k = rng.random()
        if k < 0.5:
            lines = c16.gen_ordered_file(rng)            # declares a sortable order over a body that (mostly) follows it
            if rng.random() < 0.3:
                lines = [l for l in lines if not l.startswith("#sort.order")]
                lines.insert(1, "#sort.order " + rng.choice(["Unsorted", "Unknown"]))
        else:
            ann = rng.choice([None, "gdc-1.0.0"])
            lines = filecases.whole_file(rng, ann, sort=rng.choice([None, "Coordinate", "BarcodesAndCoordinate", "Unsorted", "Unknown"]),
                                         contigs=rng.choice([None, None, ["1", "2", "10", "X"]]), n_data=rng.randrange(0, 7), col=rng.random() < 0.95)
            if rng.random() < 0.3:
                lines = filecases.with_empty_lines(rng, lines)
        via = rng.choice(READER_SOURCES)
        kw = {"via": via, "consume": rng.choice(["next", "for", "for", "iter", "method", "iter-method"]), "mode": rng.choice([None, "Silent", "Silent", "Lenient", "Strict"])}
        if via in ("path", "gz"):
            kw["text"] = filecases.text_of(rng, lines)
            if not filecases.encodable(kw["text"]):
                continue
        g = rng.random()
        if g < 0.08:
            kw["given"] = "gdc-1.0.0"
        elif g < 0.16:
            kw["given_norestrict"] = rng.choice(GIVEN_NAMES)
        out.evaluations += 1
        info, failures = eval_reader(lines, **kw)
        out.failures += failures
        if not info["observed"]:
            out.distribution["reader:handle-not-observed"] += 1
        if info["completed"]:
            out.nontrivial.add(("reader", repr(lines), repr(sorted((k, v) for k, v in kw.items() if k != "text"))))
            out.distribution["reader:%s/%s" % (via, "next(reader)" if kw["consume"] in filecases.UNCHECKED_STYLES else "iter(reader)")] += 1
            if len(info["steps"]) >= 3 and c16.declared(lines)["order"]:
                out.distribution["reader:sortable order, >= 3 records returned"] += 1


def allele_cases(ctx, out, rng):
    """The allele-aware iterator: C11's configurations x every AlleleOverlapType x by_barcodes, contig order by list or FASTA index."""
    for _ in range(ctx.scale(300, 3000)):
        n_inputs, contigs, by_barcodes, items = c11.gen_config(rng, 7)
        rel = rng.choice(RELS)
        out.evaluations += 1
        info, failures = eval_allele(n_inputs, contigs, by_barcodes, items, rel, rng.randrange(10**6), fasta=rng.random() < 0.25)
        out.failures += failures
        out.nontrivial.add(("allele", repr(info["inputs"]), rel, by_barcodes))
        out.distribution["allele:%s/%s" % (rel, "by_barcodes" if by_barcodes else "by_coordinate")] += 1
        if contigs and rng.random() < 0.5:         # the plain iterator with the contig order read from a FASTA index
            out.evaluations += 1
            info, failures = eval_overlap(n_inputs, contigs, by_barcodes, items, fasta=True)
            out.failures += failures
            out.nontrivial.add(("overlap-fasta", repr(info["inputs"])))
            out.distribution["overlap:fasta_index"] += 1


def writer_cases(ctx, out, rng):
    for _ in range(ctx.scale(60, 600)):
        typed = rng.random() < 0.5
        header = ["#version gdc-1.0.0"] + ([] if typed else ["#annotation.spec lab"]) + rng.choice([[], ["#sort.order Coordinate"], ["#sort.order Unsorted"]])
        out.evaluations += 1
        _info, failures = eval_writer(typed, header, rng.randrange(1, 6))
        out.failures += failures
        out.nontrivial.add(("writer", tuple(header), typed))
    for gz in (False, True):
        for typed in (False, True):
            for extra in ([], ["#sort.order Coordinate"]):
                header = ["#version gdc-1.0.0"] + ([] if typed else ["#annotation.spec lab"]) + extra
                out.evaluations += 1
                _info, failures = eval_writer_path(typed, header, 3, gz)
                out.failures += failures
                out.nontrivial.add(("writer-path", tuple(header), typed, gz))
                out.distribution["writer opened by from_path(%s)" % ("*.gz" if gz else "plain")] += 1
    for encoding in ("utf-8", "ascii", "latin-1", "cp1252", "utf-16"):
        for via in ("ctor", "from_fd"):
            typed = rng.random() < 0.5
            header = ["#version gdc-1.0.0"] + ([] if typed else ["#annotation.spec lab"])
            out.evaluations += 1
            _info, failures = eval_writer_textlayer(typed, header, 3, encoding, via)
            out.failures += failures
            out.nontrivial.add(("writer-textlayer", encoding, via, typed))
            out.distribution["writer on a text layer over a binary stream"] += 1


def overlap_cases(ctx, out, rng):
    for _ in range(ctx.scale(200, 2500)):
        n_inputs, contigs, by_barcodes, items = c11.gen_config(rng, 7)
        out.evaluations += 1
        info, failures = eval_overlap(n_inputs, contigs, by_barcodes, items, peek=rng.choice([None, None, "class", "subclass", "partial", "lambda"]))
        out.failures += failures
        out.nontrivial.add(("overlap", repr(info["inputs"])))


def eval_sorter_after_failed_spill(cap, sp, keys):
    """The spill triggered by reaching capacity fails (the temp directory does not exist yet), the caller repairs
    the cause and keeps adding: adds that return normally minus records on disk must stay below the capacity."""
    from maflib.sorter import Sorter
    from .c07 import JsonCodec
    info = {"adds": 0, "ok_adds": 0, "spilled": [], "raised": []}
    failures = []
    with tempfile.TemporaryDirectory() as top:
        tmp = os.path.join(top, "later")
        s = Sorter(cap, JsonCodec(), lambda x: x[0], tmp_dir=tmp, always_spill=sp)
        ok = 0
        for k, key in enumerate(keys):
            info["adds"] += 1
            try:
                s += (key, k)
                ok += 1
            except Exception as e:  # noqa: the failed spill (OSError) and whatever the sorter does afterwards
                info["raised"].append(type(e).__name__)
                if not os.path.isdir(tmp):
                    os.makedirs(tmp)
                continue
            spilled = spilled_count(tmp) if os.path.isdir(tmp) else 0
            info["spilled"].append(spilled)
            if ok - spilled >= cap:
                failures.append({"what": "after a failed spill, %d adds returned normally with capacity %d but only %d records are on disk (%d in memory, must be < %d)" % (
                    ok, cap, spilled, ok - spilled, cap), "kind": "sorter-not-spilling-after-fault", "capacity": cap, "always_spill": sp,
                    "keys": list(keys[:k + 1])})
                break
        info["ok_adds"] = ok
        try:
            s.close()
        except Exception:  # noqa
            pass
    return info, failures


def eval_sorter_large(cap, sp, extra):
    """A capacity well above the small ones (an implementation that sizes its stash in blocks shows only there): the bound
    is checked when the number of adds reaches the capacity, once more a little later, and at the end."""
    from maflib.sorter import Sorter
    from .c07 import JsonCodec
    failures = []
    total = cap + extra
    with tempfile.TemporaryDirectory() as tmp:
        s = Sorter(cap, JsonCodec(), lambda x: x[0], tmp_dir=tmp, always_spill=sp)
        for k in range(total):
            s += ((k * 7919) % 10007, k)
            added = k + 1
            if added in (cap, cap + 1, cap + extra // 2, total):
                spilled = spilled_count(tmp)
                if added - spilled >= cap:
                    failures.append({"what": "after %d adds with capacity %d only %d records are on disk (%d still in memory, must be < %d)" % (added, cap, spilled, added - spilled, cap),
                                     "kind": "sorter-not-spilling-large", "capacity": cap, "always_spill": sp, "extra": extra})
                    break
        s.close()
    return failures


def eval_sorter_refusing_key(cap, sp, pattern):
    """A key function that refuses some items with KeyError (a record without a readable position): whether the sorter
    refuses such an item or takes it in, the items whose add() returned normally and that are not yet on disk stay fewer
    than the capacity.  `pattern`: per item, True = the key function accepts it."""
    from maflib.sorter import Sorter
    from .c07 import JsonCodec

    def keyf(x):
        if x[0] is None:
            raise KeyError("no key")
        return x[0]
    failures = []
    with tempfile.TemporaryDirectory() as tmp:
        s = Sorter(cap, JsonCodec(), keyf, tmp_dir=tmp, always_spill=sp)
        taken = 0
        for k, ok in enumerate(pattern):
            try:
                s += ((k * 7919) % 10007 if ok else None, k)
                taken += 1
            except KeyError:
                pass
            spilled = spilled_count(tmp)
            if taken - spilled >= cap:
                failures.append({"what": "after %d items whose add() returned normally (capacity %d, a key function that refuses some items) only %d are on disk (%d still in memory, must be < %d)" % (
                    taken, cap, spilled, taken - spilled, cap), "kind": "sorter-not-spilling-refusing-key", "capacity": cap, "always_spill": sp, "pattern": list(pattern)})
                break
        s.close()
    return failures


def sorter_refusing_key_cases(ctx, out, rng):
    for cap in (2, 3, 4):
        for _ in range(ctx.scale(3, 12)):
            pattern = [rng.random() < 0.5 for _k in range(cap * 4)] if rng.random() < 0.5 else [k % 2 == 0 for k in range(cap * 4)]
            out.evaluations += 1
            out.failures += eval_sorter_refusing_key(cap, rng.random() < 0.5, pattern)
            out.nontrivial.add(("sorter-refusing-key", cap, tuple(pattern)))
            out.distribution["sorter with a key function that refuses some items"] += 1


def eval_sorter_many_runs(cap, sp, runs):
    """A small capacity and a long input: the bound holds after the 256th, 257th, ... spill as it did after the first
    (one sorter fed cap * runs records; what is on disk is counted at a few points beyond the 256th run)."""
    from maflib.sorter import Sorter
    from .c07 import JsonCodec
    failures = []
    with tempfile.TemporaryDirectory() as tmp:
        s = Sorter(cap, JsonCodec(), lambda x: x[0], tmp_dir=tmp, always_spill=sp)
        total = cap * runs + 1
        marks = {cap * 255 + 1, cap * 256, cap * 256 + 1, cap * 257 + 1, cap * 258, total}
        for k in range(total):
            s += ((k * 7919) % 10007, k)
            added = k + 1
            if added in marks:
                spilled = spilled_count(tmp)
                if added - spilled >= cap:
                    failures.append({"what": "after %d adds with capacity %d (%d spill files) only %d records are on disk (%d still in memory, must be < %d)" % (
                        added, cap, len(os.listdir(tmp)), spilled, added - spilled, cap),
                        "kind": "sorter-not-spilling-many-runs", "capacity": cap, "always_spill": sp, "runs": runs})
                    break
        s.close()
    return failures


def spilled_count(tmp):
    import glob
    import gzip
    import struct
    n = 0
    for p in glob.glob(tmp + "/*.gz"):
        with gzip.open(p, "rb") as h:
            while True:
                d = h.read(4)
                if not d:
                    break
                (ln,) = struct.unpack("i", d)
                h.read(ln)
                n += 1
    return n


def sorter_large_cases(ctx, out, rng):
    for cap in ([1025, 1500] if ctx.tier == "quick" else [1025, 1500, 3000, 5000]):
        sp = rng.random() < 0.5
        out.evaluations += 1
        out.failures += eval_sorter_large(cap, sp, 60)
        out.nontrivial.add(("sorter-large", cap, sp))
        out.distribution["sorter capacity above 1024"] += 1


def sorter_many_runs_cases(ctx, out, rng):
    for cap in ([1, 2] if ctx.tier == "quick" else [1, 2, 3]):
        sp = rng.random() < 0.5
        out.evaluations += 1
        out.failures += eval_sorter_many_runs(cap, sp, 260)
        out.nontrivial.add(("sorter-many-runs", cap, sp))
        out.distribution["sorter fed more than 256 runs"] += 1


def sorter_cases(ctx, out, rng):
    for cap in ([1, 2, 3, 4, 7] if ctx.tier == "quick" else range(1, 12)):
        for sp in (True, False):
            info, failures = eval_sorter(cap, sp, lambda: rng.randrange(100), 3 * cap + 2)
            out.evaluations += info["adds"]
            out.failures += failures
            out.nontrivial.add(("sorter", cap, sp))
            keys = [rng.randrange(100) for _ in range(3 * cap + 2)]
            info, failures = eval_sorter_after_failed_spill(cap, sp, keys)
            out.evaluations += info["adds"]
            out.failures += failures
            out.nontrivial.add(("sorter-failed-spill", cap, sp))
            out.distribution["sorter adds after a failed spill: " + ",".join(sorted(set(info["raised"])) or ["none raised"])] += 1


def run(ctx):
    out = Outcome()
    out.rule = ("reader over instrumented line iterators (random files, every prefix of consumption), unsorted writers over a recording handle (typed / scheme-less, declared order or not), "
                "overlap iteration over instrumented inputs (C11's configurations), sorter spill counts after every add for capacities 1..k; a bound is checked after every step; all cases non-trivial")
    rng = ctx.rng("c19")
    reader_cases(ctx, out, rng)
    writer_cases(ctx, out, rng)
    overlap_cases(ctx, out, rng)
    overlap_unkeyable_cases(ctx, out, ctx.rng("c19-unkeyable"))
    sorter_cases(ctx, out, rng)
    sorter_large_cases(ctx, out, ctx.rng("c19-large"))
    sorter_many_runs_cases(ctx, out, ctx.rng("c19-many-runs"))
    sorter_refusing_key_cases(ctx, out, ctx.rng("c19-refusing-key"))
    # own streams: the cases above are unchanged
    reader_factory_cases(ctx, out, ctx.rng("c19", "reader-factories"))
    allele_cases(ctx, out, ctx.rng("c19", "allele"))
    out.rule += ("; readers over every line source (counting iterator / iterable, plain and .gz file with the handle instrumented) x next(reader) / for-iter consumption x "
                 "declared order none / Unsorted / Unknown / Coordinate / BarcodesAndCoordinate (bodies that follow the order, so that iteration goes on) x stringency x scheme given or not; "
                 "the allele-aware overlap iterator for every AlleleOverlapType x by_barcodes, contig order by list or FASTA index, bounded by the overlap sets handed out so far")
    out.sample({"reader_bound": "pulled <= (#header lines + 1) + returned + 1", "overlap_bound": "pulled_i <= emitted_i + 1", "allele_bound": "pulled_i <= (records of input i in the overlap sets handed out from so far) + 1",
                "sorter_bound": "added - spilled < capacity", "writer": "line emitted when write() returns"})
    return out


INPUT_KEYS = ("input_lines", "via", "consume", "mode", "text", "given", "given_norestrict", "config", "header", "typed", "records", "capacity", "always_spill", "keys")


def replay_case(ctx, failure):
    """Re-evaluate the stored failing input on the current implementation; return the list of failure dicts it
    produces now (empty list = the property holds on that input).  (C19 states bounds on the implementation's own
    behaviour; no case of it is compared with the model.)"""
    f = failure
    kind = f.get("kind")
    if kind == "reader-eager":
        lines = f.get("input_lines")
        if not isinstance(lines, list):
            return None              # old files hold the lines truncated to 40 characters
        kw = {k: f[k] for k in ("via", "consume", "mode", "text", "given", "given_norestrict") if k in f}
        via, style = kw.get("via", "iter"), kw.get("consume", "next")
        if via not in READER_SOURCES or (via in ("path", "gz") and not isinstance(kw.get("text"), str)):
            return None
        print("executed: %s, validation_stringency=%s%s), then %s until StopIteration" % (
            {"iter": "MafReader(lines=<counting iterator over %d lines>" % len(lines), "iterable": "MafReader(lines=<counting iterable over %d lines>" % len(lines),
             "path": "MafReader.reader_from(<plain file, %d physical lines, handle instrumented>" % len(lines),
             "gz": "MafReader.reader_from(<.gz file, %d physical lines, handle instrumented>" % len(lines)}[via], kw.get("mode"),
            ", scheme=<%s>" % kw["given"] if "given" in kw else ", scheme=NoRestrictionsScheme(%s)" % kw["given_norestrict"] if "given_norestrict" in kw else "",
            filecases.STYLE_TEXT.get(style, style)))
        for n, l in enumerate(lines[:10], start=1):
            print("  line %d: %r" % (n, l[:80]))
        info, failures = eval_reader(lines, **kw)
        if not info["observed"]:
            print("implementation: the file was not opened through open() / gzip.open() of maflib.reader (nothing to count)")
        elif info["init_exc"]:
            print("implementation: constructing the reader raised %s (nothing to judge)" % info["init_exc"])
        else:
            print("implementation: %d header line(s); %d line(s) pulled by the constructor (allowed %d)" % (info["header_lines"], info["pulled_after_init"], info["header_lines"] + 2))
            for returned, pulled, bound in info["steps"][:12]:
                print("implementation: after record %d: %d line(s) pulled (allowed %d)" % (returned, pulled, bound))
            if info["exc"]:
                print("implementation: reading ended with %s" % info["exc"])
    elif kind == "writer-deferred":
        if not (isinstance(f.get("header"), list) and isinstance(f.get("typed"), bool) and isinstance(f.get("records"), int)):
            return None
        print("executed: MafWriter.from_fd(<recording handle>, header=%s, Silent) (assume_sorted default), += %d %s record(s) at 1:10.., text inspected after each +=" % (
            f["header"], f["records"], "gdc-1.0.0" if f["typed"] else "scheme-less"))
        info, failures = eval_writer(f["typed"], f["header"], f["records"])
        for j, n, ok in info["steps"]:
            print("implementation: += record %d wrote %d character(s); the record's line %s" % (j, n, "is the end of the output" if ok else "has NOT been emitted"))
    elif kind in ("overlap-eager", "exception"):
        c = f.get("config")
        if not isinstance(c, dict) or not all(x in c for x in ("n_inputs", "contigs", "by_barcodes", "items")):
            return None
        items = [tuple(x) for x in c["items"]]
        print("executed: LocatableOverlapIterator over %d counting input(s), contigs=%s, by_barcodes=%s, items (tumor, normal, chrom, start, end, input)=%s" % (
            c["n_inputs"], c["contigs"], c["by_barcodes"], items))
        info, failures = eval_overlap(c["n_inputs"], c["contigs"], c["by_barcodes"], items, fasta=bool(c.get("fasta_index")), peek=c.get("peekable_iterator_class"))
        if info["exc"]:
            print("implementation: raised %s" % info["exc"])
        else:
            print("implementation: pulled per input after construction %s; after %d group(s): pulled %s, emitted %s (allowed pulled_i <= emitted_i + 1)" % (
                info.get("pulled_after_init"), info["steps"], info["pulled"], info["emitted"]))
    elif kind in ("allele-eager", "allele-exception"):
        c = f.get("config")
        if not isinstance(c, dict) or not all(x in c for x in ("n_inputs", "contigs", "by_barcodes", "items", "relation", "allele_seed")) or c["relation"] not in RELS:
            return None
        items = [tuple(x) for x in c["items"]]
        print("executed: LocatableByAlleleOverlapIterator over %d counting input(s), %s, by_barcodes=%s, overlap_type=%s, items (tumor, normal, chrom, start, end, input)=%s" % (
            c["n_inputs"], "fasta_index=<file listing %s>" % c["contigs"] if c.get("fasta_index") else "contigs=%s" % c["contigs"], c["by_barcodes"], c["relation"], items))
        info, failures = eval_allele(c["n_inputs"], c["contigs"], c["by_barcodes"], items, c["relation"], c["allele_seed"], fasta=bool(c.get("fasta_index")))
        for k, inp in enumerate(info["inputs"]):
            print("  input %d: %s" % (k, " ".join("%r[%s>%s]" % (x, x.ref, "/".join(x.alts)) for x in inp) or "(empty)"))
        if info["exc"]:
            print("implementation: raised %s" % info["exc"])
        else:
            print("implementation: pulled per input after construction %s" % info.get("pulled_after_init"))
            for step, ids, pulled, allowed in info["steps"][:12]:
                print("implementation: sub-group %d = record ids %s; pulled per input %s (allowed %s)" % (step, ids, pulled, allowed))
    elif kind == "overlap-eager-unkeyable":
        if "layout" not in f:
            return None
        info, failures = eval_overlap_unkeyable(f["layout"], f.get("by_barcodes", False))
        print("executed: LocatableOverlapIterator over %d input(s) of scheme-less records, start positions %s (None = a position text that is not a number)" % (len(f["layout"]), f["layout"]))
        print("implementation: %s; pulled per input %s, emitted per input %s" % (info["exc"] or "iterated to the end", info["pulled"], info["emitted"]))
        return failures
    elif kind == "writer-deferred-path":
        if not all(k in f for k in ("header", "typed", "records", "gz")):
            return None
        print("executed: MafWriter.from_path(%s) (unsorted), %d %s record(s) written with +=, the text passed to the handle's write() observed after every +=" % (
            "out.maf.gz" if f["gz"] else "out.maf", f["records"], "typed" if f["typed"] else "scheme-less"))
        info, failures = eval_writer_path(f["typed"], f["header"], f["records"], f["gz"])
        print("implementation: per record (index, chars passed to the handle by that +=, ends with the record's line): %s" % info["steps"])
        return failures
    elif kind == "writer-deferred-textlayer":
        if not all(k in f for k in ("header", "typed", "records", "encoding", "via")):
            return None
        print("executed: %s on io.TextIOWrapper(io.BytesIO(), encoding=%r) (unsorted), %d record(s) written with +=; after every += the caller flushes its handle and looks at the binary stream" % (
            "MafWriter(handle, ...)" if f["via"] == "ctor" else "MafWriter.from_fd(handle, ...)", f["encoding"], f["records"]))
        info, failures = eval_writer_textlayer(f["typed"], f["header"], f["records"], f["encoding"], f["via"])
        print("implementation: per record (index, chars in the stream, ends with the record's line): %s" % info["steps"])
        return failures
    elif kind == "sorter-not-spilling-large":
        if not (isinstance(f.get("capacity"), int) and "always_spill" in f):
            return None
        print("executed: Sorter(capacity=%d, always_spill=%s) += %d items, spill files decoded when the number of adds reaches the capacity, a little later and at the end" % (
            f["capacity"], f["always_spill"], f["capacity"] + f.get("extra", 60)))
        failures = eval_sorter_large(f["capacity"], f["always_spill"], f.get("extra", 60))
        print("implementation: %s" % (failures[0]["what"] if failures else "the bound held at every point looked at"))
        return failures
    elif kind == "sorter-not-spilling-refusing-key":
        if not (isinstance(f.get("capacity"), int) and isinstance(f.get("pattern"), list)):
            return None
        print("executed: Sorter(capacity=%d, always_spill=%s, key function raising KeyError for the items marked False) += %d items %s; spill files decoded after every add" % (
            f["capacity"], f["always_spill"], len(f["pattern"]), f["pattern"]))
        failures = eval_sorter_refusing_key(f["capacity"], f["always_spill"], f["pattern"])
        print("implementation: %s" % (failures[0]["what"] if failures else "the bound held after every add"))
        return failures
    elif kind == "sorter-not-spilling-many-runs":
        if not (isinstance(f.get("capacity"), int) and "always_spill" in f):
            return None
        print("executed: Sorter(capacity=%d, always_spill=%s) += %d items (%d runs), spill files decoded around the 256th run and at the end" % (
            f["capacity"], f["always_spill"], f["capacity"] * f.get("runs", 260) + 1, f.get("runs", 260)))
        failures = eval_sorter_many_runs(f["capacity"], f["always_spill"], f.get("runs", 260))
        print("implementation: %s" % (failures[0]["what"] if failures else "the bound held at every point looked at"))
        return failures
    elif kind == "sorter-not-spilling-after-fault":
        keys = f.get("keys")
        if not (isinstance(keys, list) and isinstance(f.get("capacity"), int) and "always_spill" in f):
            return None
        print("executed: Sorter(capacity=%d, always_spill=%s, tmp_dir missing at the first spill, created afterwards) += items with keys %s" % (f["capacity"], f["always_spill"], keys))
        info, failures = eval_sorter_after_failed_spill(f["capacity"], f["always_spill"], keys)
        print("implementation: raised %s; records on disk after each successful add: %s" % (info["raised"], info["spilled"]))
        return failures
    elif kind == "sorter-not-spilling":
        keys = f.get("keys")
        if not (isinstance(keys, list) and isinstance(f.get("capacity"), int) and "always_spill" in f):
            return None
        it = iter(keys)
        print("executed: Sorter(capacity=%d, always_spill=%s) += items with keys %s, spill files decoded after every add" % (f["capacity"], f["always_spill"], keys))
        info, failures = eval_sorter(f["capacity"], f["always_spill"], lambda: next(it), len(keys))
        print("implementation: records on disk after each add: %s (in memory = adds - on disk, must stay < %d)" % (info["spilled"], f["capacity"]))
    else:
        return None
    for g in failures:
        print("oracle: [%s] %s" % (g["kind"], g["what"]))
    if not failures:
        print("oracle: satisfied (the bound holds after every step)")
        print("the stored input alone satisfies the property; the failure may depend on what the process did before it (state kept between calls):")
        failures = filecases.rerun_in_fresh_process("C19", failure, INPUT_KEYS)
        for g in failures[:1]:
            print("oracle (in the re-run): %s" % g["what"])
    return failures


def search(ctx):
    return run(ctx)

