"""C19 - reading, unsorted writing and overlap iteration are incremental."""
import tempfile

from .. import filecases, impl, sortcases as SC
from ..common import exc_name
from ..runner import Outcome
from . import c11

LEVEL = "proof"
ASSUMPTIONS = ["buffering below the handle's write() call (OS / gzip) is not observed: 'emitted' means write() was called on the handle",
               "spilled records are counted by decoding the spill files in the sorter's temp directory"]


class CountingIter:
    def __init__(self, items):
        self.items = list(items)
        self.pulled = 0

    def __iter__(self):
        return self

    def __next__(self):
        if self.pulled >= len(self.items):
            self.pulled_past_end = True
            raise StopIteration
        x = self.items[self.pulled]
        self.pulled += 1
        return x


# ---- one eval_* per kind of case, shared by the *_cases generators and replay_case; each returns (info, failures)
def eval_reader(lines):
    """A reader over an instrumented line iterator: how many lines it has pulled after construction and after every record.
    info["completed"] is False when the reader could not be constructed or was already too eager when constructed."""
    from maflib.reader import MafReader
    src = CountingIter(lines)
    info = {"completed": False, "init_exc": None, "pulled_after_init": None, "steps": []}
    try:
        rd = MafReader(lines=src, validation_stringency=None)
    except Exception as e:  # noqa
        info["init_exc"] = exc_name(e)
        return info, []
    k = 0
    stripped = [l.rstrip("\r\n") for l in lines]
    while k < len(stripped) and stripped[k].startswith("#"):
        k += 1
    info["header_lines"] = k
    info["pulled_after_init"] = src.pulled
    where = {"lines": [l[:40] for l in lines], "header_lines": k, "input_lines": list(lines)}
    # after construction: header lines, the column line and one look-ahead
    if src.pulled > k + 2:
        return info, [dict(where, what="constructing the reader pulled %d lines (header %d + column line + 1 look-ahead allowed)" % (src.pulled, k),
                           kind="reader-eager")]
    failures = []
    returned = 0
    try:
        while True:
            rd.__next__()
            returned += 1
            bound = (k + 1) + returned + 1
            info["steps"].append((returned, src.pulled, bound))
            if src.pulled > bound:
                failures.append(dict(where, what="after returning record %d the reader had pulled %d lines (> %d)" % (returned, src.pulled, bound),
                                     kind="reader-eager"))
                break
    except StopIteration:
        pass
    info["completed"] = True
    return info, failures


def eval_writer(typed, header, nrec):
    """An unsorted writer (assume_sorted default) over a recording handle: each record's line is there when += returns.
    Record j is the fixed record at T/N, chromosome 1, position 10 + j (typed: parsed under gdc-1.0.0; else scheme-less)."""
    from maflib.header import MafHeader
    from maflib.validation import ValidationStringency as VS
    from maflib.writer import MafWriter
    failures = []
    info = {"steps": []}
    buf = impl.RecordingHandle()
    w = MafWriter.from_fd(buf, MafHeader.from_lines(header, validation_stringency=VS.Silent), validation_stringency=VS.Silent)   # assume_sorted default
    for j in range(nrec):
        rec = SC.typed_record(None, "T", "N", "1", 10 + j, 10 + j) if typed else SC.untyped_record("T", "N", "1", str(10 + j), str(10 + j))
        before = buf.text()
        w += rec
        after = buf.text()
        new = after[len(before):]
        info["steps"].append((j, len(new), new.endswith(str(rec) + "\n")))
        if not new.endswith(str(rec) + "\n"):
            failures.append({"what": "an unsorted writer had not emitted the record's line when write() returned", "kind": "writer-deferred",
                             "header": header, "record_index": j, "emitted": new[-120:], "typed": typed, "records": nrec})
            break
    w.close()
    info["total_written"] = len(buf.text())
    return info, failures


def eval_overlap(n_inputs, contigs, by_barcodes, items):
    """Overlap iteration over instrumented inputs (a configuration of C11): pulls per input against records emitted."""
    from maflib.overlap_iter import LocatableOverlapIterator
    inputs = c11.build_inputs(n_inputs, contigs, by_barcodes, items)
    srcs = [CountingIter(inp) for inp in inputs]
    config = {"n_inputs": n_inputs, "contigs": contigs, "by_barcodes": by_barcodes, "items": [list(x) for x in items]}
    info = {"inputs": inputs, "steps": 0, "pulled": None, "emitted": None, "exc": None}
    failures = []
    try:
        it = LocatableOverlapIterator(srcs, contigs=contigs, by_barcodes=by_barcodes)
        emitted = [0] * len(inputs)
        bad = None
        if any(s.pulled > 1 for s in srcs):
            bad = "construction pulled more than one record from an input"
        info["pulled_after_init"] = [s.pulled for s in srcs]
        steps = 0
        for g in it:
            steps += 1
            for i, slot in enumerate(g):
                emitted[i] += len(slot)
            for i, s in enumerate(srcs):
                if s.pulled > emitted[i] + 1:
                    bad = "after group %d input %d had been pulled %d times for %d emitted records" % (steps, i, s.pulled, emitted[i])
            if bad or steps > 100:
                break
        info["steps"], info["pulled"], info["emitted"] = steps, [s.pulled for s in srcs], emitted
        if bad:
            failures.append({"what": "overlap iteration is not incremental: " + bad, "kind": "overlap-eager",
                             "inputs": [[repr(x) for x in inp] for inp in inputs], "config": config})
    except Exception as e:  # noqa
        info["exc"] = exc_name(e)
        failures.append({"what": "overlap iteration failed: %s" % exc_name(e), "kind": "exception", "config": config})
    return info, failures


def eval_sorter(cap, sp, next_key, count):
    """A sorter of capacity `cap` fed `count` items whose keys come from next_key(): records on disk after every add.
    Stops at the first add after which too many records are still in memory (no further key is drawn)."""
    from maflib.sorter import Sorter
    from .c07 import JsonCodec
    info = {"adds": 0, "keys": [], "spilled": []}
    failures = []
    with tempfile.TemporaryDirectory() as tmp:
        s = Sorter(cap, JsonCodec(), lambda x: x[0], tmp_dir=tmp, always_spill=sp)
        for k in range(count):
            info["adds"] += 1
            key = next_key()
            info["keys"].append(key)
            s += (key, k)
            added = k + 1
            spilled = spilled_count(tmp)
            info["spilled"].append(spilled)
            if added - spilled >= cap or added - spilled < 0:
                failures.append({"what": "after %d adds with capacity %d only %d records are on disk (%d still in memory, must be < %d)" % (
                    added, cap, spilled, added - spilled, cap), "kind": "sorter-not-spilling", "capacity": cap, "always_spill": sp,
                    "keys": list(info["keys"])})
                break
        s.close()
    return info, failures


def reader_cases(ctx, out, rng):
    for _ in range(ctx.scale(200, 2500)):
        ann = rng.choice([None, "gdc-1.0.0"])
        lines = filecases.whole_file(rng, ann, sort=None, n_data=rng.randrange(0, 7), col=rng.random() < 0.95)
        out.evaluations += 1
        info, failures = eval_reader(lines)
        out.failures += failures
        if info["completed"]:
            out.nontrivial.add(("reader", repr(lines)))
    out.distribution["reader"] += 1


def writer_cases(ctx, out, rng):
    for _ in range(ctx.scale(60, 600)):
        typed = rng.random() < 0.5
        header = ["#version gdc-1.0.0"] + ([] if typed else ["#annotation.spec lab"]) + rng.choice([[], ["#sort.order Coordinate"], ["#sort.order Unsorted"]])
        out.evaluations += 1
        _info, failures = eval_writer(typed, header, rng.randrange(1, 6))
        out.failures += failures
        out.nontrivial.add(("writer", tuple(header), typed))


def overlap_cases(ctx, out, rng):
    for _ in range(ctx.scale(200, 2500)):
        n_inputs, contigs, by_barcodes, items = c11.gen_config(rng, 7)
        out.evaluations += 1
        info, failures = eval_overlap(n_inputs, contigs, by_barcodes, items)
        out.failures += failures
        out.nontrivial.add(("overlap", repr(info["inputs"])))


def spilled_count(tmp):
    import glob
    import gzip
    import struct
    n = 0
    for p in glob.glob(tmp + "/*.gz"):
        with gzip.open(p, "rb") as h:
            while True:
                d = h.read(4)
                if not d:
                    break
                (ln,) = struct.unpack("i", d)
                h.read(ln)
                n += 1
    return n


def sorter_cases(ctx, out, rng):
    for cap in ([1, 2, 3, 4, 7] if ctx.tier == "quick" else range(1, 12)):
        for sp in (True, False):
            info, failures = eval_sorter(cap, sp, lambda: rng.randrange(100), 3 * cap + 2)
            out.evaluations += info["adds"]
            out.failures += failures
            out.nontrivial.add(("sorter", cap, sp))


def run(ctx):
    out = Outcome()
    out.rule = ("reader over instrumented line iterators (random files, every prefix of consumption), unsorted writers over a recording handle (typed / scheme-less, declared order or not), "
                "overlap iteration over instrumented inputs (C11's configurations), sorter spill counts after every add for capacities 1..k; a bound is checked after every step; all cases non-trivial")
    rng = ctx.rng("c19")
    reader_cases(ctx, out, rng)
    writer_cases(ctx, out, rng)
    overlap_cases(ctx, out, rng)
    sorter_cases(ctx, out, rng)
    out.sample({"reader_bound": "pulled <= (#header lines + 1) + returned + 1", "overlap_bound": "pulled_i <= emitted_i + 1",
                "sorter_bound": "added - spilled < capacity", "writer": "line emitted when write() returns"})
    return out


def replay_case(ctx, failure):
    """Re-evaluate the stored failing input on the current implementation; return the list of failure dicts it
    produces now (empty list = the property holds on that input).  (C19 states bounds on the implementation's own
    behaviour; no case of it is compared with the model.)"""
    f = failure
    kind = f.get("kind")
    if kind == "reader-eager":
        lines = f.get("input_lines")
        if not isinstance(lines, list):
            return None              # old files hold the lines truncated to 40 characters
        print("executed: MafReader(lines=<counting iterator over %d lines>, validation_stringency=None), then __next__() until StopIteration" % len(lines))
        info, failures = eval_reader(lines)
        if info["init_exc"]:
            print("implementation: constructing the reader raised %s (nothing to judge)" % info["init_exc"])
        else:
            print("implementation: %d header line(s); %d line(s) pulled by the constructor (allowed %d)" % (info["header_lines"], info["pulled_after_init"], info["header_lines"] + 2))
            for returned, pulled, bound in info["steps"][:12]:
                print("implementation: after record %d: %d line(s) pulled (allowed %d)" % (returned, pulled, bound))
    elif kind == "writer-deferred":
        if not (isinstance(f.get("header"), list) and isinstance(f.get("typed"), bool) and isinstance(f.get("records"), int)):
            return None
        print("executed: MafWriter.from_fd(<recording handle>, header=%s, Silent) (assume_sorted default), += %d %s record(s) at 1:10.., text inspected after each +=" % (
            f["header"], f["records"], "gdc-1.0.0" if f["typed"] else "scheme-less"))
        info, failures = eval_writer(f["typed"], f["header"], f["records"])
        for j, n, ok in info["steps"]:
            print("implementation: += record %d wrote %d character(s); the record's line %s" % (j, n, "is the end of the output" if ok else "has NOT been emitted"))
    elif kind in ("overlap-eager", "exception"):
        c = f.get("config")
        if not isinstance(c, dict) or not all(x in c for x in ("n_inputs", "contigs", "by_barcodes", "items")):
            return None
        items = [tuple(x) for x in c["items"]]
        print("executed: LocatableOverlapIterator over %d counting input(s), contigs=%s, by_barcodes=%s, items (tumor, normal, chrom, start, end, input)=%s" % (
            c["n_inputs"], c["contigs"], c["by_barcodes"], items))
        info, failures = eval_overlap(c["n_inputs"], c["contigs"], c["by_barcodes"], items)
        if info["exc"]:
            print("implementation: raised %s" % info["exc"])
        else:
            print("implementation: pulled per input after construction %s; after %d group(s): pulled %s, emitted %s (allowed pulled_i <= emitted_i + 1)" % (
                info.get("pulled_after_init"), info["steps"], info["pulled"], info["emitted"]))
    elif kind == "sorter-not-spilling":
        keys = f.get("keys")
        if not (isinstance(keys, list) and isinstance(f.get("capacity"), int) and "always_spill" in f):
            return None
        it = iter(keys)
        print("executed: Sorter(capacity=%d, always_spill=%s) += items with keys %s, spill files decoded after every add" % (f["capacity"], f["always_spill"], keys))
        info, failures = eval_sorter(f["capacity"], f["always_spill"], lambda: next(it), len(keys))
        print("implementation: records on disk after each add: %s (in memory = adds - on disk, must stay < %d)" % (info["spilled"], f["capacity"]))
    else:
        return None
    for g in failures:
        print("oracle: [%s] %s" % (g["kind"], g["what"]))
    if not failures:
        print("oracle: satisfied (the bound holds after every step)")
    return failures


def search(ctx):
    return run(ctx)

