"""C19 - reading, unsorted writing and overlap iteration are incremental."""
import tempfile

from .. import filecases, impl, sortcases as SC
from ..common import exc_name
from ..runner import Outcome
from . import c11

LEVEL = "proof"
ASSUMPTIONS = ["buffering below the handle's write() call (OS / gzip) is not observed: 'emitted' means write() was called on the handle",
               "spilled records are counted by decoding the spill files in the sorter's temp directory"]


class CountingIter:
    def __init__(self, items):
        self.items = list(items)
        self.pulled = 0

    def __iter__(self):
        return self

    def __next__(self):
        if self.pulled >= len(self.items):
            self.pulled_past_end = True
            raise StopIteration
        x = self.items[self.pulled]
        self.pulled += 1
        return x


def reader_cases(ctx, out, rng):
    from maflib.reader import MafReader
    for _ in range(ctx.scale(200, 2500)):
        ann = rng.choice([None, "gdc-1.0.0"])
        lines = filecases.whole_file(rng, ann, sort=None, n_data=rng.randrange(0, 7), col=rng.random() < 0.95)
        src = CountingIter(lines)
        out.evaluations += 1
        try:
            rd = MafReader(lines=src, validation_stringency=None)
        except Exception as e:  # noqa
            continue
        k = 0
        stripped = [l.rstrip("\r\n") for l in lines]
        while k < len(stripped) and stripped[k].startswith("#"):
            k += 1
        where = {"lines": [l[:40] for l in lines], "header_lines": k}
        # after construction: header lines, the column line and one look-ahead
        if src.pulled > k + 2:
            out.failures.append(dict(where, what="constructing the reader pulled %d lines (header %d + column line + 1 look-ahead allowed)" % (src.pulled, k),
                                     kind="reader-eager"))
            continue
        returned = 0
        plain = iter(rd.__next__, None)
        try:
            while True:
                rd.__next__()
                returned += 1
                bound = (k + 1) + returned + 1
                if src.pulled > bound:
                    out.failures.append(dict(where, what="after returning record %d the reader had pulled %d lines (> %d)" % (returned, src.pulled, bound),
                                             kind="reader-eager"))
                    break
        except StopIteration:
            pass
        out.nontrivial.add(("reader", repr(lines)))
    out.distribution["reader"] += 1


def writer_cases(ctx, out, rng):
    from maflib.header import MafHeader
    from maflib.validation import ValidationStringency as VS
    from maflib.writer import MafWriter
    for _ in range(ctx.scale(60, 600)):
        typed = rng.random() < 0.5
        header = ["#version gdc-1.0.0"] + ([] if typed else ["#annotation.spec lab"]) + rng.choice([[], ["#sort.order Coordinate"], ["#sort.order Unsorted"]])
        out.evaluations += 1
        buf = impl.RecordingHandle()
        w = MafWriter.from_fd(buf, MafHeader.from_lines(header, validation_stringency=VS.Silent), validation_stringency=VS.Silent)   # assume_sorted default
        n0 = len(buf.chunks)
        for j in range(rng.randrange(1, 6)):
            rec = SC.typed_record(rng, "T", "N", "1", 10 + j, 10 + j) if typed else SC.untyped_record("T", "N", "1", str(10 + j), str(10 + j))
            before = buf.text()
            w += rec
            after = buf.text()
            new = after[len(before):]
            if not new.endswith(str(rec) + "\n"):
                out.failures.append({"what": "an unsorted writer had not emitted the record's line when write() returned", "kind": "writer-deferred",
                                     "header": header, "record_index": j, "emitted": new[-120:]})
                break
        w.close()
        out.nontrivial.add(("writer", tuple(header), typed))


def overlap_cases(ctx, out, rng):
    from maflib.overlap_iter import LocatableOverlapIterator
    for _ in range(ctx.scale(200, 2500)):
        n_inputs, contigs, by_barcodes, items = c11.gen_config(rng, 7)
        inputs = c11.build_inputs(n_inputs, contigs, by_barcodes, items)
        srcs = [CountingIter(inp) for inp in inputs]
        out.evaluations += 1
        try:
            it = LocatableOverlapIterator(srcs, contigs=contigs, by_barcodes=by_barcodes)
            emitted = [0] * len(inputs)
            bad = None
            if any(s.pulled > 1 for s in srcs):
                bad = "construction pulled more than one record from an input"
            steps = 0
            for g in it:
                steps += 1
                for i, slot in enumerate(g):
                    emitted[i] += len(slot)
                for i, s in enumerate(srcs):
                    if s.pulled > emitted[i] + 1:
                        bad = "after group %d input %d had been pulled %d times for %d emitted records" % (steps, i, s.pulled, emitted[i])
                if bad or steps > 100:
                    break
            if bad:
                out.failures.append({"what": "overlap iteration is not incremental: " + bad, "kind": "overlap-eager",
                                     "inputs": [[repr(x) for x in inp] for inp in inputs]})
        except Exception as e:  # noqa
            out.failures.append({"what": "overlap iteration failed: %s" % exc_name(e), "kind": "exception"})
        out.nontrivial.add(("overlap", repr(inputs)))


def spilled_count(tmp):
    import glob
    import gzip
    import struct
    n = 0
    for p in glob.glob(tmp + "/*.gz"):
        with gzip.open(p, "rb") as h:
            while True:
                d = h.read(4)
                if not d:
                    break
                (ln,) = struct.unpack("i", d)
                h.read(ln)
                n += 1
    return n


def sorter_cases(ctx, out, rng):
    from maflib.sorter import Sorter
    from .c07 import JsonCodec
    for cap in ([1, 2, 3, 4, 7] if ctx.tier == "quick" else range(1, 12)):
        for sp in (True, False):
            with tempfile.TemporaryDirectory() as tmp:
                s = Sorter(cap, JsonCodec(), lambda x: x[0], tmp_dir=tmp, always_spill=sp)
                for k in range(3 * cap + 2):
                    out.evaluations += 1
                    s += (rng.randrange(100), k)
                    added = k + 1
                    spilled = spilled_count(tmp)
                    if added - spilled >= cap or added - spilled < 0:
                        out.failures.append({"what": "after %d adds with capacity %d only %d records are on disk (%d still in memory, must be < %d)" % (
                            added, cap, spilled, added - spilled, cap), "kind": "sorter-not-spilling", "capacity": cap, "always_spill": sp})
                        break
                s.close()
            out.nontrivial.add(("sorter", cap, sp))


def run(ctx):
    out = Outcome()
    out.rule = ("reader over instrumented line iterators (random files, every prefix of consumption), unsorted writers over a recording handle (typed / scheme-less, declared order or not), "
                "overlap iteration over instrumented inputs (C11's configurations), sorter spill counts after every add for capacities 1..k; a bound is checked after every step; all cases non-trivial")
    rng = ctx.rng("c19")
    reader_cases(ctx, out, rng)
    writer_cases(ctx, out, rng)
    overlap_cases(ctx, out, rng)
    sorter_cases(ctx, out, rng)
    out.sample({"reader_bound": "pulled <= (#header lines + 1) + returned + 1", "overlap_bound": "pulled_i <= emitted_i + 1",
                "sorter_bound": "added - spilled < capacity", "writer": "line emitted when write() returns"})
    return out


def search(ctx):
    return run(ctx)

