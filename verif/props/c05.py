"""C05 - public and masked schemes never let germline information through."""
import io

from .. import colcases, impl
from ..common import exc_name, float_table, has_unmodelled, is_model_text
from ..runner import Outcome

LEVEL = "proof"
ASSUMPTIONS = ["non-strict writers emit what they are given by design and are outside the guarantee (property text)"]
GERMLINE = ["Match_Norm_Seq_Allele1", "Match_Norm_Seq_Allele2", "Match_Norm_Validation_Allele1",
            "Match_Norm_Validation_Allele2", "n_ref_count", "n_alt_count"]
VCF_ONLY = ["vcf_region", "vcf_info", "vcf_format", "vcf_tumor_gt", "vcf_normal_gt"]
MODES = ["Strict", "Lenient", "Silent"]


def masked_layouts():
    """Public/masked layouts, recognised from the definitions (a definition that redefines
    columns with RequireNullValue), not from a hard-coded list."""
    from ..gen import extract_schemes
    out = {}
    for d in extract_schemes():
        cols = [c for c, t in d["columns"] if t == "RequireNullValue"]
        if cols:
            out[d["annotation"]] = cols
    return out


def offending_texts(rng):
    return ["A", "ACGT", "-", "T", "0", "1", "17", "N", "acgt", "x", " ", "None", "Null", "-1", "1.5", "A;C",
            "TTTTTTTTTTTTTTTT", str(rng.randrange(2, 10**6))]


def parse_cases(ctx, out):
    from maflib.record import MafRecord
    rng = ctx.rng("parse")
    layouts = masked_layouts()
    reqs, metas = [], []
    for ann, cols in sorted(layouts.items()):
        sch = impl.scheme_by_annotation(ann)
        names = sch.column_names()
        for col in cols:
            k = names.index(col)
            for text in offending_texts(rng):
                fields = colcases.valid_fields(ann, rng)
                for c2 in cols:
                    fields[names.index(c2)] = ""
                fields[k] = text
                line = "\t".join(fields)
                for mode in MODES:
                    out.evaluations += 1
                    r = colcases.from_line_req(ann, line, mode, 5)
                    reqs.append(r)
                    metas.append((ann, col, k, text, mode))
                    try:
                        rec = MafRecord.from_line(line, scheme=sch, line_number=5, validation_stringency=impl.MODES[mode])
                    except Exception as e:  # noqa
                        rec, exc = None, e
                    where = {"scheme": ann, "column": col, "text": text, "mode": mode, "line": line}
                    if mode == "Strict":
                        if rec is not None or not exc_name(exc).startswith("MafFormatException"):
                            out.failures.append(dict(where, what="Strict parsing accepted a non-null germline field",
                                                     kind="strict-accepts"))
                        out.distribution["strict:refused"] += 1
                    else:
                        if rec is None:
                            out.failures.append(dict(where, what="non-strict parsing raised", kind="exception", got=exc_name(exc)))
                            continue
                        exposed = []
                        try:
                            if rec.value(col) is not None:
                                exposed.append("value()")
                        except Exception:  # noqa
                            pass
                        slots = rec._MafRecord__columns_list
                        if k < len(slots) and slots[k] is not None:
                            exposed.append("record[%d]" % k)
                        s = str(rec).split("\t")
                        if k < len(s) and s[k] == text and text != "None":  # an empty slot prints as "None"
                            exposed.append("str(record)")
                        if exposed:
                            out.failures.append(dict(where, what="parsed record exposes the offending germline value via %s" % exposed,
                                                     kind="exposed"))
                        if not rec.validation_errors:
                            out.failures.append(dict(where, what="non-null germline field produced no validation error", kind="no-error"))
                        out.distribution["nonstrict:hidden"] += 1
                    out.nontrivial.add((ann, col, text))
                if len(out.samples) < 3:
                    out.sample({"scheme": ann, "column": col, "text": text, "modes": MODES})
        # protected-only VCF columns are absent from public layouts
        if ann.endswith("-public"):
            out.evaluations += 1
            present = [c for c in VCF_ONLY if c in names]
            if present:
                out.failures.append({"what": "protected-only VCF columns present in a public layout", "kind": "vcf",
                                     "scheme": ann, "columns": present})
    mo = ctx.driver.run(reqs)
    for r, m, meta in zip(reqs, mo, metas):
        i = impl.run(r)
        if not has_unmodelled(m) and m != i:
            fields = r["line"].split("\t")
            if any(colcases.dontcare_numeric(p) or colcases.dontcare_uuid(p) for f in fields for p in [f] + f.split(";")):
                out.dontcare += 1
            else:
                out.disagreements.append({"op": "rec.from_line", "request": {k: r[k] for k in ("scheme", "mode", "line")},
                                          "model": m.get("exc") or m["rec"]["errors"], "impl": i.get("exc") or i["rec"]["errors"]})


def api_records(ann, col, value_text, rng):
    """Records carrying a non-null germline value, built in the ways the API allows."""
    from maflib.record import MafRecord
    from maflib.validation import ValidationStringency as VS
    sch = impl.scheme_by_annotation(ann)
    names = sch.column_names()
    base_ann = {"gdc-1.0.0-public": "gdc-1.0.0-protected", "gdc-1.0.1-public": "gdc-1.0.1-protected",
                "gdc-1.0.0-aliquot-merged-masked": "gdc-1.0.0-aliquot-merged",
                "gdc-2.0.0-aliquot-merged-masked": "gdc-2.0.0-aliquot-merged"}.get(ann)
    fields = colcases.valid_fields(ann, rng)
    for c2 in masked_layouts()[ann]:
        fields[names.index(c2)] = ""
    clean = MafRecord.from_line("\t".join(fields), scheme=sch, validation_stringency=VS.Silent)
    k = names.index(col)
    out = []
    # (a) post-hoc mutation of the masked column of a cleanly parsed record
    r = MafRecord.from_line("\t".join(fields), scheme=sch, validation_stringency=VS.Silent)
    if r[col] is not None:
        base_cls = [c for c in type(r[col]).__mro__ if c.__name__ == type(r[col]).__name__][-1]
        try:
            v = base_cls.__build__(value_text)
        except Exception:  # noqa
            v = value_text
        r[col].value = v
        out.append(("mutated-value", r))
    # (b) the column replaced by one of the protected (unmasked) class
    if base_ann:
        bsch = impl.scheme_by_annotation(base_ann)
        try:
            bc = bsch.column_class(col).build(name=col, value=value_text, column_index=k)
            r = MafRecord.from_line("\t".join(fields), scheme=sch, validation_stringency=VS.Silent)
            r[col] = bc
            out.append(("protected-class-column", r))
        except Exception:  # noqa
            pass
    # (c) a generic untyped column
    from maflib.column import MafColumnRecord
    r = MafRecord.from_line("\t".join(fields), scheme=sch, validation_stringency=VS.Silent)
    r[col] = MafColumnRecord(col, value_text, column_index=k)
    out.append(("generic-column", r))
    return clean, out


def writer_cases(ctx, out):
    from maflib.header import MafHeader
    from maflib.writer import MafWriter
    from maflib.validation import ValidationStringency as VS
    rng = ctx.rng("writer")
    for ann, cols in sorted(masked_layouts().items()):
        sch = impl.scheme_by_annotation(ann)
        names = sch.column_names()
        for col in cols:
            for text in ["ACGT", "17", "-", "A"]:
                clean, offered = api_records(ann, col, text, rng)
                for how, rec in offered:
                    for sort in (False, True):
                        out.evaluations += 1
                        from maflib.sort_order import Coordinate
                        h = MafHeader.from_defaults(version=sch.version(), annotation=ann,
                                                    sort_order=Coordinate() if sort else None)
                        buf = io.StringIO()
                        buf.close = lambda: None
                        w = MafWriter.from_fd(buf, h, validation_stringency=VS.Strict, assume_sorted=not sort)
                        before = buf.getvalue()
                        refused = False
                        try:
                            w += clean
                            mid = buf.getvalue()
                            w += rec
                        except Exception as e:  # noqa
                            refused = exc_name(e).startswith("MafFormatException")
                            kind = exc_name(e)
                        try:
                            w.close()
                        except Exception:  # noqa
                            pass
                        body = [ln for ln in buf.getvalue().split("\n") if ln and not ln.startswith("#")][1:]
                        leaked = [ln for ln in body if ln and len(ln.split("\t")) > names.index(col)
                                  and ln.split("\t")[names.index(col)] not in ("",)]
                        where = {"scheme": ann, "column": col, "text": text, "how": how, "sorting": sort}
                        if leaked:
                            out.failures.append(dict(where, what="Strict writer emitted a non-null germline field", kind="leak",
                                                     got=leaked[0].split("\t")[names.index(col)]))
                        elif not refused:
                            out.failures.append(dict(where, what="Strict writer did not refuse the record with the format exception",
                                                     kind="not-refused"))
                        out.distribution["writer:" + how] += 1
                        out.nontrivial.add((ann, col, text, how, sort))


def run(ctx):
    out = Outcome()
    out.rule = ("4 public/masked layouts (recognised from the definitions) x 6 masked columns x non-null texts (valid for the protected type or not) "
                "x 3 parse modes; Strict writer (direct and sorting) offered mutated / protected-class / generic columns; every case is non-trivial")
    parse_cases(ctx, out)
    writer_cases(ctx, out)
    return out


def search(ctx):
    return run(ctx)

