"""C05 - public and masked schemes never let germline information through."""
import io
import json

from .. import colcases, impl
from ..common import exc_name, float_table, has_unmodelled, is_model_text
from ..runner import Outcome

LEVEL = "proof"
ASSUMPTIONS = ["non-strict writers emit what they are given by design and are outside the guarantee (property text)"]
GERMLINE = ["Match_Norm_Seq_Allele1", "Match_Norm_Seq_Allele2", "Match_Norm_Validation_Allele1",
            "Match_Norm_Validation_Allele2", "n_ref_count", "n_alt_count"]
VCF_ONLY = ["vcf_region", "vcf_info", "vcf_format", "vcf_tumor_gt", "vcf_normal_gt"]
MODES = ["Strict", "Lenient", "Silent"]


def masked_layouts():
    """Public/masked layouts, recognised from the definitions (a definition that redefines
    columns with RequireNullValue), not from a hard-coded list."""
    if _LAYOUTS:
        return _LAYOUTS[0]
    from ..gen import extract_schemes
    out = {}
    for d in extract_schemes():
        cols = [c for c, t in d["columns"] if t == "RequireNullValue"]
        if cols:
            out[d["annotation"]] = cols
    _LAYOUTS.append(out)
    return out


_LAYOUTS = []     # the definitions are read once per process


def offending_texts(rng):
    return ["A", "ACGT", "-", "T", "0", "1", "17", "N", "acgt", "x", " ", "None", "Null", "-1", "1.5", "A;C",
            "TTTTTTTTTTTTTTTT", "ACGTACGTAC", str(rng.randrange(2, 10**6))]


def prime_other_layouts(col, text):
    """History (round 8): the same text is first built and validated under the class every OTHER layout gives this column
    (the protected / basic twin: same class __name__, no null requirement), in this process - a verdict remembered per
    class name or per text must not reach the masked class.  Nothing is judged here."""
    try:
        from maflib.scheme_factory import all_schemes
        seen = set()
        for sch_cls in all_schemes():
            try:
                cls = sch_cls().column_class(col)
            except Exception:  # noqa
                continue
            if cls is None or id(cls) in seen:
                continue
            seen.add(id(cls))
            try:
                c = cls.build(col, text)
                c.validate()
                str(c)
            except Exception:  # noqa
                pass
    except Exception:  # noqa
        pass


def eval_parse(ann, col, text, mode, line):
    """One line with a non-null germline field parsed in one mode on the implementation + the property's oracle.
    -> {"failures": [...], "counted": the case reached the end of the oracle, "account": what the implementation returned}"""
    from maflib.record import MafRecord
    sch = impl.scheme_by_annotation(ann)
    names = sch.column_names()
    k = names.index(col)
    e = {"failures": [], "counted": True}
    fails = e["failures"]
    try:
        rec = MafRecord.from_line(line, scheme=sch, line_number=5, validation_stringency=impl.MODES[mode])
    except Exception as x:  # noqa
        rec, exc = None, x
    where = {"scheme": ann, "column": col, "text": text, "mode": mode, "line": line}
    if mode == "Strict":
        e["account"] = "returned a record" if rec is not None else "raised %s" % exc_name(exc)
        if rec is not None or not exc_name(exc).startswith("MafFormatException"):
            fails.append(dict(where, what="Strict parsing accepted a non-null germline field",
                              kind="strict-accepts"))
    else:
        if rec is None:
            e["account"] = "raised %s" % exc_name(exc)
            fails.append(dict(where, what="non-strict parsing raised", kind="exception", got=exc_name(exc)))
            e["counted"] = False
            return e
        exposed = []
        try:
            if rec.value(col) is not None:
                exposed.append("value()")
        except Exception:  # noqa
            pass
        slots = rec._MafRecord__columns_list
        if k < len(slots) and slots[k] is not None:
            exposed.append("record[%d]" % k)
        s = str(rec).split("\t")
        if k < len(s) and s[k] == text and text != "None":  # an empty slot prints as "None"
            exposed.append("str(record)")
        if exposed:
            fails.append(dict(where, what="parsed record exposes the offending germline value via %s" % exposed,
                              kind="exposed"))
        if not rec.validation_errors:
            fails.append(dict(where, what="non-null germline field produced no validation error", kind="no-error"))
        e["account"] = "record with %d validation error(s); field %d (%s) exposed via %s; printed as %r" % (
            len(rec.validation_errors), k, col, exposed or "nothing", s[k] if k < len(s) else None)
    return e


def eval_vcf(ann):
    """protected-only VCF columns are absent from a public layout"""
    names = impl.scheme_by_annotation(ann).column_names()
    present = [c for c in VCF_ONLY if c in names]
    if present:
        return [{"what": "protected-only VCF columns present in a public layout", "kind": "vcf",
                 "scheme": ann, "columns": present}]
    return []


def compare_model(ctx, reqs):
    """rec.from_line requests on the model and the implementation -> (dontcare, disagreements, [(request, model, impl)])."""
    mo = ctx.driver.run(reqs)
    dontcare, dis, triples = 0, [], []
    for r, m in zip(reqs, mo):
        i = impl.run(r)
        triples.append((r, m, i))
        if not has_unmodelled(m) and m != i:
            fields = r["line"].split("\t")
            if any(colcases.dontcare_numeric(p) or colcases.dontcare_uuid(p) for f in fields for p in [f] + f.split(";")):
                dontcare += 1
            else:
                dis.append({"op": "rec.from_line", "request": {k: r[k] for k in ("scheme", "mode", "line")},
                            "model": m.get("exc") or m["rec"]["errors"], "impl": i.get("exc") or i["rec"]["errors"]})
    return dontcare, dis, triples


def parse_cases(ctx, out):
    rng = ctx.rng("parse")
    layouts = masked_layouts()
    reqs = []
    for ann, cols in sorted(layouts.items()):
        sch = impl.scheme_by_annotation(ann)
        names = sch.column_names()
        for col in cols:
            k = names.index(col)
            for text in offending_texts(rng):
                fields = colcases.valid_fields(ann, rng)
                for c2 in cols:
                    fields[names.index(c2)] = ""
                fields[k] = text
                line = "\t".join(fields)
                for mode in MODES:
                    out.evaluations += 1
                    reqs.append(colcases.from_line_req(ann, line, mode, 5))
                    if rng.random() < 0.5:
                        prime_other_layouts(col, text)
                        out.distribution["parse after the same text was validated under the other layouts' classes"] += 1
                    e = eval_parse(ann, col, text, mode, line)
                    out.failures += e["failures"]
                    if not e["counted"]:
                        continue
                    out.distribution["strict:refused" if mode == "Strict" else "nonstrict:hidden"] += 1
                    out.nontrivial.add((ann, col, text))
                if len(out.samples) < 3:
                    out.sample({"scheme": ann, "column": col, "text": text, "modes": MODES})
        # several germline columns non-null in one line (adjacent ones included): each of them is hidden / refused
        for _ in range(3):
            fields = colcases.valid_fields(ann, rng)
            chosen = list(cols) if rng.random() < 0.5 else rng.sample(list(cols), rng.randrange(2, len(cols) + 1))
            for c2 in cols:
                fields[names.index(c2)] = rng.choice(["A", "ACGT", "7", "T", "12"]) if c2 in chosen else ""
            line = "\t".join(fields)
            for col in chosen:
                text = fields[names.index(col)]
                for mode in MODES:
                    out.evaluations += 1
                    e = eval_parse(ann, col, text, mode, line)
                    out.failures += e["failures"]
                    if e["counted"]:
                        out.distribution["several germline fields in one line"] += 1
                        out.nontrivial.add((ann, col, text, "multi", tuple(sorted(chosen))))
        # a line that carries a germline value AND has a deviating field count (a trailing tab, one field too many, the
        # last field cut off): still refused in Strict mode, still nothing exposed otherwise
        for _ in range(2):
            col = rng.choice(list(cols))
            k = names.index(col)
            fields = colcases.valid_fields(ann, rng)
            for c2 in cols:
                fields[names.index(c2)] = ""
            fields[k] = text = rng.choice(["A", "ACGT", "17", "T"])
            shape = rng.choice(["trailing-tab", "extra-field", "cut"] if k < len(fields) - 1 else ["trailing-tab", "extra-field"])
            line = "\t".join(fields[:-1] if shape == "cut" else fields) + {"trailing-tab": "\t", "extra-field": "\tx", "cut": ""}[shape]
            for mode in MODES:
                out.evaluations += 1
                reqs.append(colcases.from_line_req(ann, line, mode, 5))
                e = eval_parse(ann, col, text, mode, line)
                out.failures += e["failures"]
                if e["counted"]:
                    out.distribution["germline value in a line with a deviating field count (%s)" % shape] += 1
                    out.nontrivial.add((ann, col, text, shape))
        # protected-only VCF columns are absent from public layouts
        if ann.endswith("-public"):
            out.evaluations += 1
            out.failures += eval_vcf(ann)
    dontcare, dis, _t = compare_model(ctx, reqs)
    out.dontcare += dontcare
    out.disagreements += dis


PROTECTED_OF = {"gdc-1.0.0-public": "gdc-1.0.0-protected", "gdc-1.0.1-public": "gdc-1.0.1-protected",
                "gdc-1.0.0-aliquot-merged-masked": "gdc-1.0.0-aliquot-merged",
                "gdc-2.0.0-aliquot-merged-masked": "gdc-2.0.0-aliquot-merged"}


def masked_clean_fields(ann, fields):
    """The fields of a conforming line with every masked column set to its null spelling."""
    names = impl.scheme_by_annotation(ann).column_names()
    for c2 in masked_layouts()[ann]:
        fields[names.index(c2)] = ""
    return fields


def api_records(ann, col, value_text, clean_line):
    """Records carrying a non-null germline value, built in the ways the API allows, from the clean line."""
    from maflib.record import MafRecord
    from maflib.validation import ValidationStringency as VS
    sch = impl.scheme_by_annotation(ann)
    names = sch.column_names()
    base_ann = PROTECTED_OF.get(ann)
    clean = MafRecord.from_line(clean_line, scheme=sch, validation_stringency=VS.Silent)
    k = names.index(col)
    out = []
    # (a) post-hoc mutation of the masked column of a cleanly parsed record
    r = MafRecord.from_line(clean_line, scheme=sch, validation_stringency=VS.Silent)
    if r[col] is not None:
        base_cls = [c for c in type(r[col]).__mro__ if c.__name__ == type(r[col]).__name__][-1]
        try:
            v = base_cls.__build__(value_text)
        except Exception:  # noqa
            v = value_text
        r[col].value = v
        out.append(("mutated-value", r))
    # (b) the column replaced by one of the protected (unmasked) class
    if base_ann:
        bsch = impl.scheme_by_annotation(base_ann)
        try:
            bc = bsch.column_class(col).build(name=col, value=value_text, column_index=k)
            r = MafRecord.from_line(clean_line, scheme=sch, validation_stringency=VS.Silent)
            r[col] = bc
            out.append(("protected-class-column", r))
        except Exception:  # noqa
            pass
    # (c) a generic untyped column
    from maflib.column import MafColumnRecord
    r = MafRecord.from_line(clean_line, scheme=sch, validation_stringency=VS.Silent)
    r[col] = MafColumnRecord(col, value_text, column_index=k)
    out.append(("generic-column", r))
    # (d) a column of another library class holding THAT class's null value (an empty column carried over from a record of
    # another layout): whatever is accepted, the germline field of the file is the null spelling, and some classes print
    # their null as something else (EntrezGeneId: 0)
    import maflib.column_types as CT
    for cname in ("EntrezGeneId", "NullableIntegerColumn", "NullableYesOrNo", "NullableUUIDColumn", "SequenceOfStrings", "NullableFloatColumn"):
        cls = getattr(CT, cname, None)
        if cls is None:
            continue
        try:
            nulls = list(cls.__nullable_dict__().values())
            fc = cls(col, nulls[0] if nulls else None, k)
        except Exception:  # noqa
            continue
        r = MafRecord.from_line(clean_line, scheme=sch, validation_stringency=VS.Silent)
        try:
            r[col] = fc
        except Exception:  # noqa
            continue
        out.append(("null-of-foreign-class:" + cname, r))
    return clean, out


def eval_writer(ann, col, text, clean_line):
    """The Strict writer (direct, then sorting) offered the clean record followed by each API-built record carrying
    `text` in the masked column `col` (the record objects are shared by the variants, as a caller would reuse them).
    -> [{"how", "sorting", "failures", "account"}, ...] in execution order"""
    from maflib.header import MafHeader
    from maflib.writer import MafWriter
    from maflib.validation import ValidationStringency as VS
    from maflib.sort_order import Coordinate
    sch = impl.scheme_by_annotation(ann)
    names = sch.column_names()
    clean, offered = api_records(ann, col, text, clean_line)
    results = []
    for how, rec in offered:
        for sort in (False, True):
            h = MafHeader.from_defaults(version=sch.version(), annotation=ann,
                                        sort_order=Coordinate() if sort else None)
            buf = io.StringIO()
            buf.close = lambda: None
            w = MafWriter.from_fd(buf, h, validation_stringency=VS.Strict, assume_sorted=not sort)
            refused = False
            kind = None
            try:
                w += clean
                w += rec
            except Exception as e:  # noqa
                refused = exc_name(e).startswith("MafFormatException")
                kind = exc_name(e)
            try:
                w.close()
            except Exception:  # noqa
                pass
            body = [ln for ln in buf.getvalue().split("\n") if ln and not ln.startswith("#")][1:]
            leaked = [ln for ln in body if ln and len(ln.split("\t")) > names.index(col)
                      and ln.split("\t")[names.index(col)] not in ("",)]
            where = {"scheme": ann, "column": col, "text": text, "how": how, "sorting": sort, "clean_line": clean_line}
            fails = []
            if leaked:
                fails.append(dict(where, what="Strict writer emitted a non-null germline field", kind="leak",
                                  got=leaked[0].split("\t")[names.index(col)]))
            elif not refused and not how.startswith("null-of-foreign-class"):
                # (a null value of another class may be taken or refused: only what reaches the file is judged)
                fails.append(dict(where, what="Strict writer did not refuse the record with the format exception",
                                  kind="not-refused"))
            results.append({"how": how, "sorting": sort, "failures": fails,
                            "account": "%s; %d data line(s) written, %d with a non-null %s" % (
                                ("raised %s" % kind) if kind else "accepted both records", len(body), len(leaked), col)})
    return results


def eval_repointed_writer(ann, col, text, clean_line):
    """A header first resolved for the UNMASKED twin layout (its scheme looked up), then re-pointed IN PLACE at the
    public / masked layout `ann` (header[annotation.spec].value = ...), then given to a Strict writer, which is offered a
    record parsed under the unmasked twin carrying `text` in the germline column `col`."""
    from maflib.header import MafHeader
    from maflib.record import MafRecord
    from maflib.writer import MafWriter
    from maflib.validation import ValidationStringency as VS
    twin = PROTECTED_OF.get(ann)
    if not twin:
        return []
    sch, tsch = impl.scheme_by_annotation(ann), impl.scheme_by_annotation(twin)
    names = sch.column_names()
    if tsch.column_names()[:len(names)] != names and set(names) - set(tsch.column_names()):
        return []
    tnames = tsch.column_names()
    fields = dict(zip(names, clean_line.split("\t")))
    fields[col] = text
    # the twin may have extra (VCF) columns: null / plain values for those
    tline = "\t".join(fields.get(n, "") for n in tnames)
    results = []
    for how in ("from_lines", "from_defaults"):
        try:
            if how == "from_lines":
                h = MafHeader.from_lines(["#version " + tsch.version(), "#annotation.spec " + twin], validation_stringency=VS.Silent)
            else:
                h = MafHeader.from_defaults(version=tsch.version(), annotation=twin)
            h.scheme()                                           # the caller looks at the scheme once
            h[MafHeader.AnnotationSpecKey].value = ann           # ... and re-points the header in place
            rec = MafRecord.from_line(tline, scheme=tsch, validation_stringency=VS.Silent)
            buf = io.StringIO()
            buf.close = lambda: None
            w = MafWriter.from_fd(buf, h, validation_stringency=VS.Strict)
            try:
                w += rec
            except Exception:  # noqa
                pass
            try:
                w.close()
            except Exception:  # noqa
                pass
        except Exception as e:  # noqa
            results.append({"how": how, "failures": [], "account": "not applicable (%s)" % exc_name(e)})
            continue
        lines = buf.getvalue().split("\n")
        declared = [l for l in lines if l.startswith("#annotation.spec")]
        body = [ln for ln in lines if ln and not ln.startswith("#")]
        fails = []
        if declared == ["#annotation.spec " + ann] and len(body) >= 2:
            hdr_cols = body[0].split("\t")
            for ln in body[1:]:
                cells = dict(zip(hdr_cols, ln.split("\t")))
                if cells.get(col, "") != "":
                    fails.append({"scheme": ann, "column": col, "text": text, "how": "header re-pointed in place (%s)" % how, "clean_line": clean_line,
                                  "what": "a file whose header declares %s, written by a Strict writer, contains a non-null germline field" % ann,
                                  "kind": "repointed-leak", "got": cells.get(col)})
                    break
        results.append({"how": how, "failures": fails, "account": "%d line(s) after the header" % len(body)})
    return results


def writer_cases(ctx, out):
    rng = ctx.rng("writer")
    for ann, cols in sorted(masked_layouts().items()):
        for col in cols:
            for text in ["ACGT", "17", "-", "A"]:
                clean_line = "\t".join(masked_clean_fields(ann, colcases.valid_fields(ann, rng)))
                for r in eval_writer(ann, col, text, clean_line):
                    out.evaluations += 1
                    out.failures += r["failures"]
                    out.distribution["writer:" + r["how"]] += 1
                    out.nontrivial.add((ann, col, text, r["how"], r["sorting"]))
                for r in eval_repointed_writer(ann, col, text, clean_line):
                    out.evaluations += 1
                    out.failures += r["failures"]
                    out.distribution["writer:header re-pointed in place (%s)" % r["how"]] += 1
                    out.nontrivial.add((ann, col, text, "repointed", r["how"]))


# ------------------------------------------------------------------ readers: every option that selects the scheme
# The scheme a reader works under is the one given by the caller when there is one (it overrides the header's), else the one
# the header names.  Whenever that scheme is a public / masked layout the guarantee holds, whatever the header says and by
# whichever route the reader was opened.
READER_CONFIGS = ["header-only", "explicit-equal", "explicit-sibling", "explicit-other-layout", "explicit-unknown-annotation",
                  "explicit-other-version", "explicit-no-header"]


def sibling_of(ann):
    """The un-masked layout the masked one was derived from (same column names when there is one)."""
    names = impl.scheme_by_annotation(ann).column_names()
    masked = masked_layouts()
    same = [a for a in impl.builtin_annotations() if a != ann and a not in masked and impl.scheme_by_annotation(a).column_names() == names]
    pref = PROTECTED_OF.get(ann)
    return pref if (pref in same or not same) else same[0]


def reader_config(ann, config):
    """(header lines, annotation of the scheme given to the reader or None)"""
    v = "#version gdc-1.0.0"
    if config == "header-only":
        return [v, "#annotation.spec " + ann], None
    if config == "explicit-equal":
        return [v, "#annotation.spec " + ann], ann
    if config == "explicit-sibling":
        return [v, "#annotation.spec " + (sibling_of(ann) or ann)], ann
    if config == "explicit-other-layout":
        return [v], ann
    if config == "explicit-unknown-annotation":
        return [v, "#annotation.spec no-such-layout"], ann
    if config == "explicit-other-version":
        return ["#version gdc-9.9.9", "#annotation.spec " + ann], ann
    if config == "explicit-no-header":
        return [], ann
    raise ValueError(config)


def exposures(rec, ann):
    """Ways in which a record lets a non-null germline value out: [(column, via, what)]."""
    names = impl.scheme_by_annotation(ann).column_names()
    out = []
    slots = rec._MafRecord__columns_list
    try:
        printed = str(rec).split("\t")
    except Exception:  # noqa
        printed = []
    for col in masked_layouts()[ann]:
        k = names.index(col)
        try:
            v = rec.value(col)
            if v is not None:
                out.append((col, "value()", repr(v)))
        except Exception:  # noqa
            pass
        if k < len(slots) and slots[k] is not None and slots[k].value is not None:
            out.append((col, "record[%d]" % k, repr(slots[k].value)))
        if k < len(printed) and printed[k] not in ("", "None"):          # an empty slot prints as "None"
            out.append((col, "str(record)", printed[k]))
    return out


def eval_reader(ann, col, text, mode, config, route, line, tmp=None):
    """A file (one record line with `text` in the masked column) read by a reader configured by `config`
    and opened by `route`, on the implementation + the property's oracle -> {"failures", "account", "yielded"}"""
    import shutil
    import tempfile
    header, given = reader_config(ann, config)
    sch = impl.scheme_by_annotation(ann)
    lines = header + ["\t".join(sch.column_names()), line]
    own = None
    if tmp is None and route in impl.PATH_READER_ROUTES:
        own = tmp = tempfile.mkdtemp(prefix="verif_c05_")
    recs, exc, where_exc = [], None, None
    try:
        with impl.LogCapture():
            try:
                reader = impl.open_reader(route, lines, impl.MODES[mode], scheme=impl.scheme_by_annotation(given) if given else None, tmp=tmp)
            except Exception as x:  # noqa
                reader, exc, where_exc = None, x, "opening"
            if reader is not None:
                try:
                    for rec in reader:
                        recs.append(rec)
                except Exception as x:  # noqa
                    exc, where_exc = x, "iterating"
                try:
                    reader.close()
                except Exception:  # noqa
                    pass
    finally:
        if own:
            shutil.rmtree(own, ignore_errors=True)
    where = {"scheme": ann, "column": col, "text": text, "mode": mode, "config": config, "route": route, "line": line}
    fails = []
    account = "%d record(s) yielded%s" % (len(recs), "" if exc is None else "; %s raised %s" % (where_exc, exc_name(exc)))
    if mode == "Strict":
        if len(recs) >= 1:
            fails.append(dict(where, what="a Strict reader under a public/masked scheme yielded a record for a line with a non-null germline field",
                              kind="strict-accepts", exposed=[list(x) for x in exposures(recs[0], ann)]))
    for n, rec in enumerate(recs):
        ex = exposures(rec, ann)
        if ex and mode != "Strict":
            fails.append(dict(where, what="a record read under a public/masked scheme exposes a non-null germline value via %s" % sorted({v for _c, v, _w in ex}),
                              kind="exposed", record=n, exposed=[list(x) for x in ex]))
        account += "; record %d exposes %s" % (n, [list(x) for x in ex] or "nothing")
    return {"failures": fails, "account": account, "yielded": len(recs)}


def reader_model_req(ann, mode, config, line):
    header, given = reader_config(ann, config)
    lines = header + ["\t".join(impl.scheme_by_annotation(ann).column_names()), line]
    r = {"op": "reader.run", "lines": lines, "mode": mode, "floats": float_table([p for l in lines for p in l.split("\t")])}
    if given:
        r["given"] = given
    return r


def compare_reader_model(ctx, reqs):
    mo = ctx.driver.run(reqs)
    dontcare, dis = 0, []
    for r, m in zip(reqs, mo):
        if has_unmodelled(m):
            continue
        i = impl.run(r)
        if m != i:
            fields = [f for l in r["lines"] for f in l.split("\t")]
            if any(colcases.dontcare_numeric(p) or colcases.dontcare_uuid(p) for f in fields for p in [f] + f.split(";")):
                dontcare += 1
            else:
                dis.append({"op": "reader.run", "mode": r["mode"], "given": r.get("given"), "header": [l for l in r["lines"] if l.startswith("#")],
                            "differs": [k for k in sorted(set(m) | set(i)) if m.get(k) != i.get(k)], "line": r["lines"][-1]})
    return dontcare, dis


def reader_cases(ctx, out):
    import shutil
    import tempfile
    rng = ctx.rng("reader-configs")
    tmp = tempfile.mkdtemp(prefix="verif_c05_")
    reqs = []
    try:
        for ann, cols in sorted(masked_layouts().items()):
            names = impl.scheme_by_annotation(ann).column_names()
            for config in READER_CONFIGS:
                for mode in MODES:
                    # the columns and the texts are covered one by one on the parse path; here it is the choice of the scheme
                    for col in rng.sample(cols, ctx.scale(2, len(cols))):
                        text = rng.choice(["ACGT", "17", "-", "A", "0", "T", str(rng.randrange(2, 10**6))])
                        fields = masked_clean_fields(ann, colcases.valid_fields(ann, rng))
                        fields[names.index(col)] = text
                        line = "\t".join(fields)
                        route = "list" if rng.random() < 0.5 else rng.choice(impl.READER_ROUTES)
                        out.evaluations += 1
                        e = eval_reader(ann, col, text, mode, config, route, line, tmp)
                        out.failures += e["failures"]
                        out.distribution["reader:%s:%s" % (config, "strict-rejected" if mode == "Strict" else "nonstrict-hidden")] += 1
                        out.distribution["reader-route:" + route] += 1
                        out.nontrivial.add((ann, col, text, config, mode, route))
                        if route == "list" and rng.random() < ctx.scale(0.5, 1.0):
                            reqs.append(reader_model_req(ann, mode, config, line))
                        if len(out.samples) < 5 and config != "header-only":
                            out.sample({"scheme": ann, "column": col, "text": text, "reader configuration": config, "mode": mode, "route": route})
    finally:
        shutil.rmtree(tmp, ignore_errors=True)
    dontcare, dis = compare_reader_model(ctx, reqs)
    out.dontcare += dontcare
    out.disagreements += dis


# ------------------------------------------------------------------ Strict writers: histories and line framing
# "No file produced by a Strict writer under such a scheme contains a non-null germline field, however the records offered to it
# were built": live record objects (parsed / API-built / validated) into which germline information gets (a) as a value of a
# masked column - assigned, or carried by a replacement column of the protected / generic class - or (b) as text that breaks the
# line framing - a TAB / CR / LF inside a text value or inside an ELEMENT of a list-valued column that precedes a germline
# column, so that the following fields shift into germline positions; before the first offer, after an accepted offer and
# re-offered, or after the offer only; direct and sorting writers opened by every route.
# Oracle: an offer of a record that holds a non-null value in a masked column (looked up by name or at the column's position)
# is refused with the format exception; no record line of the produced file has anything but "" at a germline position.
HISTORY_PATTERNS = ["mutate-then-offer"] * 4 + ["offer-mutate-reoffer"] * 3 + ["offer-mutate"] * 2 + ["refuse-repair-reoffer"]
HISTORY_CHANNELS = ["handle", "handle", "handle", "ctor", "plain", "gz"]


def clean_record(ann, rng):
    """(column specs, line) of a conforming record with every masked column null, or None when the implementation refuses it."""
    from maflib.record import MafRecord
    from maflib.validation import ValidationStringency as VS
    from ..common import enc_val
    sch = impl.scheme_by_annotation(ann)
    line = "\t".join(masked_clean_fields(ann, colcases.valid_fields(ann, rng)))
    try:
        rec = MafRecord.from_line(line, scheme=sch, validation_stringency=VS.Strict)
    except Exception:  # noqa
        return None
    cols = [{"scheme": ann, "col": n, "key": n, "value": enc_val(rec[n].value), "index": k} for k, n in enumerate(sch.column_names())]
    return cols, line


def germline_payload(rng, ann, cols, rid):
    """The ops that put germline information into the live record `rid` -> (ops, family, ops that take it out again or None)."""
    names = [c["key"] for c in cols]
    pos = sorted(names.index(c) for c in masked_layouts()[ann])
    fam = rng.choice(["separator"] * 5 + ["value"] * 3 + ["replace-protected", "replace-generic", "rekey"])
    if fam == "separator":
        cand = [j for j in range(pos[-1]) if j not in pos and cols[j]["value"].get("t") in ("list", "str", "none")]
        lists = [j for j in cand if cols[j]["value"].get("t") == "list"]
        p = rng.choice(lists if (lists and rng.random() < 0.6) else cand)
        m = rng.choice([q - p for q in pos if q > p] + [rng.randrange(1, pos[-1] - p + 1)])
        sep = rng.choice(["\t"] * 6 + ["\n", "\r", "\r\n"])
        inj = {"t": "str", "v": sep.join([rng.choice(["G", "x", "7", "byFrequency"])] * (m + 1))}
        cur = cols[p]["value"]
        if cur.get("t") == "list":
            f = rng.choice(["list.append", "list.insert", "list.extend", "value-list", "value-tuple"] + (["list.setitem"] if cur["v"] else []))
            if f == "list.extend":
                op = {"field": f, "to": {"t": "list", "v": [inj]}}
            elif f == "value-list":
                op = {"field": "value", "to": {"t": "list", "v": list(cur["v"]) + [inj]}}
            elif f == "value-tuple":
                op = {"field": "value", "to": {"t": "tuple", "v": [inj]}}
            else:
                op = {"field": f, "to": inj, "at": rng.randrange(len(cur["v"])) if (f == "list.setitem") else 0}
            fam = "separator-in-list-element"
        else:
            op = {"field": "value", "to": inj}
            fam = "separator-in-text"
        return [dict({"k": "mut", "id": rid, "i": p}, **op)], fam, [{"k": "mut", "id": rid, "i": p, "field": "value", "to": cur}]
    col = rng.choice(masked_layouts()[ann])
    k = names.index(col)
    count = col.startswith("n_")
    typed = {"t": "int", "v": str(rng.choice([0, 17, 31]))} if count else {"t": "str", "v": rng.choice(["ACGT", "A", "-", "T"])}
    back = [{"k": "mut", "id": rid, "i": k, "field": "value", "to": {"t": "none"}}]
    if fam == "value":
        v = rng.choice([typed, typed, {"t": "str", "v": "17"}, {"t": "int", "v": "0"}, {"t": "float", "v": "1.5"}, {"t": "bool", "v": True},
                        {"t": "list", "v": [{"t": "str", "v": "A"}]}, {"t": "str", "v": " "}])
        return [{"k": "mut", "id": rid, "i": k, "field": "value", "to": v}], fam, back
    if fam == "replace-protected" and PROTECTED_OF.get(ann):
        return [{"k": "replace", "id": rid, "col": {"scheme": PROTECTED_OF[ann], "col": col, "key": col, "value": typed, "index": rng.choice([k, None])}}], fam, None
    if fam == "replace-generic" or fam == "replace-protected":
        return [{"k": "replace", "id": rid, "col": {"cls": "MafColumnRecord", "key": col, "value": {"t": "str", "v": typed["v"]}, "index": rng.choice([k, None])}}], "replace-generic", None
    # rekey: another column object of the record, holding a value, is given the masked column's name and position
    donors = [j for j, c in enumerate(cols) if j not in pos and c["value"].get("t") == ("int" if count else "str")]
    j = rng.choice(donors) if donors else (k + 1) % len(cols)
    return [{"k": "mut", "id": rid, "i": j, "field": "key", "to": col}, {"k": "mut", "id": rid, "i": j, "field": "index", "to": k}], "rekey", None


def gen_germline_history(rng, ann, pool):
    """One Strict writer session under the masked layout `ann` over live record objects -> the writer.history request
    (it is also the replayable input), or None when no conforming record could be made.  `pool`: the conforming records made so far."""
    if len(pool) < 4:
        pool.append(clean_record(ann, rng))
    a, b = rng.choice(pool), rng.choice(pool)
    if a is None or b is None:
        return None
    sort = rng.random() < 0.5
    how = rng.choice(["parse", "api", "api-validated"])
    new0 = {"k": "new", "id": 0, "how": "parse", "cols": a[0], "line": a[1], "scheme": ann, "mode": "Strict"}
    new1 = {"k": "new", "id": 1, "how": "parse" if how == "parse" else "api", "cols": b[0]}
    if how == "parse":
        new1.update({"line": b[1], "scheme": ann, "mode": "Strict"})
    elif how == "api-validated":
        new1["validate"] = ann
    payload, fam, back = germline_payload(rng, ann, b[0], 1)
    if how == "api" and fam.startswith("separator") and payload[0]["field"] == "value" and rng.random() < 0.4:
        # the value is there from construction on
        new1["cols"] = [dict(c, value=payload[0]["to"]) if j == payload[0]["i"] else c for j, c in enumerate(b[0])]
        payload, fam = [], fam + ":constructed"
    pat = rng.choice(HISTORY_PATTERNS)
    if pat == "refuse-repair-reoffer" and back is None:
        pat = "mutate-then-offer"
    wr = lambda rid: {"k": "write", "id": rid, "call": rng.choice(["iadd", "iadd", "write"])}  # noqa: E731
    seq = [new1]
    if pat == "mutate-then-offer":
        if rng.random() < 0.4:
            seq.append({"k": "validate", "id": 1, "scheme": ann})
        seq += payload + [wr(1)]
    elif pat == "offer-mutate-reoffer":
        seq += [wr(1)] + payload + [wr(1)]
    elif pat == "offer-mutate":
        seq += [wr(1)] + payload
    else:
        seq += payload + [wr(1)] + back + [wr(1)]
    first = [new0, wr(0)]
    if fam == "rekey" or rng.random() < 0.6:
        ops = first + seq             # the conforming record goes first
    else:
        ops = []
        while first or seq:           # interleaved
            q = rng.choice([q for q in (first, seq) if q])
            ops.append(q.pop(0))
    ops.append({"k": "close"})
    return {"op": "writer.history", "ann": ann, "header_lines": ["#version gdc-1.0.0", "#annotation.spec " + ann] + (["#sort.order Coordinate"] if sort else []),
            "mode": "Strict", "assume_sorted": not sort, "channel": rng.choice(HISTORY_CHANNELS), "ops": ops,
            "watch": list(masked_layouts()[ann]), "watch_scheme": ann, "family": fam, "pattern": "%s:%s" % (how, pat)}


def file_record_lines(text):
    lines = text.split("\n")
    if lines and lines[-1] == "":
        lines.pop()
    k = 0
    while k < len(lines) and lines[k].startswith("#"):
        k += 1
    return lines[k + 1:]


def eval_germline_history(req):
    """Run one history on the implementation and apply the oracle (shared by run and replay_case)
    -> (implementation's answer, failures, [(step, carried germline values, refused)] for the offers)"""
    i = impl.run(req)
    ann = req["ann"]
    names = impl.scheme_by_annotation(ann).column_names()
    base = {"scheme": ann, "family": req.get("family"), "pattern": req.get("pattern"), "sorting": not req["assume_sorted"], "channel": req["channel"], "history": req}
    fails, offers = [], []
    if "init_exc" in i:
        return i, [dict(base, what="Strict writer could not be opened for a public/masked layout", kind="init", got=i["init_exc"])], offers
    for k, (o, st) in enumerate(zip(req["ops"], i["steps"])):
        if o["k"] != "write":
            continue
        carried = sorted({(c, json.dumps(v, sort_keys=True)) for c, vals in (st.get("snap") or {}).get("watch", {}).items() for v in vals if v != {"t": "none"}})
        refused = st["exc"] is not None and st["exc"].startswith("MafFormatException")
        offers.append((k, carried, refused, st["exc"]))
        if carried and not refused:
            fails.append(dict(base, step=k, what="a record holding a non-null value in a masked column was %s by the Strict writer" % (
                "not refused" if st["exc"] is None else "refused with %s, not the format exception" % st["exc"]),
                kind="not-refused", carried=[[c, json.loads(v)] for c, v in carried]))
    text = i["steps"][-1]["out"] if i["steps"] else i["init_out"]
    leaks = []
    for n, ln in enumerate(file_record_lines(text)):
        fs = ln.split("\t")
        for c in masked_layouts()[ann]:
            p = names.index(c)
            if p < len(fs) and fs[p] != "":
                leaks.append([n, c, fs[p][:40]])
    if leaks:
        fails.append(dict(base, what="a file produced by a Strict writer under a public/masked scheme holds a non-null germline field", kind="leak",
                          leaks=leaks[:6], got=leaks[0][2]))
    return i, fails, offers


def history_cases(ctx, out):
    rng = ctx.rng("writer-histories")
    reqs = []
    for ann in sorted(masked_layouts()):
        pool = []
        for _ in range(ctx.scale(20, 200)):
            r = gen_germline_history(rng, ann, pool)
            if r is not None:
                reqs.append(r)
    mreqs = [impl.history_model_request(r) for r in reqs]
    mo = iter(ctx.driver.run([m for m in mreqs if m is not None]))
    for r, mr in zip(reqs, mreqs):
        out.evaluations += 1
        i, fails, offers = eval_germline_history(r)
        out.failures += fails
        if mr is None:
            out.unmodelled += 1
        else:
            m = next(mo)
            if has_unmodelled(m):
                out.unmodelled += 1
            else:
                d = impl.history_model_differs(r, m, i)
                if d:
                    out.disagreements.append(dict(d, scheme=r["ann"], family=r["family"], pattern=r["pattern"]))
        out.distribution["history:" + r["family"]] += 1
        out.distribution["history-pattern:" + r["pattern"].split(":")[1]] += 1
        out.distribution["history-channel:%s:%s" % (r["channel"], "direct" if r["assume_sorted"] else "sorting")] += 1
        for _k, carried, refused, _e in offers:
            out.distribution["history-offer:%s:%s" % ("germline-value" if carried else "no-germline-value", "refused" if refused else "accepted")] += 1
        out.nontrivial.add(json.dumps([r["ann"], r["family"], r["pattern"], r["channel"], r["assume_sorted"],
                                       [o for o in r["ops"] if o["k"] in ("mut", "replace")]], sort_keys=True))
        if len(out.samples) < 8:
            out.sample({"history": r["pattern"], "germline information via": r["family"], "scheme": r["ann"], "sorting": not r["assume_sorted"],
                        "channel": r["channel"], "excs": [s["exc"] for s in i.get("steps", [])]})


def run(ctx):
    out = Outcome()
    out.rule = ("4 public/masked layouts (recognised from the definitions) x 6 masked columns x non-null texts (valid for the protected type or not) "
                "x 3 parse modes; Strict writer (direct and sorting) offered mutated / protected-class / generic columns; every case is non-trivial.  "
                "Readers: a file with a non-null germline field read under a masked layout selected by the header only / by an explicit scheme equal to the header's, "
                "over a header naming the un-masked sibling, another layout, an unknown annotation, another version, or no header at all, x 3 modes, opened as lines / "
                "iterator / handle / path / gzip path.  Writer histories: live record objects (parsed / API-built / validated) that receive germline information as a value, "
                "a replacement column, a re-keyed column, or as TAB/CR/LF inside a text value or a list ELEMENT ahead of a germline column, before the offer, after an accepted "
                "offer and re-offered, or after the offer only; direct and sorting writers by from_fd / constructor / from_path / gzip")
    parse_cases(ctx, out)
    writer_cases(ctx, out)
    reader_cases(ctx, out)
    history_cases(ctx, out)
    return out


def search(ctx):
    return run(ctx)


# ------------------------------------------------------------------ replay
def _short(x, n=300):
    import json
    t = x if isinstance(x, str) else json.dumps(x, default=str, ensure_ascii=True)
    return t if len(t) <= n else t[:n] + "... (%d chars)" % len(t)


def replay_case(ctx, failure):
    """Re-evaluate the stored input on the current implementation; the failures it produces now
    ([] = nothing germline gets through on it; None = the stored failure lacks the inputs: regenerate from the seed)."""
    f = failure
    if f.get("kind") == "vcf":
        ann = f.get("scheme")
        if not ann or impl.scheme_by_annotation(ann) is None:
            return None
        fails = eval_vcf(ann)
        print("replay C05 layout: column names of %s; protected-only VCF columns present: %s"
              % (ann, fails[0]["columns"] if fails else "none"))
        return fails
    if isinstance(f.get("history"), dict):
        return replay_history(ctx, f)
    if not all(k in f for k in ("scheme", "column", "text")):
        return None
    if "config" in f:
        return replay_reader(ctx, f)
    ann, col, text = f["scheme"], f["column"], f["text"]
    sch = impl.scheme_by_annotation(ann)
    if sch is None or col not in sch.column_names() or ann not in masked_layouts():
        return None
    if f.get("kind") == "repointed-leak" and "clean_line" in f:
        results = eval_repointed_writer(ann, col, text, f["clean_line"])
        print("replay C05 writer: a header resolved for the unmasked twin of %s, re-pointed in place at %s, given to a Strict MafWriter that is offered "
              "a record carrying %r in %s" % (ann, ann, text, col))
        fails = [x for r in results for x in r["failures"]]
        for r in results:
            print("  %s: %s; %d failure(s)" % (r["how"], r["account"], len(r["failures"])))
        return fails
    if "how" in f:
        if "clean_line" not in f or "sorting" not in f:
            return None
        results = eval_writer(ann, col, text, f["clean_line"])
        print("replay C05 writer: Strict MafWriter for %s offered the conforming record (all germline columns null) and then records "
              "carrying %r in %s; the run's sequence for this line (3 ways of building the record x direct/sorting) is repeated, "
              "the stored variant is %s, %s (implementation only)" % (ann, text, col, f["how"], "sorting" if f["sorting"] else "direct"))
        print("  conforming line: %s" % _short(f["clean_line"]))
        fails = []
        for r in results:
            mine = r["how"] == f["how"] and r["sorting"] == f["sorting"]
            print("  %s %-22s %-7s: %s" % ("*" if mine else " ", r["how"], "sorting" if r["sorting"] else "direct", r["account"]))
            if mine:
                fails += r["failures"]
        print("  oracle on the stored variant: %d failure(s)%s" % (len(fails), "".join("\n    - " + x["what"] for x in fails)))
        return fails
    if "mode" in f and "line" in f:
        e = eval_parse(ann, col, text, f["mode"], f["line"])
        print("replay C05 parse: MafRecord.from_line(<%d fields>, scheme=%s, line_number=5, %s) with %r in the masked column %s"
              % (len(f["line"].split("\t")), ann, f["mode"], text, col))
        print("  line: %s" % _short(f["line"]))
        print("  implementation: %s" % e["account"])
        _d, _dis, triples = compare_model(ctx, [colcases.from_line_req(ann, f["line"], f["mode"], 5)])
        for r, m, i in triples:
            k = sch.column_names().index(col)
            ms = m.get("exc") or {"errors": len(m["rec"]["errors"]), "slot": m["rec"]["slots"][k] if k < len(m["rec"]["slots"]) else None}
            print("  model: %s (%s)" % (_short(ms), "outside the model" if has_unmodelled(m) else "agrees" if m == i else "differs"))
        print("  oracle: %d failure(s)%s" % (len(e["failures"]), "".join("\n    - " + x["what"] for x in e["failures"])))
        return e["failures"]
    return None



def replay_reader(ctx, f):
    if not all(k in f for k in ("mode", "config", "route", "line")) or f["config"] not in READER_CONFIGS:
        return None
    ann, col, text = f["scheme"], f["column"], f["text"]
    if ann not in masked_layouts() or f["route"] not in impl.READER_ROUTES:
        return None
    header, given = reader_config(ann, f["config"])
    print("replay C05 reader: a file with header %s, the column names of %s and one record line with %r in the masked column %s,"
          % (header, ann, text, col))
    print("  read by MafReader (route %r, %s, scheme=%s) - the scheme in force is %s (%s)"
          % (f["route"], f["mode"], given or "None", ann, "given by the caller: it overrides the header's" if given else "named by the header"))
    print("  line: %s" % _short(f["line"]))
    e = eval_reader(ann, col, text, f["mode"], f["config"], f["route"], f["line"])
    print("  implementation: %s" % e["account"])
    try:
        r = reader_model_req(ann, f["mode"], f["config"], f["line"])
        m = ctx.driver.run([r])[0]
        i = impl.run(r)
        print("  model (lines route): %s" % ("outside the model" if has_unmodelled(m) else "agrees with the implementation" if m == i else
              "differs in %s; model: init_exc=%s iter_exc=%s records=%s" % ([k for k in sorted(set(m) | set(i)) if m.get(k) != i.get(k)], m.get("init_exc"), m.get("iter_exc"),
                                                                            _short([x.get("str") for x in m.get("records", [])], 160))))
    except Exception as x:  # noqa
        print("  model: not available (%s)" % str(x)[:200])
    print("  oracle: %d failure(s)%s" % (len(e["failures"]), "".join("\n    - " + x["what"] for x in e["failures"])))
    fails = e["failures"]
    fails.sort(key=lambda g: g.get("kind") != f.get("kind"))
    return fails


def replay_history(ctx, f):
    req = f["history"]
    if any(k not in req for k in ("ann", "header_lines", "assume_sorted", "channel", "ops")) or req["ann"] not in masked_layouts():
        return None
    names = impl.scheme_by_annotation(req["ann"]).column_names()
    print("replay C05 writer history: Strict %s writer for %s opened by %s; germline information via %s (%s); live record objects:" % (
        "direct" if req["assume_sorted"] else "sorting", req["ann"],
        {"handle": "MafWriter.from_fd", "ctor": "MafWriter(handle, header)", "plain": "MafWriter.from_path", "gz": "MafWriter.from_path(.gz)"}.get(req["channel"], req["channel"]),
        req.get("family"), req.get("pattern")))
    i, fails, offers = eval_germline_history(req)
    carried = {k: (c, r, e) for k, c, r, e in offers}
    steps = i.get("steps", [])
    for k, o in enumerate(req["ops"]):
        st = steps[k] if k < len(steps) else {"exc": "?"}
        if o["k"] == "new":
            d = "record %d: %s" % (o["id"], ("MafRecord.from_line(<%d fields>, %s)" % (len(o["line"].split("\t")), o.get("mode", "Strict"))) if o["how"] == "parse" else
                                   "%d columns added through the API%s" % (len(o["cols"]), ", then record.validate(scheme)" if o.get("validate") else ""))
        elif o["k"] == "mut":
            d = "record %d: column object %d (%s, position %d) %s %s" % (o["id"], o["i"], names[o["i"]] if o["i"] < len(names) else "?", o["i"], o["field"],
                                                                       _short({x: o[x] for x in ("to", "at") if x in o}, 200))
        elif o["k"] == "replace":
            d = "record %d: record[%r] = %s" % (o["id"], o["col"]["key"], _short(o["col"], 200))
        elif o["k"] == "validate":
            d = "record %d: record.validate(scheme=%s)" % (o["id"], o["scheme"])
        elif o["k"] == "write":
            c = carried.get(k, ([], False, None))
            d = "record %d: offered (%s), holding %s in the masked columns -> %s" % (
                o["id"], "writer.write(record)" if o.get("call") == "write" else "writer += record",
                [[x, json.loads(v)] for x, v in c[0]] or "only null values", "raised " + st["exc"] if st["exc"] else "accepted")
        else:
            d = "%s%s" % (o["k"], " -> raised " + st["exc"] if st["exc"] else "")
        print("    step %d: %s" % (k, d))
    text = steps[-1]["out"] if steps else ""
    recs = file_record_lines(text)
    print("  produced file: %d record line(s); germline fields: %s" % (len(recs), [[ln.split("\t")[names.index(c)] if names.index(c) < len(ln.split("\t")) else None
                                                                                   for c in masked_layouts()[req["ann"]]] for ln in recs][:4]))
    try:
        mr = impl.history_model_request(req)
        if mr is None:
            print("  model: no op keeps record objects across record[name] = ...; implementation only")
        else:
            m = ctx.driver.run([mr])[0]
            d = None if has_unmodelled(m) else impl.history_model_differs(req, m, i)
            print("  model (every offer as a fresh record in the state of that moment): %s" % (
                "outside the model's domain" if has_unmodelled(m) else "the same on every offer and on close" if d is None else "differs at step %s: %s" % (d["step"], _short(d["model"], 200))))
    except Exception as x:  # noqa
        print("  model: not available (%s)" % str(x)[:200])
    print("  oracle: %d failure(s)%s" % (len(fails), "".join("\n    - " + x["what"] for x in fails)))
    fails.sort(key=lambda g: not (g.get("kind") == f.get("kind") and g.get("step") == f.get("step")))
    return fails
