"""C05 - public and masked schemes never let germline information through."""
import io

from .. import colcases, impl
from ..common import exc_name, float_table, has_unmodelled, is_model_text
from ..runner import Outcome

LEVEL = "proof"
ASSUMPTIONS = ["non-strict writers emit what they are given by design and are outside the guarantee (property text)"]
GERMLINE = ["Match_Norm_Seq_Allele1", "Match_Norm_Seq_Allele2", "Match_Norm_Validation_Allele1",
            "Match_Norm_Validation_Allele2", "n_ref_count", "n_alt_count"]
VCF_ONLY = ["vcf_region", "vcf_info", "vcf_format", "vcf_tumor_gt", "vcf_normal_gt"]
MODES = ["Strict", "Lenient", "Silent"]


def masked_layouts():
    """Public/masked layouts, recognised from the definitions (a definition that redefines
    columns with RequireNullValue), not from a hard-coded list."""
    from ..gen import extract_schemes
    out = {}
    for d in extract_schemes():
        cols = [c for c, t in d["columns"] if t == "RequireNullValue"]
        if cols:
            out[d["annotation"]] = cols
    return out


def offending_texts(rng):
    return ["A", "ACGT", "-", "T", "0", "1", "17", "N", "acgt", "x", " ", "None", "Null", "-1", "1.5", "A;C",
            "TTTTTTTTTTTTTTTT", str(rng.randrange(2, 10**6))]


def eval_parse(ann, col, text, mode, line):
    """One line with a non-null germline field parsed in one mode on the implementation + the property's oracle.
    -> {"failures": [...], "counted": the case reached the end of the oracle, "account": what the implementation returned}"""
    from maflib.record import MafRecord
    sch = impl.scheme_by_annotation(ann)
    names = sch.column_names()
    k = names.index(col)
    e = {"failures": [], "counted": True}
    fails = e["failures"]
    try:
        rec = MafRecord.from_line(line, scheme=sch, line_number=5, validation_stringency=impl.MODES[mode])
    except Exception as x:  # noqa
        rec, exc = None, x
    where = {"scheme": ann, "column": col, "text": text, "mode": mode, "line": line}
    if mode == "Strict":
        e["account"] = "returned a record" if rec is not None else "raised %s" % exc_name(exc)
        if rec is not None or not exc_name(exc).startswith("MafFormatException"):
            fails.append(dict(where, what="Strict parsing accepted a non-null germline field",
                              kind="strict-accepts"))
    else:
        if rec is None:
            e["account"] = "raised %s" % exc_name(exc)
            fails.append(dict(where, what="non-strict parsing raised", kind="exception", got=exc_name(exc)))
            e["counted"] = False
            return e
        exposed = []
        try:
            if rec.value(col) is not None:
                exposed.append("value()")
        except Exception:  # noqa
            pass
        slots = rec._MafRecord__columns_list
        if k < len(slots) and slots[k] is not None:
            exposed.append("record[%d]" % k)
        s = str(rec).split("\t")
        if k < len(s) and s[k] == text and text != "None":  # an empty slot prints as "None"
            exposed.append("str(record)")
        if exposed:
            fails.append(dict(where, what="parsed record exposes the offending germline value via %s" % exposed,
                              kind="exposed"))
        if not rec.validation_errors:
            fails.append(dict(where, what="non-null germline field produced no validation error", kind="no-error"))
        e["account"] = "record with %d validation error(s); field %d (%s) exposed via %s; printed as %r" % (
            len(rec.validation_errors), k, col, exposed or "nothing", s[k] if k < len(s) else None)
    return e


def eval_vcf(ann):
    """protected-only VCF columns are absent from a public layout"""
    names = impl.scheme_by_annotation(ann).column_names()
    present = [c for c in VCF_ONLY if c in names]
    if present:
        return [{"what": "protected-only VCF columns present in a public layout", "kind": "vcf",
                 "scheme": ann, "columns": present}]
    return []


def compare_model(ctx, reqs):
    """rec.from_line requests on the model and the implementation -> (dontcare, disagreements, [(request, model, impl)])."""
    mo = ctx.driver.run(reqs)
    dontcare, dis, triples = 0, [], []
    for r, m in zip(reqs, mo):
        i = impl.run(r)
        triples.append((r, m, i))
        if not has_unmodelled(m) and m != i:
            fields = r["line"].split("\t")
            if any(colcases.dontcare_numeric(p) or colcases.dontcare_uuid(p) for f in fields for p in [f] + f.split(";")):
                dontcare += 1
            else:
                dis.append({"op": "rec.from_line", "request": {k: r[k] for k in ("scheme", "mode", "line")},
                            "model": m.get("exc") or m["rec"]["errors"], "impl": i.get("exc") or i["rec"]["errors"]})
    return dontcare, dis, triples


def parse_cases(ctx, out):
    rng = ctx.rng("parse")
    layouts = masked_layouts()
    reqs = []
    for ann, cols in sorted(layouts.items()):
        sch = impl.scheme_by_annotation(ann)
        names = sch.column_names()
        for col in cols:
            k = names.index(col)
            for text in offending_texts(rng):
                fields = colcases.valid_fields(ann, rng)
                for c2 in cols:
                    fields[names.index(c2)] = ""
                fields[k] = text
                line = "\t".join(fields)
                for mode in MODES:
                    out.evaluations += 1
                    reqs.append(colcases.from_line_req(ann, line, mode, 5))
                    e = eval_parse(ann, col, text, mode, line)
                    out.failures += e["failures"]
                    if not e["counted"]:
                        continue
                    out.distribution["strict:refused" if mode == "Strict" else "nonstrict:hidden"] += 1
                    out.nontrivial.add((ann, col, text))
                if len(out.samples) < 3:
                    out.sample({"scheme": ann, "column": col, "text": text, "modes": MODES})
        # protected-only VCF columns are absent from public layouts
        if ann.endswith("-public"):
            out.evaluations += 1
            out.failures += eval_vcf(ann)
    dontcare, dis, _t = compare_model(ctx, reqs)
    out.dontcare += dontcare
    out.disagreements += dis


PROTECTED_OF = {"gdc-1.0.0-public": "gdc-1.0.0-protected", "gdc-1.0.1-public": "gdc-1.0.1-protected",
                "gdc-1.0.0-aliquot-merged-masked": "gdc-1.0.0-aliquot-merged",
                "gdc-2.0.0-aliquot-merged-masked": "gdc-2.0.0-aliquot-merged"}


def masked_clean_fields(ann, fields):
    """The fields of a conforming line with every masked column set to its null spelling."""
    names = impl.scheme_by_annotation(ann).column_names()
    for c2 in masked_layouts()[ann]:
        fields[names.index(c2)] = ""
    return fields


def api_records(ann, col, value_text, clean_line):
    """Records carrying a non-null germline value, built in the ways the API allows, from the clean line."""
    from maflib.record import MafRecord
    from maflib.validation import ValidationStringency as VS
    sch = impl.scheme_by_annotation(ann)
    names = sch.column_names()
    base_ann = PROTECTED_OF.get(ann)
    clean = MafRecord.from_line(clean_line, scheme=sch, validation_stringency=VS.Silent)
    k = names.index(col)
    out = []
    # (a) post-hoc mutation of the masked column of a cleanly parsed record
    r = MafRecord.from_line(clean_line, scheme=sch, validation_stringency=VS.Silent)
    if r[col] is not None:
        base_cls = [c for c in type(r[col]).__mro__ if c.__name__ == type(r[col]).__name__][-1]
        try:
            v = base_cls.__build__(value_text)
        except Exception:  # noqa
            v = value_text
        r[col].value = v
        out.append(("mutated-value", r))
    # (b) the column replaced by one of the protected (unmasked) class
    if base_ann:
        bsch = impl.scheme_by_annotation(base_ann)
        try:
            bc = bsch.column_class(col).build(name=col, value=value_text, column_index=k)
            r = MafRecord.from_line(clean_line, scheme=sch, validation_stringency=VS.Silent)
            r[col] = bc
            out.append(("protected-class-column", r))
        except Exception:  # noqa
            pass
    # (c) a generic untyped column
    from maflib.column import MafColumnRecord
    r = MafRecord.from_line(clean_line, scheme=sch, validation_stringency=VS.Silent)
    r[col] = MafColumnRecord(col, value_text, column_index=k)
    out.append(("generic-column", r))
    return clean, out


def eval_writer(ann, col, text, clean_line):
    """The Strict writer (direct, then sorting) offered the clean record followed by each API-built record carrying
    `text` in the masked column `col` (the record objects are shared by the variants, as a caller would reuse them).
    -> [{"how", "sorting", "failures", "account"}, ...] in execution order"""
    from maflib.header import MafHeader
    from maflib.writer import MafWriter
    from maflib.validation import ValidationStringency as VS
    from maflib.sort_order import Coordinate
    sch = impl.scheme_by_annotation(ann)
    names = sch.column_names()
    clean, offered = api_records(ann, col, text, clean_line)
    results = []
    for how, rec in offered:
        for sort in (False, True):
            h = MafHeader.from_defaults(version=sch.version(), annotation=ann,
                                        sort_order=Coordinate() if sort else None)
            buf = io.StringIO()
            buf.close = lambda: None
            w = MafWriter.from_fd(buf, h, validation_stringency=VS.Strict, assume_sorted=not sort)
            refused = False
            kind = None
            try:
                w += clean
                w += rec
            except Exception as e:  # noqa
                refused = exc_name(e).startswith("MafFormatException")
                kind = exc_name(e)
            try:
                w.close()
            except Exception:  # noqa
                pass
            body = [ln for ln in buf.getvalue().split("\n") if ln and not ln.startswith("#")][1:]
            leaked = [ln for ln in body if ln and len(ln.split("\t")) > names.index(col)
                      and ln.split("\t")[names.index(col)] not in ("",)]
            where = {"scheme": ann, "column": col, "text": text, "how": how, "sorting": sort, "clean_line": clean_line}
            fails = []
            if leaked:
                fails.append(dict(where, what="Strict writer emitted a non-null germline field", kind="leak",
                                  got=leaked[0].split("\t")[names.index(col)]))
            elif not refused:
                fails.append(dict(where, what="Strict writer did not refuse the record with the format exception",
                                  kind="not-refused"))
            results.append({"how": how, "sorting": sort, "failures": fails,
                            "account": "%s; %d data line(s) written, %d with a non-null %s" % (
                                ("raised %s" % kind) if kind else "accepted both records", len(body), len(leaked), col)})
    return results


def writer_cases(ctx, out):
    rng = ctx.rng("writer")
    for ann, cols in sorted(masked_layouts().items()):
        for col in cols:
            for text in ["ACGT", "17", "-", "A"]:
                clean_line = "\t".join(masked_clean_fields(ann, colcases.valid_fields(ann, rng)))
                for r in eval_writer(ann, col, text, clean_line):
                    out.evaluations += 1
                    out.failures += r["failures"]
                    out.distribution["writer:" + r["how"]] += 1
                    out.nontrivial.add((ann, col, text, r["how"], r["sorting"]))


def run(ctx):
    out = Outcome()
    out.rule = ("4 public/masked layouts (recognised from the definitions) x 6 masked columns x non-null texts (valid for the protected type or not) "
                "x 3 parse modes; Strict writer (direct and sorting) offered mutated / protected-class / generic columns; every case is non-trivial")
    parse_cases(ctx, out)
    writer_cases(ctx, out)
    return out


def search(ctx):
    return run(ctx)


# ------------------------------------------------------------------ replay
def _short(x, n=300):
    import json
    t = x if isinstance(x, str) else json.dumps(x, default=str, ensure_ascii=True)
    return t if len(t) <= n else t[:n] + "... (%d chars)" % len(t)


def replay_case(ctx, failure):
    """Re-evaluate the stored input on the current implementation; the failures it produces now
    ([] = nothing germline gets through on it; None = the stored failure lacks the inputs: regenerate from the seed)."""
    f = failure
    if f.get("kind") == "vcf":
        ann = f.get("scheme")
        if not ann or impl.scheme_by_annotation(ann) is None:
            return None
        fails = eval_vcf(ann)
        print("replay C05 layout: column names of %s; protected-only VCF columns present: %s"
              % (ann, fails[0]["columns"] if fails else "none"))
        return fails
    if not all(k in f for k in ("scheme", "column", "text")):
        return None
    ann, col, text = f["scheme"], f["column"], f["text"]
    sch = impl.scheme_by_annotation(ann)
    if sch is None or col not in sch.column_names() or ann not in masked_layouts():
        return None
    if "how" in f:
        if "clean_line" not in f or "sorting" not in f:
            return None
        results = eval_writer(ann, col, text, f["clean_line"])
        print("replay C05 writer: Strict MafWriter for %s offered the conforming record (all germline columns null) and then records "
              "carrying %r in %s; the run's sequence for this line (3 ways of building the record x direct/sorting) is repeated, "
              "the stored variant is %s, %s (implementation only)" % (ann, text, col, f["how"], "sorting" if f["sorting"] else "direct"))
        print("  conforming line: %s" % _short(f["clean_line"]))
        fails = []
        for r in results:
            mine = r["how"] == f["how"] and r["sorting"] == f["sorting"]
            print("  %s %-22s %-7s: %s" % ("*" if mine else " ", r["how"], "sorting" if r["sorting"] else "direct", r["account"]))
            if mine:
                fails += r["failures"]
        print("  oracle on the stored variant: %d failure(s)%s" % (len(fails), "".join("\n    - " + x["what"] for x in fails)))
        return fails
    if "mode" in f and "line" in f:
        e = eval_parse(ann, col, text, f["mode"], f["line"])
        print("replay C05 parse: MafRecord.from_line(<%d fields>, scheme=%s, line_number=5, %s) with %r in the masked column %s"
              % (len(f["line"].split("\t")), ann, f["mode"], text, col))
        print("  line: %s" % _short(f["line"]))
        print("  implementation: %s" % e["account"])
        _d, _dis, triples = compare_model(ctx, [colcases.from_line_req(ann, f["line"], f["mode"], 5)])
        for r, m, i in triples:
            k = sch.column_names().index(col)
            ms = m.get("exc") or {"errors": len(m["rec"]["errors"]), "slot": m["rec"]["slots"][k] if k < len(m["rec"]["slots"]) else None}
            print("  model: %s (%s)" % (_short(ms), "outside the model" if has_unmodelled(m) else "agrees" if m == i else "differs"))
        print("  oracle: %d failure(s)%s" % (len(e["failures"]), "".join("\n    - " + x["what"] for x in e["failures"])))
        return e["failures"]
    return None

