"""C06 - a Strict writer only ever emits lines that a Strict reader accepts."""
import json
import os

from .. import colcases, impl, sortcases as SC
from ..common import enc_val, exc_name, float_table, has_unmodelled
from ..runner import Outcome

LEVEL = "proof"
TRUSTED_EXTRA = ["translator verif/gen_bodies.py (Python ast -> PyIR terms, purely syntactic; skipped constructs are listed in the evidence, never approximated)", "PyIR interpreter (lean/MafModel/MafModel/PyIR/Interp.lean): the hand-written meaning of the translated Python fragment, validated on every run against the real __validate__ / __build__ methods (body.validate, body.build)"]
ASSUMPTIONS = ["records are built through the public API: column objects of any library class with any key / value / index, added to a record, then possibly mutated"]
ANN = "gdc-1.0.0"

ODD_VALUES = [
    {"t": "none"}, {"t": "bool", "v": True}, {"t": "bool", "v": False}, {"t": "int", "v": "0"}, {"t": "int", "v": "-3"},
    {"t": "int", "v": "7"}, {"t": "float", "v": "1.5"}, {"t": "str", "v": ""}, {"t": "str", "v": "x"}, {"t": "str", "v": "a\tb"},
    {"t": "str", "v": "a\nb"}, {"t": "str", "v": "a\rb"}, {"t": "str", "v": "a;b"}, {"t": "str", "v": "ACGT"}, {"t": "str", "v": "12"},
    {"t": "list", "v": []}, {"t": "list", "v": [{"t": "str", "v": "a"}]}, {"t": "list", "v": [{"t": "str", "v": "a;b"}]},
    {"t": "list", "v": [{"t": "str", "v": ""}]}, {"t": "list", "v": [{"t": "str", "v": "x\ty"}]},
    {"t": "tuple", "v": [{"t": "str", "v": "a"}, {"t": "str", "v": "b"}]}, {"t": "list", "v": [{"t": "int", "v": "1"}, {"t": "bool", "v": True}]},
    {"t": "tuple", "v": []}, {"t": "other", "v": "object"}, {"t": "enum", "c": "StrandEnum", "m": "Plus"},
    {"t": "enum", "c": "VariantTypeEnum", "m": "SNP"}, {"t": "uuid", "v": "12345"},
]
FOREIGN = ["NullableStringColumn", "StringColumn", "IntegerColumn", "NullableIntegerColumn", "SequenceOfStrings", "FloatColumn",
           "Canonical", "UUIDColumn", "NullableDnaString", "MafColumnRecord", "TranscriptStrand", "SequenceOfIntegers"]


def conforming_cols(rng, ann=ANN):
    """Column specs of a conforming record: parsed values of a valid line, re-offered as API columns."""
    from maflib.record import MafRecord
    from maflib.validation import ValidationStringency as VS
    sch = impl.scheme_by_annotation(ann)
    rec = SC.typed_record(rng, rng.choice(["T1", "T2"]), rng.choice(["N1", None]), rng.choice(["1", "X"]), rng.choice([5, 50]), 60, ann=ann)
    if rng.random() < 0.2:
        # a free-text first field may start with the character that starts header lines: after the column line it is data
        rec[sch.column_names()[0]].value = rng.choice(["#N/A", "#", "# not a gene", "#version gdc-1.0.0", "##x"])
    cols = []
    for k, name in enumerate(sch.column_names()):
        cols.append({"scheme": ann, "col": name, "key": name, "value": enc_val(rec[name].value), "index": k})
    return cols, str(rec)


def deviate(rng, cols):
    """One deviation from a conforming record."""
    cols = [dict(c) for c in cols]
    mut = []
    kind = rng.choice(["value", "value", "value", "foreign", "drop", "extra", "swap-index", "rename", "mutate-value", "mutate-index", "mutate-key", "generic",
                       "subclass", "subclass"])
    k = rng.randrange(len(cols))
    if kind == "subclass":
        # a column of a proper sub-class of the scheme's class (isinstance holds), holding the sub-class's null value or the same value
        import maflib.column_types as CT
        sch = impl.scheme_by_annotation(ANN)
        cands = []
        for j, c in enumerate(cols):
            base = sch.column_class(c["key"])
            subs = [n for n, o in vars(CT).items() if isinstance(o, type) and issubclass(o, base) and o is not base and not n.startswith("_")]
            if subs:
                cands.append((j, subs))
        if cands:
            j, subs = rng.choice(cands)
            c = cols[j]
            # ... holding its null value, the same value, or a text that would break the line framing
            cols[j] = {"cls": rng.choice(subs), "key": c["key"], "index": c["index"],
                       "value": rng.choice([{"t": "none"}, c["value"], c["value"], {"t": "str", "v": "a\tb"}, {"t": "str", "v": "a\nb"}, {"t": "str", "v": "a\rb"},
                                            {"t": "str", "v": "x"}, {"t": "list", "v": [{"t": "str", "v": "x\ty"}]}])}
        return {"cols": cols, "mut": []}, kind
    if kind == "value":
        cols[k]["value"] = rng.choice(ODD_VALUES)
    elif kind == "foreign":
        c = cols[k]
        cols[k] = {"cls": rng.choice(FOREIGN), "key": c["key"], "value": rng.choice([c["value"]] + ODD_VALUES), "index": c["index"]}
    elif kind == "generic":
        c = cols[k]
        cols[k] = {"cls": "MafColumnRecord", "key": c["key"], "value": rng.choice([{"t": "str", "v": "abc"}, c["value"]]), "index": c["index"]}
    elif kind == "drop":
        del cols[k]
    elif kind == "extra":
        cols.append({"cls": "NullableStringColumn", "key": "Extra_Column", "value": {"t": "str", "v": "x"}, "index": None})
    elif kind == "swap-index":
        j = rng.randrange(len(cols))
        cols[k]["index"], cols[j]["index"] = cols[j]["index"], cols[k]["index"]
    elif kind == "rename":
        cols[k]["key"] = rng.choice(["Not_A_Column", cols[(k + 1) % len(cols)]["key"]])
    elif kind == "mutate-value":
        mut.append({"i": k, "field": "value", "to": rng.choice(ODD_VALUES)})
    elif kind == "mutate-index":
        mut.append({"i": k, "field": "index", "to": rng.choice([None, 0, len(cols) + 3, (k + 1) % len(cols)])})
    elif kind == "mutate-key":
        mut.append({"i": k, "field": "key", "to": rng.choice(["Not_A_Column", cols[(k + 1) % len(cols)]["key"]])})
    return {"cols": cols, "mut": mut}, kind


def strict_accepts(line, ann=ANN):
    from maflib.record import MafRecord
    from maflib.validation import ValidationStringency as VS
    try:
        MafRecord.from_line(line, scheme=impl.scheme_by_annotation(ann), validation_stringency=VS.Strict)
        return True
    except Exception:  # noqa
        return False


def make_request(sort, specs, ann=ANN):
    """The writer.run request of one session: a Strict writer (sorting or direct) offered the records `specs`, then closed."""
    header = ["#version gdc-1.0.0"] + (["#annotation.spec " + ann] if ann != ANN else []) + (["#sort.order Coordinate"] if sort else [])
    ops = [{"k": "write", "rec": spec} for spec in specs] + [{"k": "close"}]
    texts = [p for o in ops if o["k"] == "write" for c in o["rec"]["cols"] if c["value"].get("t") == "str" for p in [c["value"]["v"]]]
    r = {"op": "writer.run", "header_lines": header, "mode": "Strict", "assume_sorted": not sort, "ops": ops,
         "floats": float_table(texts + ["1.5"])}
    if ann != ANN:
        r["ann"] = ann
    return r


def pack_session(r, kinds, sort):
    """The inputs of a session, for replays: every column offered, as [key, value] when it is the scheme's column at its
    own position (class taken from the scheme, index = position), else in full."""
    recs = []
    for o in r["ops"]:
        if o["k"] != "write":
            continue
        cols = []
        for pos, c in enumerate(o["rec"]["cols"]):
            plain = c.get("scheme") == r.get("ann", ANN) and c.get("col") == c["key"] and c.get("index") == pos and set(c) == {"scheme", "col", "key", "value", "index"}
            cols.append([c["key"], c["value"]] if plain else c)
        recs.append({"cols": cols, "mut": o["rec"].get("mut", [])})
    sess = {"sorting": sort, "deviations": list(kinds), "records": recs}
    if r.get("ann", ANN) != ANN:
        sess["ann"] = r["ann"]
    return sess


def unpack_session(sess):
    specs = []
    for rec in sess["records"]:
        cols = [{"scheme": sess.get("ann", ANN), "col": c[0], "key": c[0], "value": c[1], "index": pos} if isinstance(c, list) else dict(c)
                for pos, c in enumerate(rec["cols"])]
        specs.append({"cols": cols, "mut": [dict(m) for m in rec.get("mut", [])]})
    return bool(sess["sorting"]), list(sess["deviations"]), specs


def eval_session(r, kinds, sort):
    """Run one writer session on the implementation and apply the oracle (shared by run and replay_case).

    Returns (implementation's answer, failures, [(step, where, refused)] for the write steps or None when the writer could not be opened)."""
    i = impl.run(r)
    fails = []
    sess = pack_session(r, kinds, sort)
    ann = r.get("ann", ANN)
    ncols = len(impl.scheme_by_annotation(ann).column_names())
    if "init_exc" in i:
        fails.append({"what": "Strict writer could not be opened on a valid header", "kind": "init", "got": i["init_exc"], "session": sess})
        return i, fails, None
    prev = i["init_out"]
    accepted = 0
    steps = []
    for k, (o, st) in enumerate(zip(r["ops"], i["steps"])):
        where = {"sorting": sort, "deviation": kinds[k] if k < len(kinds) else "close",
                 "record": summarize(o["rec"], kinds[k]) if o["k"] == "write" else None}
        if o["k"] == "write":
            if st["exc"] is not None:
                if not st["exc"].startswith("MafFormatException"):
                    fails.append(dict(where, what="a non-conforming record was refused with %s, not the library's format exception" % st["exc"],
                                      kind="wrong-exception", step=k, session=sess))
                if st["out"] != prev:
                    fails.append(dict(where, what="a refused record contributed bytes to the output", kind="bytes-on-refusal", step=k, session=sess))
            else:
                accepted += 1
                if not sort:
                    new = st["out"][len(prev):]
                    line = new[:-1] if new.endswith("\n") else new
                    if new.count("\n") != 1 or len(line.split("\t")) != ncols or not strict_accepts(line, ann):
                        fails.append(dict(where, what="the Strict writer emitted a line that a Strict reader does not accept",
                                          kind="emitted-nonconforming", line=line[:200], step=k, session=sess))
            steps.append((k, where, st["exc"] is not None))
        else:
            if st["exc"] is not None:
                fails.append(dict(where, what="closing the writer failed with %s" % st["exc"], kind="close-failed", step=k, session=sess))
        prev = st["out"]
    # the produced file is accepted in full by a Strict reader
    text = i["steps"][-1]["out"]
    lines = text.split("\n")
    if lines and lines[-1] == "":
        lines.pop()
    rd = impl.run({"op": "reader.run", "lines": lines, "mode": "Strict"})
    if rd.get("init_exc") or rd.get("iter_exc") or len(rd.get("records", [])) != accepted:
        fails.append({"what": "the produced file is not accepted in full by a Strict reader", "kind": "file-rejected", "sorting": sort,
                      "deviations": kinds, "got": rd.get("init_exc") or rd.get("iter_exc") or "%d records for %d accepted" % (len(rd.get("records", [])), accepted),
                      "records": [summarize(o["rec"], kd) for o, kd in zip(r["ops"], kinds)], "session": sess})
    return i, fails, steps


def model_differs(r, kinds, sort, m, i):
    k = next((j for j, (a, b) in enumerate(zip(m.get("steps", []), i.get("steps", []))) if a != b), None)
    return {"op": "writer.run", "kinds": kinds, "sorting": sort, "step": k,
            "record": None if k is None or k >= len(kinds) else summarize(r["ops"][k]["rec"], kinds[k]),
            "model": None if k is None else {"exc": m["steps"][k]["exc"], "tail": m["steps"][k]["out"][-80:]},
            "impl": None if k is None else {"exc": i["steps"][k]["exc"], "tail": i["steps"][k]["out"][-80:]}}


# ------------------------------------------------------------------ histories
# Record OBJECTS that live across steps: parsed / validated / offered, then changed through every mutable handle the API
# exposes (column.value, in-place list mutation, column.key, column.column_index, record[name] = ..., del record[name]),
# offered again, or changed after a successful offer - on direct and sorting writers opened by every route.
# Oracle (the property's): a refusal is the format exception and writes nothing; every emitted line is the text the record had
# when it was accepted, has the scheme's field count and is accepted by a Strict reader; the file is accepted in full.
# Input families on which /repo really violates the property at present; they are generated, run and counted (dontcare), not judged.
#  sorter-first-record-keys-alias: a sorting writer keeps `record.keys()` - a live view - of the FIRST record it accepted as the
#    column names for re-parsing every stashed line (MafSorterCodec.encode); when the caller then renames a column of that object
#    (column.key = ...) or deletes one (del record[name]), close() raises the format exception and no accepted record is emitted.
PENDING_DEFECTS = []


def pending_defect(req, i):
    """The pending-defect family the history belongs to (decided on its ops and on which offer was accepted first), or None."""
    if "sorter-first-record-keys-alias" in PENDING_DEFECTS and not req["assume_sorted"] and "steps" in i:
        first = next((k for k, (o, st) in enumerate(zip(req["ops"], i["steps"])) if o["k"] == "write" and st["exc"] is None), None)
        if first is not None:
            rid = req["ops"][first]["id"]
            if any(o.get("id") == rid and (o["k"] == "delete" or (o["k"] == "mut" and o["field"] == "key")) for o in req["ops"][first + 1:]):
                return "sorter-first-record-keys-alias"
    return None

LIST_ELEMS = [{"t": "str", "v": ""}, {"t": "str", "v": "x"}, {"t": "str", "v": "a;b"}, {"t": "str", "v": "a\tb"}, {"t": "str", "v": "a\nb"},
              {"t": "float", "v": "7.5"}, {"t": "none"}, {"t": "int", "v": "3"}, {"t": "str", "v": "HiSeq"}, {"t": "bool", "v": True},
              {"t": "str", "v": "rs7"}, {"t": "enum", "c": "SequencerEnum", "m": "IlluminaHiSeq"}, {"t": "str", "v": " "}]
PATTERNS = ["mutate-then-offer"] * 3 + ["offer-mutate-reoffer"] * 3 + ["offer-mutate"] * 2 + ["offer-twice", "refuse-repair-reoffer", "plain"]
CHANNELS = ["handle", "handle", "handle", "ctor", "plain", "gz"]
LIST_TEXTS = {"Center": ["BI;WUGSC", "BI", "a;b;c"], "dbSNP_RS": ["rs1;rs2", "novel", "rs5"], "Validation_Method": ["m1;m2", "x"]}


def history_header(ann, sort):
    return (["#version gdc-1.0.0"] + ([] if ann == ANN else ["#annotation.spec " + ann]) + (["#sort.order Coordinate"] if sort else []))


def history_record(rng, ann):
    """(column specs, line) of a conforming record under `ann`, list-valued columns mostly non-empty."""
    sch = impl.scheme_by_annotation(ann)
    names = sch.column_names()
    extra = {n: rng.choice(ts) for n, ts in sorted(LIST_TEXTS.items()) if n in names and rng.random() < 0.7}
    rec = SC.typed_record(rng, rng.choice(["T1", "T2"]), rng.choice(["N1", None]), rng.choice(["1", "X", "2"]),
                          rng.choice([5, 50, 500]), rng.choice([600, 700]), ann=ann, extra=extra)
    cols = [{"scheme": ann, "col": n, "key": n, "value": enc_val(rec[n].value), "index": k} for k, n in enumerate(names)]
    return cols, str(rec)


def gen_mutations(rng, rid, cols, ann):
    """One change of a live record, as the ops that make it (1 or 2)."""
    listy = [j for j, c in enumerate(cols) if c["value"].get("t") == "list"]
    kind = rng.choice(["value-odd", "value-valid", "position", "key", "index", "replace", "delete"] + ["list"] * (4 if listy else 0))
    k = rng.randrange(len(cols))
    if kind == "list":
        j = rng.choice(listy)
        n = len(cols[j]["value"]["v"])
        f = rng.choice(["list.append", "list.append", "list.insert", "list.extend", "list.pop", "list.clear"] + (["list.setitem"] * 2 if n else []))
        o = {"k": "mut", "id": rid, "i": j, "field": f}
        if f == "list.extend":
            o["to"] = {"t": "list", "v": [rng.choice(LIST_ELEMS) for _ in range(rng.randrange(1, 3))]}
        elif f not in ("list.pop", "list.clear"):
            o["to"] = rng.choice(LIST_ELEMS)
            o["at"] = rng.randrange(n) if (f == "list.setitem" and n) else 0
        return [o], "list"
    if kind == "value-odd":
        return [{"k": "mut", "id": rid, "i": k, "field": "value", "to": rng.choice(ODD_VALUES)}], kind
    if kind == "value-valid":      # the value another conforming record has there
        other, _t = history_record(rng, ann)
        return [{"k": "mut", "id": rid, "i": k, "field": "value", "to": other[k]["value"]}], kind
    if kind == "position":         # still conforming, but it sorts elsewhere
        names = [c["key"] for c in cols]
        p = rng.choice([1, 7, 70, 7000])
        return [{"k": "mut", "id": rid, "i": names.index("Start_Position"), "field": "value", "to": {"t": "int", "v": str(p)}},
                {"k": "mut", "id": rid, "i": names.index("End_Position"), "field": "value", "to": {"t": "int", "v": str(p + 3)}}], kind
    if kind == "key":
        return [{"k": "mut", "id": rid, "i": k, "field": "key", "to": rng.choice(["Not_A_Column", cols[(k + 1) % len(cols)]["key"]])}], kind
    if kind == "index":
        return [{"k": "mut", "id": rid, "i": k, "field": "index", "to": rng.choice([None, 0, len(cols) + 3, (k + 1) % len(cols)])}], kind
    if kind == "replace":
        c = cols[k]
        new = rng.choice([{"cls": rng.choice(FOREIGN), "key": c["key"], "value": rng.choice([c["value"]] + ODD_VALUES), "index": rng.choice([k, None])},
                          {"scheme": ann, "col": c["key"], "key": c["key"], "value": rng.choice(ODD_VALUES), "index": k}])
        return [{"k": "replace", "id": rid, "col": new}], kind
    return [{"k": "delete", "id": rid, "key": cols[k]["key"]}], kind


def gen_history(rng, anns):
    """One writer session over live record objects -> the writer.history request (it is also the replayable input)."""
    ann = ANN if rng.random() < 0.7 else rng.choice(anns)
    sort = rng.random() < 0.5
    seqs, patterns, kinds = [], [], []
    for rid in range(rng.randrange(1, 4)):
        cols, line = history_record(rng, ann)
        how = rng.choice(["parse", "api", "api-validated"] * 3 + ["parse-lenient"])
        new = {"k": "new", "id": rid, "how": "parse" if how.startswith("parse") else "api", "cols": cols}
        if how == "parse":
            new.update({"line": line, "scheme": ann, "mode": "Strict"})
        elif how == "api-validated":
            new["validate"] = ann
        pat = rng.choice(PATTERNS)
        if how == "parse-lenient":        # what a non-strict parse of a line that does not conform returns (columns dropped / no column at all)
            fields = line.split("\t")
            for _ in range(rng.choice([1, 1, 2])):
                fields[rng.randrange(len(fields))] = rng.choice(["", "x", "0", "-1", "1.5", "A;B", "None", " ", "a b"])
            if rng.random() < 0.2:
                fields = fields[:-1] if rng.random() < 0.5 else fields + ["x"]
            new.update({"line": "\t".join(fields), "scheme": ann, "mode": rng.choice(["Silent", "Lenient"])})
            del new["cols"]
            pat = rng.choice(["plain", "plain", "offer-twice"])
        wr = lambda: {"k": "write", "id": rid, "call": rng.choice(["iadd", "iadd", "write"])}  # noqa: E731
        seq = [new]

        def muts(n):
            for _ in range(n):
                ops, kd = gen_mutations(rng, rid, cols, ann)
                kinds.append(kd)
                seq.extend(ops)
        if pat == "mutate-then-offer":
            if rng.random() < 0.3:
                seq.append({"k": "validate", "id": rid, "scheme": ann})
            muts(rng.choice([1, 1, 2]))
            seq.append(wr())
        elif pat == "offer-mutate-reoffer":
            seq.append(wr())
            muts(rng.choice([1, 1, 2]))
            seq.append(wr())
        elif pat == "offer-mutate":
            seq.append(wr())
            muts(rng.choice([1, 2]))
        elif pat == "offer-twice":
            seq += [wr(), wr()]
        elif pat == "refuse-repair-reoffer":
            j = [c["key"] for c in cols].index("Start_Position")
            seq += [{"k": "mut", "id": rid, "i": j, "field": "value", "to": rng.choice([{"t": "int", "v": "0"}, {"t": "str", "v": "7"}, {"t": "none"}])},
                    wr(), {"k": "mut", "id": rid, "i": j, "field": "value", "to": cols[j]["value"]}, wr()]
        else:
            seq.append(wr())
        seqs.append(seq)
        patterns.append("%s:%s" % (how, pat))
    ops = []
    while any(seqs):                      # interleave the records' own sequences
        q = rng.choice([q for q in seqs if q])
        ops.append(q.pop(0))
    ops.append({"k": "close"})
    return {"op": "writer.history", "ann": ann, "header_lines": history_header(ann, sort), "mode": "Strict", "assume_sorted": not sort,
            "channel": rng.choice(CHANNELS), "ops": ops, "patterns": patterns, "mutations": kinds}


def data_lines(text):
    """The record lines of a produced file (after the '#' header lines and the column-name line)."""
    lines = text.split("\n")
    if lines and lines[-1] == "":
        lines.pop()
    k = 0
    while k < len(lines) and lines[k].startswith("#"):
        k += 1
    return lines[k + 1:]


def eval_history(req):
    """Run one history on the implementation and apply the oracle (shared by run and replay_case).
    -> (implementation's answer, failures, [(step, "refused" | "accepted")] for the offers or None when the writer could not be opened)"""
    i = impl.run(req)
    if pending_defect(req, i):
        return i, [], "pending"
    ann = req["ann"]
    sort = not req["assume_sorted"]
    live = req["channel"] in ("handle", "ctor")        # every write call is observable, not only the file after close
    ncols = len(impl.scheme_by_annotation(ann).column_names())
    base = {"sorting": sort, "channel": req["channel"], "scheme": ann, "patterns": req.get("patterns"), "history": req}
    fails = []
    if "init_exc" in i:
        fails.append(dict(base, what="Strict writer could not be opened on a valid header", kind="init", got=i["init_exc"]))
        return i, fails, None
    prev = i["init_out"]
    accepted, offers = [], []
    for k, (o, st) in enumerate(zip(req["ops"], i["steps"])):
        where = dict(base, step=k, op={x: y for x, y in o.items() if x != "cols"})
        if o["k"] == "write":
            snap = st.get("snap") or {}
            if st["exc"] is not None:
                offers.append((k, "refused"))
                if not st["exc"].startswith("MafFormatException"):
                    fails.append(dict(where, what="a non-conforming record was refused with %s, not the library's format exception" % st["exc"], kind="wrong-exception"))
                if live and st["out"] != prev:
                    fails.append(dict(where, what="a refused record contributed bytes to the output", kind="bytes-on-refusal"))
            else:
                offers.append((k, "accepted"))
                accepted.append(snap.get("ok"))
                if live and not sort:
                    new = st["out"][len(prev):] if st["out"].startswith(prev) else st["out"]
                    line = new[:-1] if new.endswith("\n") else new
                    if new.count("\n") != 1 or len(line.split("\t")) != ncols or not strict_accepts(line, ann):
                        fails.append(dict(where, what="the Strict writer emitted a line that a Strict reader does not accept",
                                          kind="emitted-nonconforming", line=line[:300]))
                    elif snap.get("ok") is not None and line != snap["ok"]:
                        fails.append(dict(where, what="the emitted line is not the text of the record that was offered", kind="emitted-differs",
                                          line=line[:300], offered=snap["ok"][:300]))
        elif o["k"] == "close":
            if st["exc"] is not None:
                fails.append(dict(where, what="closing the writer failed with %s" % st["exc"], kind="close-failed"))
        elif live and st["out"] != prev:
            fails.append(dict(where, what="changing a record (no write call) changed the output", kind="bytes-on-mutation"))
        prev = st["out"]
    text = i["steps"][-1]["out"]
    data = data_lines(text)
    bad = [ln for ln in data if len(ln.split("\t")) != ncols or not strict_accepts(ln, ann)]
    if bad:
        fails.append(dict(base, what="the produced file holds a line that a Strict reader does not accept", kind="emitted-nonconforming", line=bad[0][:300]))
    if None not in accepted and (sorted(data) != sorted(accepted) if sort else data != accepted):
        extra = [ln for ln in data if ln not in accepted]
        missing = [ln for ln in accepted if ln not in data]
        fails.append(dict(base, what="the record lines of the produced file are not the accepted records as they were when they were accepted",
                          kind="file-differs", n_lines=len(data), n_accepted=len(accepted), unexpected=[ln[:200] for ln in extra[:2]], missing=[ln[:200] for ln in missing[:2]]))
    lines = text.split("\n")
    if lines and lines[-1] == "":
        lines.pop()
    rd = impl.run({"op": "reader.run", "lines": lines, "mode": "Strict"})
    if rd.get("init_exc") or rd.get("iter_exc") or len(rd.get("records", [])) != len(accepted):
        fails.append(dict(base, what="the produced file is not accepted in full by a Strict reader", kind="file-rejected",
                          got=rd.get("init_exc") or rd.get("iter_exc") or "%d records for %d accepted" % (len(rd.get("records", [])), len(accepted))))
    return i, fails, offers


history_model_request = impl.history_model_request
history_model_differs = impl.history_model_differs


def history_cases(ctx, out):
    rng = ctx.rng("c06-history")
    others = [a for a in impl.builtin_annotations() if a != ANN]
    anns = sorted(rng.sample(others, ctx.scale(2, len(others))))
    reqs = [gen_history(rng, anns) for _ in range(ctx.scale(120, 1500))]
    mreqs = [history_model_request(r) for r in reqs]
    mo = iter(ctx.driver.run([m for m in mreqs if m is not None]))
    for r, mr in zip(reqs, mreqs):
        out.evaluations += 1
        i, fails, offers = eval_history(r)
        out.failures += fails
        if mr is None:
            out.unmodelled += 1
        else:
            m = next(mo)
            if offers == "pending":
                pass                       # the model does not have the pending defect
            elif has_unmodelled(m):
                out.unmodelled += 1
            else:
                d = history_model_differs(r, m, i)
                if d:
                    out.disagreements.append(d)
        if offers is None:
            continue
        if offers == "pending":
            out.dontcare += 1
            out.distribution["history:pending-defect:" + pending_defect(r, i)] += 1
            continue
        for p in r["patterns"]:
            out.distribution["history:" + p.split(":")[1]] += 1
        for kd in r["mutations"]:
            out.distribution["history-mut:" + kd] += 1
        for k, res in offers:
            out.distribution["history-offer:" + res] += 1
        out.distribution["history-channel:%s:%s" % (r["channel"], "direct" if r["assume_sorted"] else "sorting")] += 1
        if r["mutations"]:
            out.nontrivial.add(json.dumps([r["ann"], r["assume_sorted"], r["channel"], r["patterns"], [o for o in r["ops"] if o["k"] not in ("new",)]], sort_keys=True, default=str))
        if len(out.samples) < 5 and r["mutations"]:
            out.sample({"history": r["patterns"], "scheme": r["ann"], "sorting": not r["assume_sorted"], "channel": r["channel"],
                        "ops": [o["k"] + (":" + o["field"] if o["k"] == "mut" else "") for o in r["ops"]],
                        "excs": [s["exc"] for s in i["steps"]]})


MORE_VALUES = [
    {"t": "int", "v": "1"}, {"t": "int", "v": "-1"}, {"t": "int", "v": "2"}, {"t": "float", "v": "0.0"}, {"t": "float", "v": "-2.5e-07"},
    {"t": "float", "v": "1e+22"}, {"t": "float", "v": "inf"}, {"t": "str", "v": "-"}, {"t": "str", "v": "ACGTN"}, {"t": "str", "v": "Yes"}, {"t": "str", "v": "1"},
    {"t": "str", "v": "1.5"}, {"t": "str", "v": " "}, {"t": "list", "v": [{"t": "int", "v": "3"}]}, {"t": "list", "v": [{"t": "bool", "v": False}]},
    {"t": "list", "v": [{"t": "float", "v": "1.5"}]}, {"t": "list", "v": [{"t": "none"}]}, {"t": "tuple", "v": [{"t": "int", "v": "3"}, {"t": "int", "v": "4"}]},
    {"t": "list", "v": [{"t": "enum", "c": "SequencerEnum", "m": "ABIThirtySevenThirty"}]}, {"t": "enum", "c": "NullableYesOrNoEnum", "m": "Null"},
    {"t": "enum", "c": "NullableYesOrNoEnum", "m": "Yes"}, {"t": "enum", "c": "NullableYOrNEnum", "m": "Yes"}, {"t": "enum", "c": "PickEnum", "m": "Yes"},
    {"t": "uuid", "v": "0"},
]


def subclass_framing_cases(ctx, out):
    """Every column of the basic layout that has proper sub-classes in the library, rebuilt as an object of each sub-class
    holding a text with TAB / LF / CR (and an ordinary text): a sub-class object satisfies isinstance, so only the value
    and framing checks stand between it and the output."""
    import maflib.column_types as CT
    rng = ctx.rng("c06-subclass")
    sch = impl.scheme_by_annotation(ANN)
    base, _text = conforming_cols(rng, ANN)
    reqs, meta = [], []
    for j, c in enumerate(base):
        bcls = sch.column_class(c["key"])
        subs = sorted(n for n, o in vars(CT).items() if isinstance(o, type) and issubclass(o, bcls) and o is not bcls and not n.startswith("_"))
        for sub in subs:
            for v in ({"t": "str", "v": "a\tb"}, {"t": "str", "v": "a\nb"}, {"t": "str", "v": "a\rb"}, {"t": "str", "v": "ok"}):
                cols = [dict(x) for x in base]
                cols[j] = {"cls": sub, "key": c["key"], "value": v, "index": c["index"]}
                for sort in (False, True):
                    reqs.append(make_request(sort, [{"cols": cols, "mut": []}], ANN))
                    meta.append((sort, sub, c["key"], v))
    mo = ctx.driver.run(reqs)
    for r, m, (sort, sub, key, v) in zip(reqs, mo, meta):
        out.evaluations += 1
        i, fails, steps = eval_session(r, ["subclass"], sort)
        out.failures += fails
        out.distribution["subclass-framing:" + ("refused" if steps and steps[0][2] else "accepted")] += 1
        out.nontrivial.add(("subclass-framing", sub, key, v["v"], sort))
        if has_unmodelled(m):
            out.unmodelled += 1
        elif m != i:
            out.disagreements.append(model_differs(r, ["subclass"], sort, m, i))


def scheme_value_cases(ctx, out):
    """Every column class of every built-in layout (one representative column per distinct MRO) x every kind of API value,
    type-appropriate or not: a conforming record with that one column rebuilt as `scheme_class(name, value, index)` is
    offered to a Strict writer of that scheme, and the session oracle applies (refusal = format exception and no bytes;
    an emitted line is accepted by a Strict reader of the scheme)."""
    rng = ctx.rng("c06-values")
    vals = ODD_VALUES + MORE_VALUES
    sigs = colcases.class_signatures()
    combos = []
    for sig in sorted(sigs):
        ann, name = sorted(sigs[sig])[0]
        for v in vals:
            combos.append((ann, name, v))
    base = {}
    reqs, meta = [], []
    for ann, name, v in combos:
        if ann not in base:
            base[ann] = conforming_cols(rng, ann)[0]
        cols = [dict(c) for c in base[ann]]
        k = next(j for j, c in enumerate(cols) if c["key"] == name)
        cols[k]["value"] = v
        reqs.append(make_request(False, [{"cols": cols, "mut": []}], ann))
        meta.append((ann, name, v))
    # the model on a sample (the requests are large), the implementation and the oracle on all of them
    sample = set(rng.sample(range(len(reqs)), min(len(reqs), ctx.scale(150, 1500))))
    idx = sorted(sample)
    mo = dict(zip(idx, ctx.driver.run([reqs[j] for j in idx])))
    for j, (r, (ann, name, v)) in enumerate(zip(reqs, meta)):
        out.evaluations += 1
        i, fails, steps = eval_session(r, ["value"], False)
        out.failures += fails
        refused = bool(steps and steps[0][2])
        out.distribution["scheme-value:" + ("refused" if refused else "accepted")] += 1
        out.nontrivial.add(("scheme-value", ann, name, json.dumps(v, sort_keys=True)))
        if j in mo:
            m = mo[j]
            if has_unmodelled(m):
                out.unmodelled += 1
            elif m != i:
                out.disagreements.append(model_differs(r, ["value"], False, m, i))


PATH_NAMES = ["out.maf", "out.maf.gz", "out.gz", "out.maf.bgz", "out.bgz", "out.maf.GZ", "out.maf.bz2", "out.txt", "out", "out.maf.gz.tmp"]


def eval_path_name(name, sort, n):
    """The path-based entry points on both sides: MafWriter.from_path(name, Strict) writes n conforming records (directly
    or through the sorter), MafReader.reader_from(the same name, Strict) accepts the file in full - whatever the name."""
    import tempfile
    from maflib.header import MafHeader
    from maflib.reader import MafReader
    from maflib.sort_order import Coordinate
    from maflib.validation import ValidationStringency as VS
    from maflib.writer import MafWriter
    where = {"kind": "path-name", "name": name, "sorting": sort, "records": n}
    with tempfile.TemporaryDirectory() as tmp, impl.LogCapture():
        path = os.path.join(tmp, name)
        recs = [SC.typed_record(None, "T1", "N1", "1", 50 - 7 * k, 60) for k in range(n)]
        try:
            h = MafHeader.from_defaults(version=ANN, sort_order=Coordinate()) if sort else MafHeader.from_defaults(version=ANN)
            w = MafWriter.from_path(path, h, validation_stringency=VS.Strict, assume_sorted=not sort)
            for r in recs:
                w += r
            w.close()
        except Exception as e:  # noqa
            return [dict(where, what="a Strict writer opened by from_path(%r) failed on conforming records with %s" % (name, exc_name(e)))]
        try:
            rd = MafReader.reader_from(path, validation_stringency=VS.Strict)
            got = [str(r) for r in rd]
            rd.close()
        except Exception as e:  # noqa
            return [dict(where, what="the file a Strict writer produced at %r is not accepted by a Strict MafReader.reader_from of the same path (%s)" % (name, exc_name(e)))]
        if sorted(got) != sorted(str(r) for r in recs):
            return [dict(where, what="the file a Strict writer produced at %r reads back (reader_from, Strict) as %d records for %d accepted" % (name, len(got), n))]
    return []


def path_name_cases(ctx, out):
    for name in PATH_NAMES:
        for sort in (False, True):
            out.evaluations += 1
            out.failures += eval_path_name(name, sort, 3)
            out.distribution["writer by path, reader by the same path (file names of every suffix)"] += 1
            out.nontrivial.add(("path-name", name, sort))


def run(ctx):
    out = Outcome()
    out.rule = ("Strict writers (direct and sorting) under gdc-1.0.0 offered conforming records interleaved with records deviating in one way: a value of a wrong Python type / out of range / "
                "containing TAB, CR, LF or ';', a column of a foreign class, a missing / extra / renamed column, swapped indexes, post-hoc mutation of value / index / key; "
                "non-trivial = a deviating record; distinct (deviation kind, position, value).  Histories: live record objects (parsed / API-built / validated) under gdc-1.0.0 and other "
                "schemes, offered, changed in place (value, list append/insert/setitem/extend/pop/clear, key, index, record[name] = ..., del) and offered again or changed after the offer, "
                "on direct and sorting writers opened by from_fd / constructor / from_path / from_path(.gz), through += and write(): every emitted line is the text the record had when it was accepted")
    rng = ctx.rng("c06")
    reqs, meta = [], []
    for _ in range(ctx.scale(260, 3000)):
        sort = rng.random() < 0.35
        specs, kinds = [], []
        for _k in range(rng.randrange(1, 4)):
            cols, text = conforming_cols(rng)
            if rng.random() < 0.6:
                spec, kind = deviate(rng, cols)
            else:
                spec, kind = {"cols": cols, "mut": []}, "conforming"
            specs.append(spec)
            kinds.append(kind)
        reqs.append(make_request(sort, specs))
        meta.append((kinds, sort))
    mo = ctx.driver.run(reqs)
    for r, m, (kinds, sort) in zip(reqs, mo, meta):
        out.evaluations += 1
        i, fails, steps = eval_session(r, kinds, sort)
        if has_unmodelled(m):
            out.unmodelled += 1
        elif m != i:
            out.disagreements.append(model_differs(r, kinds, sort, m, i))
        out.failures += fails
        if steps is None:
            continue
        for k, where, refused in steps:
            out.distribution["dev:" + kinds[k] + (":refused" if refused else ":accepted")] += 1
            if kinds[k] != "conforming":
                out.nontrivial.add(repr(where))
        if len(out.samples) < 3 and any(kd != "conforming" for kd in kinds):
            out.sample({"sorting": sort, "deviations": kinds, "excs": [s["exc"] for s in i["steps"]]})
    history_cases(ctx, out)
    scheme_value_cases(ctx, out)
    subclass_framing_cases(ctx, out)
    path_name_cases(ctx, out)
    # the translated hook bodies, interpreted, against the real methods (validates the PyIR interpreter and the translator)
    from .. import bodycases
    bodycases.hook_cases(ctx, out)
    bodycases.translation_report(ctx, out)
    return out


def replay_case(ctx, failure):
    if failure.get("kind") == "path-name" and "name" in failure:
        fails = eval_path_name(failure["name"], bool(failure.get("sorting")), int(failure.get("records", 3)))
        print("replay C06: MafWriter.from_path(%r, default gdc-1.0.0 header, Strict%s) += %d conforming records; close(); MafReader.reader_from(the same path, Strict)" % (
            failure["name"], ", assume_sorted=False under sort.order Coordinate" if failure.get("sorting") else "", int(failure.get("records", 3))))
        for x in fails:
            print("  oracle: %s" % x["what"])
        return fails
    """Re-evaluate the stored failing input on the current implementation; return the list of failure dicts it
    produces now (empty list = the property holds on that input)."""
    if isinstance(failure.get("history"), dict):
        return replay_history(ctx, failure)
    sess = failure.get("session")
    if not isinstance(sess, dict) or any(k not in sess for k in ("sorting", "deviations", "records")):
        return None          # older replay files hold only a summary of the deviating record
    sort, kinds, specs = unpack_session(sess)
    r = make_request(sort, specs, sess.get("ann", ANN))
    print("Strict %s writer, header %s" % ("sorting" if sort else "direct", r["header_lines"]))
    for k, (spec, kd) in enumerate(zip(specs, kinds)):
        sm = summarize(spec, kd)
        print("    step %d: write a %s record (%d columns)%s%s" % (k, kd, sm["n_cols"],
              "" if not sm["odd_columns"] else "; unusual columns %s" % json.dumps(sm["odd_columns"]),
              "" if not sm["mut"] else "; then mutated %s" % json.dumps(sm["mut"])))
    print("    step %d: close" % len(specs))
    i, fails, steps = eval_session(r, kinds, sort)

    def show(who, a):
        if "init_exc" in a:
            print("%s: opening the writer failed with %s" % (who, a["init_exc"]))
            return
        prev = a["init_out"]
        for k, st in enumerate(a["steps"]):
            new = st["out"][len(prev):] if st["out"].startswith(prev) else st["out"]
            nl = new.count("\n")
            print("%s: step %d %s; output grew by %d line(s)%s" % (who, k, "raised " + st["exc"] if st["exc"] else "ok", nl,
                  "" if not new or nl > 1 else ": %r" % ("\t".join(new.split("\t")[:6]) + ("..." if new.count("\t") >= 6 else ""))))
            prev = st["out"]
    show("implementation", i)
    try:
        m = ctx.driver.run([r])[0]
        if has_unmodelled(m):
            print("model: outside the model's domain")
        elif m == i:
            print("model: the same, step by step")
        else:
            show("model", m)
            print("model: differs from the implementation at step %s" % model_differs(r, kinds, sort, m, i)["step"])
    except Exception as e:  # noqa
        print("model: not available (%s)" % str(e)[:200])
    for f in fails:
        print("oracle fails%s: %s" % (" (step %d)" % f["step"] if "step" in f else "", f["what"]))
    # the stored violation first, when it is still there
    fails.sort(key=lambda f: not (f.get("kind") == failure.get("kind") and f.get("step") == failure.get("step")))
    return fails


def replay_history(ctx, failure):
    req = failure["history"]
    if any(k not in req for k in ("ann", "header_lines", "assume_sorted", "channel", "ops")):
        return None
    print("Strict %s writer for %s opened by %s, header %s; live record objects:" % (
        "direct" if req["assume_sorted"] else "sorting", req["ann"],
        {"handle": "MafWriter.from_fd", "ctor": "MafWriter(handle, header)", "plain": "MafWriter.from_path", "gz": "MafWriter.from_path(.gz)"}.get(req["channel"], req["channel"]),
        req["header_lines"]))
    i, fails, offers = eval_history(req)
    steps = i.get("steps", [])
    prev = i.get("init_out", "")
    for k, o in enumerate(req["ops"]):
        st = steps[k] if k < len(steps) else {"exc": "?", "out": prev}
        if o["k"] == "new":
            d = "record %d: %s" % (o["id"], ("MafRecord.from_line(<%d fields>, %s)" % (len(o["line"].split("\t")), o.get("mode", "Strict"))) if o["how"] == "parse" else
                                   "%d columns of the scheme's classes added through the API%s" % (len(o["cols"]), ", then record.validate(scheme)" if o.get("validate") else ""))
        elif o["k"] == "mut":
            c = req["ops"][[j for j, x in enumerate(req["ops"]) if x["k"] == "new" and x["id"] == o["id"]][0]]["cols"][o["i"]]
            d = "record %d: column object %d (%s) %s %s" % (o["id"], o["i"], c["key"], o["field"], json.dumps({x: o[x] for x in ("to", "at") if x in o}))
        elif o["k"] == "replace":
            d = "record %d: record[%r] = %s" % (o["id"], o["col"]["key"], json.dumps(o["col"]))
        elif o["k"] == "delete":
            d = "record %d: del record[%r]" % (o["id"], o["key"])
        elif o["k"] == "validate":
            d = "record %d: record.validate(scheme=%s)" % (o["id"], o["scheme"])
        elif o["k"] == "write":
            d = "record %d: offered (%s)" % (o["id"], "writer.write(record)" if o.get("call") == "write" else "writer += record")
        else:
            d = "close"
        new = st["out"][len(prev):] if st["out"].startswith(prev) else st["out"]
        res = ""
        if o["k"] in ("write", "close") or st["exc"]:
            res = " -> %s; output grew by %d line(s)" % ("raised " + st["exc"] if st["exc"] else "ok", new.count("\n"))
        print("    step %d: %s%s" % (k, d, res))
        prev = st["out"]
    try:
        mr = history_model_request(req)
        if mr is None:
            print("model: no op keeps record objects across record[name] = ... / del; implementation only")
        else:
            m = ctx.driver.run([mr])[0]
            d = None if has_unmodelled(m) else history_model_differs(req, m, i)
            print("model (every offer as a fresh record in the state of that moment): %s" % (
                "outside the model's domain" if has_unmodelled(m) else "the same on every offer and on close" if d is None else "differs at step %s: %s" % (d["step"], json.dumps(d["model"]))))
    except Exception as e:  # noqa
        print("model: not available (%s)" % str(e)[:200])
    for f in fails:
        print("oracle fails%s: %s" % (" (step %d)" % f["step"] if "step" in f else "", f["what"]))
    fails.sort(key=lambda f: not (f.get("kind") == failure.get("kind") and f.get("step") == failure.get("step")))
    return fails


def summarize(spec, kind):
    """The deviating part of a record specification (for replays)."""
    odd = [c for c in spec["cols"] if "cls" in c or c["value"].get("t") in ("other", "tuple") or (c["value"].get("t") == "str" and any(ch in c["value"]["v"] for ch in "\t\n\r;"))]
    return {"deviation": kind, "n_cols": len(spec["cols"]), "odd_columns": odd[:3], "mut": spec.get("mut")}


def search(ctx):
    return run(ctx)

