"""C06 - a Strict writer only ever emits lines that a Strict reader accepts."""
from .. import colcases, impl, sortcases as SC
from ..common import enc_val, exc_name, float_table, has_unmodelled
from ..runner import Outcome

LEVEL = "proof"
ASSUMPTIONS = ["records are built through the public API: column objects of any library class with any key / value / index, added to a record, then possibly mutated"]
ANN = "gdc-1.0.0"

ODD_VALUES = [
    {"t": "none"}, {"t": "bool", "v": True}, {"t": "bool", "v": False}, {"t": "int", "v": "0"}, {"t": "int", "v": "-3"},
    {"t": "int", "v": "7"}, {"t": "float", "v": "1.5"}, {"t": "str", "v": ""}, {"t": "str", "v": "x"}, {"t": "str", "v": "a\tb"},
    {"t": "str", "v": "a\nb"}, {"t": "str", "v": "a\rb"}, {"t": "str", "v": "a;b"}, {"t": "str", "v": "ACGT"}, {"t": "str", "v": "12"},
    {"t": "list", "v": []}, {"t": "list", "v": [{"t": "str", "v": "a"}]}, {"t": "list", "v": [{"t": "str", "v": "a;b"}]},
    {"t": "list", "v": [{"t": "str", "v": ""}]}, {"t": "list", "v": [{"t": "str", "v": "x\ty"}]},
    {"t": "tuple", "v": [{"t": "str", "v": "a"}, {"t": "str", "v": "b"}]}, {"t": "list", "v": [{"t": "int", "v": "1"}, {"t": "bool", "v": True}]},
    {"t": "tuple", "v": []}, {"t": "other", "v": "object"}, {"t": "enum", "c": "StrandEnum", "m": "Plus"},
    {"t": "enum", "c": "VariantTypeEnum", "m": "SNP"}, {"t": "uuid", "v": "12345"},
]
FOREIGN = ["NullableStringColumn", "StringColumn", "IntegerColumn", "NullableIntegerColumn", "SequenceOfStrings", "FloatColumn",
           "Canonical", "UUIDColumn", "NullableDnaString", "MafColumnRecord", "TranscriptStrand", "SequenceOfIntegers"]


def conforming_cols(rng):
    """Column specs of a conforming record: parsed values of a valid line, re-offered as API columns."""
    from maflib.record import MafRecord
    from maflib.validation import ValidationStringency as VS
    sch = impl.scheme_by_annotation(ANN)
    rec = SC.typed_record(rng, rng.choice(["T1", "T2"]), rng.choice(["N1", None]), rng.choice(["1", "X"]), rng.choice([5, 50]), 60)
    cols = []
    for k, name in enumerate(sch.column_names()):
        cols.append({"scheme": ANN, "col": name, "key": name, "value": enc_val(rec[name].value), "index": k})
    return cols, str(rec)


def deviate(rng, cols):
    """One deviation from a conforming record."""
    cols = [dict(c) for c in cols]
    mut = []
    kind = rng.choice(["value", "value", "value", "foreign", "drop", "extra", "swap-index", "rename", "mutate-value", "mutate-index", "mutate-key", "generic",
                       "subclass", "subclass"])
    k = rng.randrange(len(cols))
    if kind == "subclass":
        # a column of a proper sub-class of the scheme's class (isinstance holds), holding the sub-class's null value or the same value
        import maflib.column_types as CT
        sch = impl.scheme_by_annotation(ANN)
        cands = []
        for j, c in enumerate(cols):
            base = sch.column_class(c["key"])
            subs = [n for n, o in vars(CT).items() if isinstance(o, type) and issubclass(o, base) and o is not base and not n.startswith("_")]
            if subs:
                cands.append((j, subs))
        if cands:
            j, subs = rng.choice(cands)
            c = cols[j]
            cols[j] = {"cls": rng.choice(subs), "key": c["key"], "value": rng.choice([{"t": "none"}, c["value"]]), "index": c["index"]}
        return {"cols": cols, "mut": []}, kind
    if kind == "value":
        cols[k]["value"] = rng.choice(ODD_VALUES)
    elif kind == "foreign":
        c = cols[k]
        cols[k] = {"cls": rng.choice(FOREIGN), "key": c["key"], "value": rng.choice([c["value"]] + ODD_VALUES), "index": c["index"]}
    elif kind == "generic":
        c = cols[k]
        cols[k] = {"cls": "MafColumnRecord", "key": c["key"], "value": rng.choice([{"t": "str", "v": "abc"}, c["value"]]), "index": c["index"]}
    elif kind == "drop":
        del cols[k]
    elif kind == "extra":
        cols.append({"cls": "NullableStringColumn", "key": "Extra_Column", "value": {"t": "str", "v": "x"}, "index": None})
    elif kind == "swap-index":
        j = rng.randrange(len(cols))
        cols[k]["index"], cols[j]["index"] = cols[j]["index"], cols[k]["index"]
    elif kind == "rename":
        cols[k]["key"] = rng.choice(["Not_A_Column", cols[(k + 1) % len(cols)]["key"]])
    elif kind == "mutate-value":
        mut.append({"i": k, "field": "value", "to": rng.choice(ODD_VALUES)})
    elif kind == "mutate-index":
        mut.append({"i": k, "field": "index", "to": rng.choice([None, 0, len(cols) + 3, (k + 1) % len(cols)])})
    elif kind == "mutate-key":
        mut.append({"i": k, "field": "key", "to": rng.choice(["Not_A_Column", cols[(k + 1) % len(cols)]["key"]])})
    return {"cols": cols, "mut": mut}, kind


def strict_accepts(line):
    from maflib.record import MafRecord
    from maflib.validation import ValidationStringency as VS
    try:
        MafRecord.from_line(line, scheme=impl.scheme_by_annotation(ANN), validation_stringency=VS.Strict)
        return True
    except Exception:  # noqa
        return False


def run(ctx):
    out = Outcome()
    out.rule = ("Strict writers (direct and sorting) under gdc-1.0.0 offered conforming records interleaved with records deviating in one way: a value of a wrong Python type / out of range / "
                "containing TAB, CR, LF or ';', a column of a foreign class, a missing / extra / renamed column, swapped indexes, post-hoc mutation of value / index / key; "
                "non-trivial = a deviating record; distinct (deviation kind, position, value)")
    rng = ctx.rng("c06")
    reqs, meta = [], []
    for _ in range(ctx.scale(260, 3000)):
        sort = rng.random() < 0.35
        header = ["#version gdc-1.0.0"] + (["#sort.order Coordinate"] if sort else [])
        ops, kinds = [], []
        for _k in range(rng.randrange(1, 4)):
            cols, text = conforming_cols(rng)
            if rng.random() < 0.6:
                spec, kind = deviate(rng, cols)
            else:
                spec, kind = {"cols": cols, "mut": []}, "conforming"
            ops.append({"k": "write", "rec": spec})
            kinds.append(kind)
        ops.append({"k": "close"})
        texts = [p for o in ops if o["k"] == "write" for c in o["rec"]["cols"] if c["value"].get("t") == "str" for p in [c["value"]["v"]]]
        reqs.append({"op": "writer.run", "header_lines": header, "mode": "Strict", "assume_sorted": not sort, "ops": ops,
                     "floats": float_table(texts + ["1.5"])})
        meta.append((kinds, sort))
    mo = ctx.driver.run(reqs)
    ncols = len(impl.scheme_by_annotation(ANN).column_names())
    for r, m, (kinds, sort) in zip(reqs, mo, meta):
        out.evaluations += 1
        i = impl.run(r)
        if has_unmodelled(m):
            out.unmodelled += 1
        elif m != i:
            k = next((j for j, (a, b) in enumerate(zip(m.get("steps", []), i.get("steps", []))) if a != b), None)
            out.disagreements.append({"op": "writer.run", "kinds": kinds, "sorting": sort, "step": k,
                                      "record": None if k is None or k >= len(kinds) else summarize(r["ops"][k]["rec"], kinds[k]),
                                      "model": None if k is None else {"exc": m["steps"][k]["exc"], "tail": m["steps"][k]["out"][-80:]},
                                      "impl": None if k is None else {"exc": i["steps"][k]["exc"], "tail": i["steps"][k]["out"][-80:]}})
        if "init_exc" in i:
            out.failures.append({"what": "Strict writer could not be opened on a valid header", "kind": "init", "got": i["init_exc"]})
            continue
        prev = i["init_out"]
        accepted = 0
        for k, (o, st) in enumerate(zip(r["ops"], i["steps"])):
            where = {"sorting": sort, "deviation": kinds[k] if k < len(kinds) else "close",
                     "record": summarize(o["rec"], kinds[k]) if o["k"] == "write" else None}
            if o["k"] == "write":
                if st["exc"] is not None:
                    if not st["exc"].startswith("MafFormatException"):
                        out.failures.append(dict(where, what="a non-conforming record was refused with %s, not the library's format exception" % st["exc"],
                                                 kind="wrong-exception"))
                    if st["out"] != prev:
                        out.failures.append(dict(where, what="a refused record contributed bytes to the output", kind="bytes-on-refusal"))
                else:
                    accepted += 1
                    if not sort:
                        new = st["out"][len(prev):]
                        line = new[:-1] if new.endswith("\n") else new
                        if new.count("\n") != 1 or len(line.split("\t")) != ncols or not strict_accepts(line):
                            out.failures.append(dict(where, what="the Strict writer emitted a line that a Strict reader does not accept",
                                                     kind="emitted-nonconforming", line=line[:200]))
                out.distribution["dev:" + kinds[k] + (":refused" if st["exc"] else ":accepted")] += 1
                if kinds[k] != "conforming":
                    out.nontrivial.add(repr(where))
            else:
                if st["exc"] is not None:
                    out.failures.append(dict(where, what="closing the writer failed with %s" % st["exc"], kind="close-failed"))
            prev = st["out"]
        # the produced file is accepted in full by a Strict reader
        text = i["steps"][-1]["out"]
        lines = text.split("\n")
        if lines and lines[-1] == "":
            lines.pop()
        rd = impl.run({"op": "reader.run", "lines": lines, "mode": "Strict"})
        if rd.get("init_exc") or rd.get("iter_exc") or len(rd.get("records", [])) != accepted:
            out.failures.append({"what": "the produced file is not accepted in full by a Strict reader", "kind": "file-rejected", "sorting": sort,
                                 "deviations": kinds, "got": rd.get("init_exc") or rd.get("iter_exc") or "%d records for %d accepted" % (len(rd.get("records", [])), accepted),
                                 "records": [summarize(o["rec"], kd) for o, kd in zip(r["ops"], kinds)]})
        if len(out.samples) < 3 and any(kd != "conforming" for kd in kinds):
            out.sample({"sorting": sort, "deviations": kinds, "excs": [s["exc"] for s in i["steps"]]})
    return out


def summarize(spec, kind):
    """The deviating part of a record specification (for replays)."""
    odd = [c for c in spec["cols"] if "cls" in c or c["value"].get("t") in ("other", "tuple") or (c["value"].get("t") == "str" and any(ch in c["value"]["v"] for ch in "\t\n\r;"))]
    return {"deviation": kind, "n_cols": len(spec["cols"]), "odd_columns": odd[:3], "mut": spec.get("mut")}


def search(ctx):
    return run(ctx)

