"""C06 - a Strict writer only ever emits lines that a Strict reader accepts."""
import json

from .. import colcases, impl, sortcases as SC
from ..common import enc_val, exc_name, float_table, has_unmodelled
from ..runner import Outcome

LEVEL = "proof"
ASSUMPTIONS = ["records are built through the public API: column objects of any library class with any key / value / index, added to a record, then possibly mutated"]
ANN = "gdc-1.0.0"

ODD_VALUES = [
    {"t": "none"}, {"t": "bool", "v": True}, {"t": "bool", "v": False}, {"t": "int", "v": "0"}, {"t": "int", "v": "-3"},
    {"t": "int", "v": "7"}, {"t": "float", "v": "1.5"}, {"t": "str", "v": ""}, {"t": "str", "v": "x"}, {"t": "str", "v": "a\tb"},
    {"t": "str", "v": "a\nb"}, {"t": "str", "v": "a\rb"}, {"t": "str", "v": "a;b"}, {"t": "str", "v": "ACGT"}, {"t": "str", "v": "12"},
    {"t": "list", "v": []}, {"t": "list", "v": [{"t": "str", "v": "a"}]}, {"t": "list", "v": [{"t": "str", "v": "a;b"}]},
    {"t": "list", "v": [{"t": "str", "v": ""}]}, {"t": "list", "v": [{"t": "str", "v": "x\ty"}]},
    {"t": "tuple", "v": [{"t": "str", "v": "a"}, {"t": "str", "v": "b"}]}, {"t": "list", "v": [{"t": "int", "v": "1"}, {"t": "bool", "v": True}]},
    {"t": "tuple", "v": []}, {"t": "other", "v": "object"}, {"t": "enum", "c": "StrandEnum", "m": "Plus"},
    {"t": "enum", "c": "VariantTypeEnum", "m": "SNP"}, {"t": "uuid", "v": "12345"},
]
FOREIGN = ["NullableStringColumn", "StringColumn", "IntegerColumn", "NullableIntegerColumn", "SequenceOfStrings", "FloatColumn",
           "Canonical", "UUIDColumn", "NullableDnaString", "MafColumnRecord", "TranscriptStrand", "SequenceOfIntegers"]


def conforming_cols(rng):
    """Column specs of a conforming record: parsed values of a valid line, re-offered as API columns."""
    from maflib.record import MafRecord
    from maflib.validation import ValidationStringency as VS
    sch = impl.scheme_by_annotation(ANN)
    rec = SC.typed_record(rng, rng.choice(["T1", "T2"]), rng.choice(["N1", None]), rng.choice(["1", "X"]), rng.choice([5, 50]), 60)
    cols = []
    for k, name in enumerate(sch.column_names()):
        cols.append({"scheme": ANN, "col": name, "key": name, "value": enc_val(rec[name].value), "index": k})
    return cols, str(rec)


def deviate(rng, cols):
    """One deviation from a conforming record."""
    cols = [dict(c) for c in cols]
    mut = []
    kind = rng.choice(["value", "value", "value", "foreign", "drop", "extra", "swap-index", "rename", "mutate-value", "mutate-index", "mutate-key", "generic",
                       "subclass", "subclass"])
    k = rng.randrange(len(cols))
    if kind == "subclass":
        # a column of a proper sub-class of the scheme's class (isinstance holds), holding the sub-class's null value or the same value
        import maflib.column_types as CT
        sch = impl.scheme_by_annotation(ANN)
        cands = []
        for j, c in enumerate(cols):
            base = sch.column_class(c["key"])
            subs = [n for n, o in vars(CT).items() if isinstance(o, type) and issubclass(o, base) and o is not base and not n.startswith("_")]
            if subs:
                cands.append((j, subs))
        if cands:
            j, subs = rng.choice(cands)
            c = cols[j]
            cols[j] = {"cls": rng.choice(subs), "key": c["key"], "value": rng.choice([{"t": "none"}, c["value"]]), "index": c["index"]}
        return {"cols": cols, "mut": []}, kind
    if kind == "value":
        cols[k]["value"] = rng.choice(ODD_VALUES)
    elif kind == "foreign":
        c = cols[k]
        cols[k] = {"cls": rng.choice(FOREIGN), "key": c["key"], "value": rng.choice([c["value"]] + ODD_VALUES), "index": c["index"]}
    elif kind == "generic":
        c = cols[k]
        cols[k] = {"cls": "MafColumnRecord", "key": c["key"], "value": rng.choice([{"t": "str", "v": "abc"}, c["value"]]), "index": c["index"]}
    elif kind == "drop":
        del cols[k]
    elif kind == "extra":
        cols.append({"cls": "NullableStringColumn", "key": "Extra_Column", "value": {"t": "str", "v": "x"}, "index": None})
    elif kind == "swap-index":
        j = rng.randrange(len(cols))
        cols[k]["index"], cols[j]["index"] = cols[j]["index"], cols[k]["index"]
    elif kind == "rename":
        cols[k]["key"] = rng.choice(["Not_A_Column", cols[(k + 1) % len(cols)]["key"]])
    elif kind == "mutate-value":
        mut.append({"i": k, "field": "value", "to": rng.choice(ODD_VALUES)})
    elif kind == "mutate-index":
        mut.append({"i": k, "field": "index", "to": rng.choice([None, 0, len(cols) + 3, (k + 1) % len(cols)])})
    elif kind == "mutate-key":
        mut.append({"i": k, "field": "key", "to": rng.choice(["Not_A_Column", cols[(k + 1) % len(cols)]["key"]])})
    return {"cols": cols, "mut": mut}, kind


def strict_accepts(line):
    from maflib.record import MafRecord
    from maflib.validation import ValidationStringency as VS
    try:
        MafRecord.from_line(line, scheme=impl.scheme_by_annotation(ANN), validation_stringency=VS.Strict)
        return True
    except Exception:  # noqa
        return False


def make_request(sort, specs):
    """The writer.run request of one session: a Strict writer (sorting or direct) offered the records `specs`, then closed."""
    header = ["#version gdc-1.0.0"] + (["#sort.order Coordinate"] if sort else [])
    ops = [{"k": "write", "rec": spec} for spec in specs] + [{"k": "close"}]
    texts = [p for o in ops if o["k"] == "write" for c in o["rec"]["cols"] if c["value"].get("t") == "str" for p in [c["value"]["v"]]]
    return {"op": "writer.run", "header_lines": header, "mode": "Strict", "assume_sorted": not sort, "ops": ops,
            "floats": float_table(texts + ["1.5"])}


def pack_session(r, kinds, sort):
    """The inputs of a session, for replays: every column offered, as [key, value] when it is the scheme's column at its
    own position (class taken from the scheme, index = position), else in full."""
    recs = []
    for o in r["ops"]:
        if o["k"] != "write":
            continue
        cols = []
        for pos, c in enumerate(o["rec"]["cols"]):
            plain = c.get("scheme") == ANN and c.get("col") == c["key"] and c.get("index") == pos and set(c) == {"scheme", "col", "key", "value", "index"}
            cols.append([c["key"], c["value"]] if plain else c)
        recs.append({"cols": cols, "mut": o["rec"].get("mut", [])})
    return {"sorting": sort, "deviations": list(kinds), "records": recs}


def unpack_session(sess):
    specs = []
    for rec in sess["records"]:
        cols = [{"scheme": ANN, "col": c[0], "key": c[0], "value": c[1], "index": pos} if isinstance(c, list) else dict(c)
                for pos, c in enumerate(rec["cols"])]
        specs.append({"cols": cols, "mut": [dict(m) for m in rec.get("mut", [])]})
    return bool(sess["sorting"]), list(sess["deviations"]), specs


def eval_session(r, kinds, sort):
    """Run one writer session on the implementation and apply the oracle (shared by run and replay_case).

    Returns (implementation's answer, failures, [(step, where, refused)] for the write steps or None when the writer could not be opened)."""
    i = impl.run(r)
    fails = []
    sess = pack_session(r, kinds, sort)
    ncols = len(impl.scheme_by_annotation(ANN).column_names())
    if "init_exc" in i:
        fails.append({"what": "Strict writer could not be opened on a valid header", "kind": "init", "got": i["init_exc"], "session": sess})
        return i, fails, None
    prev = i["init_out"]
    accepted = 0
    steps = []
    for k, (o, st) in enumerate(zip(r["ops"], i["steps"])):
        where = {"sorting": sort, "deviation": kinds[k] if k < len(kinds) else "close",
                 "record": summarize(o["rec"], kinds[k]) if o["k"] == "write" else None}
        if o["k"] == "write":
            if st["exc"] is not None:
                if not st["exc"].startswith("MafFormatException"):
                    fails.append(dict(where, what="a non-conforming record was refused with %s, not the library's format exception" % st["exc"],
                                      kind="wrong-exception", step=k, session=sess))
                if st["out"] != prev:
                    fails.append(dict(where, what="a refused record contributed bytes to the output", kind="bytes-on-refusal", step=k, session=sess))
            else:
                accepted += 1
                if not sort:
                    new = st["out"][len(prev):]
                    line = new[:-1] if new.endswith("\n") else new
                    if new.count("\n") != 1 or len(line.split("\t")) != ncols or not strict_accepts(line):
                        fails.append(dict(where, what="the Strict writer emitted a line that a Strict reader does not accept",
                                          kind="emitted-nonconforming", line=line[:200], step=k, session=sess))
            steps.append((k, where, st["exc"] is not None))
        else:
            if st["exc"] is not None:
                fails.append(dict(where, what="closing the writer failed with %s" % st["exc"], kind="close-failed", step=k, session=sess))
        prev = st["out"]
    # the produced file is accepted in full by a Strict reader
    text = i["steps"][-1]["out"]
    lines = text.split("\n")
    if lines and lines[-1] == "":
        lines.pop()
    rd = impl.run({"op": "reader.run", "lines": lines, "mode": "Strict"})
    if rd.get("init_exc") or rd.get("iter_exc") or len(rd.get("records", [])) != accepted:
        fails.append({"what": "the produced file is not accepted in full by a Strict reader", "kind": "file-rejected", "sorting": sort,
                      "deviations": kinds, "got": rd.get("init_exc") or rd.get("iter_exc") or "%d records for %d accepted" % (len(rd.get("records", [])), accepted),
                      "records": [summarize(o["rec"], kd) for o, kd in zip(r["ops"], kinds)], "session": sess})
    return i, fails, steps


def model_differs(r, kinds, sort, m, i):
    k = next((j for j, (a, b) in enumerate(zip(m.get("steps", []), i.get("steps", []))) if a != b), None)
    return {"op": "writer.run", "kinds": kinds, "sorting": sort, "step": k,
            "record": None if k is None or k >= len(kinds) else summarize(r["ops"][k]["rec"], kinds[k]),
            "model": None if k is None else {"exc": m["steps"][k]["exc"], "tail": m["steps"][k]["out"][-80:]},
            "impl": None if k is None else {"exc": i["steps"][k]["exc"], "tail": i["steps"][k]["out"][-80:]}}


def run(ctx):
    out = Outcome()
    out.rule = ("Strict writers (direct and sorting) under gdc-1.0.0 offered conforming records interleaved with records deviating in one way: a value of a wrong Python type / out of range / "
                "containing TAB, CR, LF or ';', a column of a foreign class, a missing / extra / renamed column, swapped indexes, post-hoc mutation of value / index / key; "
                "non-trivial = a deviating record; distinct (deviation kind, position, value)")
    rng = ctx.rng("c06")
    reqs, meta = [], []
    for _ in range(ctx.scale(260, 3000)):
        sort = rng.random() < 0.35
        specs, kinds = [], []
        for _k in range(rng.randrange(1, 4)):
            cols, text = conforming_cols(rng)
            if rng.random() < 0.6:
                spec, kind = deviate(rng, cols)
            else:
                spec, kind = {"cols": cols, "mut": []}, "conforming"
            specs.append(spec)
            kinds.append(kind)
        reqs.append(make_request(sort, specs))
        meta.append((kinds, sort))
    mo = ctx.driver.run(reqs)
    for r, m, (kinds, sort) in zip(reqs, mo, meta):
        out.evaluations += 1
        i, fails, steps = eval_session(r, kinds, sort)
        if has_unmodelled(m):
            out.unmodelled += 1
        elif m != i:
            out.disagreements.append(model_differs(r, kinds, sort, m, i))
        out.failures += fails
        if steps is None:
            continue
        for k, where, refused in steps:
            out.distribution["dev:" + kinds[k] + (":refused" if refused else ":accepted")] += 1
            if kinds[k] != "conforming":
                out.nontrivial.add(repr(where))
        if len(out.samples) < 3 and any(kd != "conforming" for kd in kinds):
            out.sample({"sorting": sort, "deviations": kinds, "excs": [s["exc"] for s in i["steps"]]})
    return out


def replay_case(ctx, failure):
    """Re-evaluate the stored failing input on the current implementation; return the list of failure dicts it
    produces now (empty list = the property holds on that input)."""
    sess = failure.get("session")
    if not isinstance(sess, dict) or any(k not in sess for k in ("sorting", "deviations", "records")):
        return None          # older replay files hold only a summary of the deviating record
    sort, kinds, specs = unpack_session(sess)
    r = make_request(sort, specs)
    print("Strict %s writer, header %s" % ("sorting" if sort else "direct", r["header_lines"]))
    for k, (spec, kd) in enumerate(zip(specs, kinds)):
        sm = summarize(spec, kd)
        print("    step %d: write a %s record (%d columns)%s%s" % (k, kd, sm["n_cols"],
              "" if not sm["odd_columns"] else "; unusual columns %s" % json.dumps(sm["odd_columns"]),
              "" if not sm["mut"] else "; then mutated %s" % json.dumps(sm["mut"])))
    print("    step %d: close" % len(specs))
    i, fails, steps = eval_session(r, kinds, sort)

    def show(who, a):
        if "init_exc" in a:
            print("%s: opening the writer failed with %s" % (who, a["init_exc"]))
            return
        prev = a["init_out"]
        for k, st in enumerate(a["steps"]):
            new = st["out"][len(prev):] if st["out"].startswith(prev) else st["out"]
            nl = new.count("\n")
            print("%s: step %d %s; output grew by %d line(s)%s" % (who, k, "raised " + st["exc"] if st["exc"] else "ok", nl,
                  "" if not new or nl > 1 else ": %r" % ("\t".join(new.split("\t")[:6]) + ("..." if new.count("\t") >= 6 else ""))))
            prev = st["out"]
    show("implementation", i)
    try:
        m = ctx.driver.run([r])[0]
        if has_unmodelled(m):
            print("model: outside the model's domain")
        elif m == i:
            print("model: the same, step by step")
        else:
            show("model", m)
            print("model: differs from the implementation at step %s" % model_differs(r, kinds, sort, m, i)["step"])
    except Exception as e:  # noqa
        print("model: not available (%s)" % str(e)[:200])
    for f in fails:
        print("oracle fails%s: %s" % (" (step %d)" % f["step"] if "step" in f else "", f["what"]))
    # the stored violation first, when it is still there
    fails.sort(key=lambda f: not (f.get("kind") == failure.get("kind") and f.get("step") == failure.get("step")))
    return fails


def summarize(spec, kind):
    """The deviating part of a record specification (for replays)."""
    odd = [c for c in spec["cols"] if "cls" in c or c["value"].get("t") in ("other", "tuple") or (c["value"].get("t") == "str" and any(ch in c["value"]["v"] for ch in "\t\n\r;"))]
    return {"deviation": kind, "n_cols": len(spec["cols"]), "odd_columns": odd[:3], "mut": spec.get("mut")}


def search(ctx):
    return run(ctx)

