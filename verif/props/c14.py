"""C14 - scheme resolution and inheritance produce a unique, order-independent layout."""
import itertools
import json
import os
import subprocess
import sys
import tempfile

from .. import impl
from ..common import VERIF, exc_name, has_unmodelled
from ..runner import Outcome

LEVEL = "proof"
ASSUMPTIONS = ["definitions are JSON files in the library's schema format; column types are drawn from the library's own column types",
               "class-level identity of synthesised classes is compared through MRO names"]
TYPES = ["StringColumn", "NullableStringColumn", "IntegerColumn", "NullableIntegerColumn", "ZeroBasedIntegerColumn",
         "NullableFloatColumn", "NullableDnaString", "SequenceOfStrings", "UUIDColumn", "NullableYesOrNo"]
EXTRAS = ["RequireNullValue", "RequireNullValue", "ZeroBasedIntegerColumn", "NullableIntegerColumn", "StringColumn"]


def gen_forest(rng):
    """A random inheritance forest (overrides, filters, new columns), plus optional injected defects."""
    n = rng.randrange(1, 6)
    defs = []
    for k in range(n):
        ann = "t-1.0.%d" % k if k else "t-1.0.0"
        base = None if k == 0 or rng.random() < 0.2 else rng.choice(defs)["annotation"]
        cols = []
        names_so_far = [c[0] for d in defs for c in d["columns"]]
        for j in range(rng.randrange(0, 4)):
            if base and names_so_far and rng.random() < 0.35:
                nm = rng.choice(names_so_far)
                ex = rng.choice(EXTRAS)
                # only redefinitions Python can linearise (C3): un-linearisable mixes raise TypeError at
                # class creation, which is outside the property and outside the model
                if linearisable(defs, nm, ex):
                    cols.append([nm, ex])
            else:
                cols.append(["c%d_%d" % (k, j), rng.choice(TYPES)])
        # column names distinct within a definition
        seen, cc = set(), []
        for c in cols:
            if c[0] not in seen:
                seen.add(c[0])
                cc.append(c)
        filt = None
        if base and rng.random() < 0.4:
            pool = [c[0] for d in defs for c in d["columns"]]
            filt = sorted(set(rng.sample(pool, min(len(pool), rng.randrange(0, 3))))) if pool else []
        defs.append({"version": "t-1.0.0", "annotation": ann, "extends": base, "filtered": filt, "columns": cc})
    defect = None
    k = rng.random()
    if k < 0.08:
        defs[-1]["extends"] = "no-such-scheme"
        defect = "unknown-base"
    elif k < 0.14 and len(defs) >= 2:
        defs[0]["extends"] = defs[-1]["annotation"]
        if defs[-1]["extends"] is None:
            defs[-1]["extends"] = defs[0]["annotation"]
        defect = "cycle?"
    elif k < 0.2:
        defs[-1]["columns"].append(["zz", "NoSuchColumnType"])
        defect = "unknown-type"
    elif k < 0.28:
        defs[-1]["filtered"] = (defs[-1]["filtered"] or []) + ["no_such_column"]
        defect = "missing-filter"
    elif k < 0.36:
        d = dict(defs[rng.randrange(len(defs))])
        d["columns"] = d["columns"] + [["dup_extra", "StringColumn"]]
        if rng.random() < 0.5:
            d["version"] = "t-9.9.9"
        defs.append(d)
        defect = "duplicate-annotation"
    return defs, defect


def linearisable(defs, name, extra):
    """Would every class this column name carries so far accept `extra` mixed in front? (generation only)"""
    import maflib.column_types as CT
    # the classes the name has carried so far, oldest first (a redefinition of a redefinition is allowed)
    chain = [t for d in defs for n, t in d["columns"] if n == name]
    if not chain or extra in chain:
        return False
    try:
        cls = getattr(CT, chain[0])
        for t in chain[1:] + [extra]:
            cls = type(cls.__name__, (getattr(CT, t), cls), {})
        return True
    except TypeError:
        return False


def write_defs(defs, d):
    paths = []
    for k, df in enumerate(defs):
        p = os.path.join(d, "def%d.json" % k)
        with open(p, "w") as h:
            json.dump({"version": df["version"], "annotation-spec": df["annotation"],
                       "extends": df["extends"] if df["extends"] is not None else "None",
                       "filtered": df["filtered"] if df["filtered"] is not None else "None",
                       "columns": df["columns"]}, h)
        paths.append(p)
    return paths


def build_impl(defs):
    """load_all_scheme_data + build_schemes + validate_schemes on the definitions in this order."""
    from maflib.column_types import get_column_types
    from maflib.scheme_factory import build_schemes, load_all_scheme_data, validate_schemes
    from maflib.schemes import NoRestrictionsScheme
    with tempfile.TemporaryDirectory() as d:
        paths = write_defs(defs, d)
        try:
            data = load_all_scheme_data(filenames=paths, column_types=get_column_types())
            schemes = build_schemes(data=data)
            validate_schemes([NoRestrictionsScheme] + list(schemes.values()))
        except Exception as e:  # noqa
            return {"exc": exc_name(e)}
    out = []
    for ann, cls in schemes.items():
        s = cls()
        out.append({"annotation": ann, "version": s.version(), "names": s.column_names(),
                    "mros": [[c.__name__ for c in s.column_class(n).__mro__ if c is not object] for n in s.column_names()]})
    return {"schemes": out}


def canon(res):
    if "exc" in res:
        return res
    return {"schemes": sorted(res["schemes"], key=lambda s: (s["annotation"], s["version"]))}


def expected_layout(defs, ann, seen=()):
    """The documented layout: base layout in base order without the filtered columns, then the new columns."""
    ds = [d for d in defs if d["annotation"] == ann]
    if len(ds) != 1 or ann in seen:
        return None
    d = ds[0]
    own = [c[0] for c in d["columns"]]
    if not d["extends"]:
        base = []
    else:
        base = expected_layout(defs, d["extends"], seen + (ann,))
        if base is None:
            return None
    names = list(base) + [n for n in own if n not in base]
    if d["filtered"] is not None:
        if any(f not in names for f in d["filtered"]):
            return None
        names = [n for n in names if n not in d["filtered"]]
    return names


def type_chain(defs, ann, name):
    """The types column `name` has been given along the inheritance path of `ann`, oldest first."""
    d = [x for x in defs if x["annotation"] == ann][0]
    chain = type_chain(defs, d["extends"], name) if d["extends"] else []
    chain = chain + [t for n, t in d["columns"] if n == name]
    if d["filtered"] is not None and name in d["filtered"]:
        return []          # the column is removed here; a later definition may introduce the name afresh
    return chain


def should_reject(defs):
    anns = [d["annotation"] for d in defs]
    if len(set(anns)) != len(anns):
        return "duplicate definition"
    import maflib.column_types as CT
    from maflib.column import MafColumnRecord
    for d in defs:
        for _n, t in d["columns"]:
            cls = getattr(CT, t, None)
            if cls is None or not (isinstance(cls, type) and issubclass(cls, MafColumnRecord)):
                return "unknown column type"
    for d in defs:
        if expected_layout(defs, d["annotation"]) is None:
            return "unknown base, cycle or missing filtered column"
    return None


def brief(res):
    return res if "exc" in res else [s["annotation"] + ":" + ",".join(s["names"]) for s in res["schemes"]]


def differs(m, r):
    """Where a model outcome differs from the implementation's (for the printed account)."""
    if brief(m) != brief(r) or "exc" in m:
        return brief(m)
    return "same layouts, class chains differ: " + "; ".join(
        "%s.%s model %s implementation %s" % (a["annotation"], n, x, y)
        for a, b in zip(m["schemes"], r["schemes"]) for n, x, y in zip(a["names"], a["mros"], b["mros"]) if x != y)


def eval_forest(defs, defect, orders):
    """One set of definitions loaded in each of `orders` (permutations of range(len(defs))) on the implementation + the
    property's oracle.  Returns (results = [(order, canonical outcome)], failures, why = reason the definitions have to be
    rejected or None)."""
    results = []
    for od in orders:
        ordered = [defs[k] for k in od]
        results.append((tuple(od), canon(build_impl(ordered))))
    failures = []
    where = {"defs": defs, "injected": defect, "tried": [list(od) for od, _r in results]}
    first = results[0][1]
    diff = [od for od, r in results if r != first]
    if diff:
        other = [r for od, r in results if od == diff[0]][0]
        failures.append(dict(where, what="the outcome depends on the order in which definitions are loaded", kind="order-dependent",
                             orders=[list(results[0][0]), list(diff[0])],
                             outcomes=[brief(first), brief(other)]))
        return results, failures, None
    why = should_reject(defs)
    if why:
        if "exc" not in first:
            failures.append(dict(where, what="definitions with %s were not rejected" % why, kind="not-rejected"))
        elif first["exc"] != "ValueError":
            failures.append(dict(where, what="rejected with %s instead of ValueError" % first["exc"], kind="wrong-error"))
    else:
        if "exc" in first:
            failures.append(dict(where, what="well-formed definitions were rejected (%s)" % first["exc"], kind="false-reject"))
        else:
            for s in first["schemes"]:
                want = expected_layout(defs, s["annotation"])
                if s["names"] != want:
                    failures.append(dict(where, what="layout of %s is not 'base layout without filtered columns, then new columns'" % s["annotation"],
                                         kind="layout", expected=want, got=s["names"]))
                    break
                # every constraint given to a column along the inheritance path is still enforced: each class of the
                # chain is in the MRO of the resolved class, the most recent redefinition first
                for n, mro in zip(s["names"], s["mros"]):
                    chain = type_chain(defs, s["annotation"], n)
                    if any(t not in mro for t in chain):
                        failures.append(dict(where, what="column %s of %s lost a constraint of its inheritance chain %s" % (n, s["annotation"], chain),
                                             kind="override-lost", got=mro))
                        break
                # a redefined column keeps the inherited class behind the added one
                for n, mro in zip(s["names"], s["mros"]):
                    d = [x for x in defs if x["annotation"] == s["annotation"]][0]
                    own = dict(d["columns"])
                    if d["extends"] and n in own and n in (expected_layout(defs, d["extends"]) or []):
                        if len(mro) < 3 or mro[1] != own[n]:
                            failures.append(dict(where, what="redefined column %s does not put the added class in front of the inherited one" % n,
                                                 kind="override", got=mro))
                            break
            if len(set(s["annotation"] for s in first["schemes"])) != len(defs):
                failures.append(dict(where, what="not every definition resolves to exactly one scheme", kind="missing-scheme"))
    return results, failures, why


# The library builds classes while it resolves definitions; a change that keeps state between builds (a cache of
# synthesised classes, say) makes the outcome for one forest depend on the forests built earlier in the same process.
# `run` therefore remembers what it built, in order; `shrink` finds out, in fresh interpreters, whether the reported
# forest fails on its own and otherwise which earlier builds it needs (stored as `prelude`, rebuilt first by replay_case).
HISTORY = []


def _isolated(payload):
    """Entry point of the fresh interpreter: build the prelude, then the case; print the case's failures."""
    for p in payload["prelude"]:
        eval_forest(p["defs"], None, [tuple(od) for od in p["tried"]])
    c = payload["case"]
    _r, failures, _w = eval_forest(c["defs"], c.get("injected"), [tuple(od) for od in c["tried"]])
    print("ISOLATED " + json.dumps([f["kind"] for f in failures]))


def fails_in_fresh_process(prelude, case, kind):
    code = "import sys, json; sys.path.insert(0, %r); from verif.props import c14; c14._isolated(json.load(sys.stdin))" % VERIF
    try:
        p = subprocess.run([sys.executable, "-W", "ignore", "-c", code], input=json.dumps({"prelude": prelude, "case": case}), cwd=VERIF,
                           stdout=subprocess.PIPE, stderr=subprocess.DEVNULL, text=True, timeout=900)
    except subprocess.TimeoutExpired:
        return False
    for line in p.stdout.splitlines():
        if line.startswith("ISOLATED "):
            return kind in json.loads(line[len("ISOLATED "):])
    return False


def ddmin(items, test, budget):
    """Delta debugging: a small sublist of `items` (order kept) on which `test` still holds; at most `budget` tests."""
    n = 2
    while len(items) >= 2 and budget > 0:
        size = -(-len(items) // n)
        parts = [items[k:k + size] for k in range(0, len(items), size)]
        cands = [(part, 2) for part in parts]
        if len(parts) > 2:
            cands += [([x for j, q in enumerate(parts) if j != k for x in q], max(n - 1, 2)) for k in range(len(parts))]
        for cand, nn in cands:
            if budget <= 0:
                break
            budget -= 1
            if test(cand):
                items, n = cand, nn
                break
        else:
            if n >= len(items):
                break
            n = min(len(items), n * 2)
    return items


def shrink(ctx, f):
    """Make the reported failure reproducible from its own content: when the forest does not fail in a fresh interpreter,
    add the (minimised) list of earlier builds of this run that it depends on."""
    seq = f.get("seq")
    if "defs" not in f or "tried" not in f or seq is None or seq >= len(HISTORY) or HISTORY[seq]["defs"] != f["defs"]:
        return f
    case = {"defs": f["defs"], "injected": f.get("injected"), "tried": f["tried"]}
    kind = f["kind"]
    if fails_in_fresh_process([], case, kind):
        return f
    one = [{"defs": h["defs"], "tried": h["tried"][:1]} for h in HISTORY[:seq]]
    if fails_in_fresh_process(one, case, kind):
        prelude = one
    elif fails_in_fresh_process(HISTORY[:seq], case, kind):
        prelude = HISTORY[:seq]
    else:
        return dict(f, note="not reproduced in a fresh interpreter, neither alone nor after the %d earlier forests of the run" % seq)
    prelude = ddmin(prelude, lambda sub: fails_in_fresh_process(sub, case, kind), 60)
    return dict(f, prelude=prelude, shrunk_from=seq)


def eval_returned_lists(ann):
    """A scheme's layout is the scheme's, not the caller's: editing the lists its accessors hand out (names.sort(),
    names += [...], del names[0]) must not change what the same scheme instance answers afterwards."""
    from maflib import scheme_factory as SF
    from . import c20
    want = c20.layout_of(ann, {})
    sch = SF.find_scheme(version="gdc-1.0.0", annotation=None if ann == "gdc-1.0.0" else ann)
    where = {"kind": "returned-list", "annotation": ann}
    if sch is None or want is None:
        return [dict(where, what="the shipped scheme %s does not resolve" % ann)]
    fails = []
    for how in ("column_names", "column_descriptions"):
        try:
            got = getattr(sch, how)()
            if isinstance(got, list):
                got.append("Foreign_Name")
                got.reverse()
                del got[0]
        except Exception as e:  # noqa
            fails.append(dict(where, what="%s() failed with %s" % (how, exc_name(e))))
    names = sch.column_names()
    if names != want:
        fails.append(dict(where, what="after a caller edited the lists handed out by the scheme's accessors, the same scheme instance reports another layout (%d names, first %r)" % (
            len(names), names[:3])))
    elif [sch.column_index(n) for n in names] != list(range(len(names))) or len(sch) != len(names):
        fails.append(dict(where, what="after a caller edited the lists handed out by the scheme's accessors, names, indexes and length of the same scheme instance disagree"))
    return fails


def eval_types_list_edited():
    """The table of known column types is the library's: a caller that adds its own type to the list get_column_types()
    hands out (to pass it on explicitly) has not taught the library's own loaders that type - a definition naming it is
    still a definition with an unknown column type, and is rejected."""
    import json
    import os
    import tempfile
    from maflib import column_types as CT
    from maflib import scheme_factory as SF
    where = {"kind": "types-list-edited"}

    class PercentColumn(CT.FloatColumn):
        pass
    d = {"version": "lab-9.0.0", "annotation-spec": "lab-9.0.0", "extends": "gdc-1.0.0", "filtered": "None", "columns": [["lab_percent", "PercentColumn"]]}
    fails = []
    with tempfile.TemporaryDirectory() as tmp:
        p = os.path.join(tmp, "lab.json")
        with open(p, "w") as h:
            json.dump(d, h)

        def accepted():
            try:
                SF.load_all_schemes(extra_filenames=[p])
                return True
            except Exception:  # noqa
                return False
        if accepted():
            return []          # (the type is known without any edit: not this case)
        handed = CT.get_column_types()
        entry = ("PercentColumn", PercentColumn)
        try:
            handed.append(entry)
            if accepted():
                fails.append(dict(where, what="after a caller appended its own type to the list handed out by get_column_types(), the library's own loader "
                                              "accepts a definition naming that type (an unknown column type is no longer rejected)"))
        finally:
            try:
                handed.remove(entry)
            except ValueError:
                pass
    return fails


def eval_deep_chain(n):
    """An inheritance chain of n definitions (each extends the one before and adds nothing), listed base first and leaf
    first: both orders resolve, to the same layouts.  (The depth of a chain is not bounded by the property; the oracle
    computes the expected layout directly, without recursion.)"""
    defs = [{"version": "t-1.0.0", "annotation": "t-1.0.0", "extends": None, "filtered": None, "columns": [["c0", "StringColumn"]]}]
    for k in range(1, n):
        defs.append({"version": "t-1.0.0", "annotation": "t-1.0.0-%d" % k, "extends": defs[-1]["annotation"], "filtered": None,
                     "columns": [["c%d" % k, "NullableStringColumn"]] if k % 400 == 0 else []})
    want = {}
    names = []
    for d in defs:
        names = names + [c[0] for c in d["columns"]]
        want[d["annotation"]] = names
    where = {"kind": "deep-chain", "levels": n}
    fails = []
    for label, ordered in (("base first", defs), ("leaf first", defs[::-1])):
        res = build_impl(ordered)
        if "exc" in res:
            fails.append(dict(where, order=label, what="a chain of %d well-formed definitions listed %s was rejected (%s)" % (n, label, res["exc"])))
            continue
        got = {x["annotation"]: x["names"] for x in res["schemes"]}
        if got != want:
            bad = [a for a in want if got.get(a) != want[a]][:3]
            fails.append(dict(where, order=label, what="a chain of %d definitions listed %s resolves to other layouts than 'base layout, then new columns' (e.g. %s)" % (n, label, bad)))
    return fails


def eval_existing_table():
    """The direct entry point build_schemes(data, existing=table) with a table the caller keeps across calls: a call that
    is refused (one definition of the set has an unknown base) leaves the caller's table as it was, and a later load of a
    corrected definition under the same annotation resolves to the corrected layout."""
    from maflib.column_types import get_column_types
    from maflib.scheme_factory import build_schemes, load_all_scheme_data
    where = {"kind": "existing-table"}
    first = [{"version": "t-1.0.0", "annotation": "t-1.0.0", "extends": None, "filtered": None, "columns": [["Key", "StringColumn"], ["Pos", "NullableIntegerColumn"], ["Depth", "NullableIntegerColumn"]]},
             {"version": "t-1.0.0", "annotation": "t-1.0.0-x", "extends": "no-such-base", "filtered": None, "columns": [["n", "NullableStringColumn"]]}]
    later = [{"version": "t-1.0.0", "annotation": "t-1.0.0", "extends": None, "filtered": None, "columns": [["Pos", "NullableIntegerColumn"], ["Caller", "StringColumn"], ["Score", "NullableFloatColumn"]]}]
    table = {}

    def build(defs):
        with tempfile.TemporaryDirectory() as d:
            data = load_all_scheme_data(filenames=write_defs(defs, d), column_types=get_column_types())
            return build_schemes(data=data, existing=table)
    try:
        build(first)
        return []                    # (the set with an unknown base was accepted: the other families judge that)
    except Exception:  # noqa
        pass
    if table:
        return [dict(where, what="a refused build_schemes(data, existing=table) call left %s in the caller's table" % sorted(table))]
    try:
        res = build(later)
    except Exception as e:  # noqa
        return [dict(where, what="after a refused call, loading a corrected definition with the caller's table failed with %s" % exc_name(e))]
    names = res["t-1.0.0"]().column_names() if "t-1.0.0" in res else None
    if names != ["Pos", "Caller", "Score"]:
        return [dict(where, what="after a refused call, the corrected definition of t-1.0.0 resolves to %s instead of its own columns" % names)]
    return []


def returned_list_cases(ctx, out):
    for ann in ["gdc-1.0.0", "gdc-1.0.0-public", "gdc-2.0.0-aliquot-merged-masked"]:
        out.evaluations += 1
        out.failures += eval_returned_lists(ann)
        out.distribution["scheme accessors' lists edited by the caller"] += 1
        out.nontrivial.add(("returned-list", ann))
    out.evaluations += 1
    out.failures += eval_existing_table()
    out.distribution["caller-kept table of built schemes across a refused call"] += 1
    out.nontrivial.add(("existing-table",))
    out.evaluations += 1
    out.failures += eval_deep_chain(1100)
    out.distribution["inheritance chain of 1100 definitions, base first and leaf first"] += 1
    out.nontrivial.add(("deep-chain",))
    out.evaluations += 1
    out.failures += eval_types_list_edited()
    out.distribution["list of column types edited by the caller"] += 1
    out.nontrivial.add(("types-list",))


def eval_registry_duplicate(case):
    """The same rule through the registry (all_schemes(extra_filenames=...)), in a fresh interpreter: a definition whose
    annotation is already defined - by a shipped definition or by an earlier registration - must be rejected with an
    error, and the registry must resolve what it resolved before."""
    from . import c20
    first, dup, probe = case["first"], case["dup"], case["probe"]
    ops = ([{"k": "register", "defs": [first]}] if first else []) + [
        {"k": "find", "version": probe[0], "annotation": probe[1]},
        {"k": "register", "defs": [dup]},
        {"k": "find", "version": probe[0], "annotation": probe[1]}]
    res = c20.run_history({"ops": ops, "late_import": case.get("late_import", False)})
    where = dict(case, kind="registry-duplicate")
    if "crash" in res:
        return [dict(where, what="the registration history crashed the interpreter", got=res["crash"][-300:])]
    st = res["steps"][-3:]
    fails = []
    if st[1].get("exc") is None:
        fails.append(dict(where, what="a second definition of the already defined annotation %r was accepted by all_schemes(extra_filenames=...) (one of the two silently dropped)" % dup["annotation"]))
    elif st[0] != st[2]:
        fails.append(dict(where, what="a rejected registration changed what (%s, %s) resolves to" % tuple(probe)))
    return fails


def eval_registry_rejected(case):
    """A registration that is rejected leaves nothing behind: the rejected definition does not resolve later (not even once
    its missing base has been registered by itself), and a later registration of good definitions is not refused because
    of it."""
    from . import c20
    bad, later = case["bad"], case["later"]
    ops = [{"k": "register", "defs": [bad]},
           {"k": "register", "defs": [later]},
           {"k": "find", "version": later["version"], "annotation": later["annotation"]},
           {"k": "find", "version": bad["version"], "annotation": bad["annotation"]}]
    res = c20.run_history({"ops": ops, "late_import": case.get("late_import", False)})
    where = dict(case, kind="registry-rejected")
    if "crash" in res:
        return [dict(where, what="the registration history crashed the interpreter", got=res["crash"][-300:])]
    st = res["steps"]
    fails = []
    if st[0].get("exc") is None:
        return []                      # (not rejected: the other families judge what an accepted definition must look like)
    if st[1].get("exc") is not None:
        fails.append(dict(where, what="after a rejected registration, registering a well-formed definition is refused (%s)" % st[1]["exc"]))
    elif st[2].get("annotation") != later["annotation"]:
        fails.append(dict(where, what="after a rejected registration, a well-formed definition registered later does not resolve"))
    elif st[3].get("found", "x") is not None or "annotation" in st[3]:
        fails.append(dict(where, what="a definition whose only registration was rejected resolves after a later registration"))
    return fails


def registry_rejected_cases(ctx, out):
    rng = ctx.rng("c14-rejected")
    for k in range(ctx.scale(6, 30)):
        base = {"version": "core-%d.0" % k, "annotation": "core-%d.0" % k, "extends": None, "filtered": None, "columns": [["A_Col", "NullableStringColumn"]]}
        if rng.random() < 0.5:        # unknown base, then the base alone
            bad = {"version": "core-%d.0" % k, "annotation": "core-%d.0-ext" % k, "extends": base["annotation"], "filtered": None, "columns": [["B_Col", "NullableStringColumn"]]}
            later = base
        else:                         # unknown column type, then an unrelated good definition
            bad = {"version": "odd-%d" % k, "annotation": "odd-%d-x" % k, "extends": rng.choice([None, "gdc-1.0.0"]), "filtered": None, "columns": [["B_Col", "NoSuchColumnType"]]}
            later = base
        case = {"bad": bad, "later": later, "late_import": rng.random() < 0.3}
        out.evaluations += 1
        out.failures += eval_registry_rejected(case)
        out.distribution["registry: a rejected registration, then a good one"] += 1
        out.nontrivial.add(json.dumps(case, sort_keys=True))


def registry_duplicate_cases(ctx, out):
    rng = ctx.rng("c14-registry")
    shipped = ["gdc-1.0.0-protected", "gdc-1.0.0-public", "gdc-1.0.0"]
    for k in range(ctx.scale(6, 30)):
        col = ["My_Column_%d" % k, rng.choice(["NullableStringColumn", "StringColumn", "NullableIntegerColumn"])]
        if k % 5 == 4:
            # the pair of the pseudo-scheme every registry holds
            case = {"first": None, "dup": {"version": "no-version", "annotation": "no-annotation-specification", "extends": None, "filtered": None, "columns": [col]},
                    "probe": ["gdc-1.0.0", None]}
        elif rng.random() < 0.5:
            ann = rng.choice(shipped)
            case = {"first": None, "dup": {"version": "gdc-1.0.0", "annotation": ann, "extends": rng.choice([None, "gdc-1.0.0"]) if ann != "gdc-1.0.0" else None,
                                            "filtered": None, "columns": [col]}, "probe": ["gdc-1.0.0", None if ann == "gdc-1.0.0" else ann]}
        else:
            first = {"version": "lab-1.0.%d" % k, "annotation": "lab-1.0.%d-x" % k, "extends": rng.choice([None, "gdc-1.0.0"]), "filtered": None, "columns": [["A_Col", "NullableStringColumn"]]}
            case = {"first": first, "dup": dict(first, columns=[col], version=rng.choice([first["version"], "other-2.0"])), "probe": [first["version"], first["annotation"]]}
        case["late_import"] = rng.random() < 0.3
        out.evaluations += 1
        out.failures += eval_registry_duplicate(case)
        out.distribution["registry: second definition of a defined annotation"] += 1
        out.nontrivial.add(json.dumps(case, sort_keys=True))


def run(ctx):
    out = Outcome()
    out.rule = ("random inheritance forests of 1-6 definitions (overrides with RequireNullValue and other types, filters, new columns) with injected defects (unknown base, cycle, unknown type, "
                "missing filtered column, duplicate annotation with same / different version), each loaded in several orders (all orders when <= 4 definitions); the 14 shipped definitions in shuffled orders; "
                "non-trivial = forest with inheritance; distinct forests")
    rng = ctx.rng("c14")
    reqs, impls = [], []
    del HISTORY[:]
    for _ in range(ctx.scale(150, 1500)):
        defs, defect = gen_forest(rng)
        orders = list(itertools.permutations(range(len(defs)))) if len(defs) <= 4 else [tuple(rng.sample(range(len(defs)), len(defs))) for _ in range(8)]
        rng.shuffle(orders)
        orders = orders[:ctx.scale(4, 24)]
        results, failures, why = eval_forest(defs, defect, orders)
        for f in failures:
            f["seq"] = len(HISTORY)         # ordinal of this forest in the run (see shrink)
        HISTORY.append({"defs": defs, "tried": [list(od) for od in orders]})
        for od, res in results:
            out.evaluations += 1
            reqs.append({"op": "schemes.build", "defs": [defs[k] for k in od]})
            impls.append(res)
        out.failures += failures
        if failures and failures[0]["kind"] == "order-dependent":
            continue
        if why:
            out.distribution["rejected:" + why] += 1
        else:
            out.distribution["accepted"] += 1
        if any(d["extends"] for d in defs):
            out.nontrivial.add(json.dumps(defs, sort_keys=True))
        if len(out.samples) < 3 and len(defs) >= 3 and not defect:
            out.sample({"defs": [{k: d[k] for k in ("annotation", "extends", "filtered")} | {"columns": d["columns"]} for d in defs]})
    shipped_orders(ctx, out, rng)
    registry_duplicate_cases(ctx, out)
    registry_rejected_cases(ctx, out)
    returned_list_cases(ctx, out)
    mo = ctx.driver.run(reqs)
    for r, m, i in zip(reqs, mo, impls):
        m = canon(m)
        if has_unmodelled(m):
            out.unmodelled += 1
        elif m != i:
            out.disagreements.append({"op": "schemes.build", "defs": r["defs"], "model": brief(m), "impl": brief(i)})
    return out


def resolve_shipped(od):
    from maflib.column_types import get_column_types
    from maflib.scheme_factory import build_schemes, load_all_scheme_data
    schemes = build_schemes(load_all_scheme_data(od, get_column_types()))
    return {a: (c.version(), c().column_names(), [[k.__name__ for k in c().column_class(n).__mro__] for n in c().column_names()])
            for a, c in schemes.items()}


def eval_shipped(ref_order, od, ref=None):
    """The shipped definition files loaded in order `od` resolve as they do in `ref_order` (`ref`: that resolution, when
    the caller has it already).  Returns (failures, differing annotations)."""
    if ref is None:
        ref = resolve_shipped(ref_order)
    res = ref if list(od) == list(ref_order) else resolve_shipped(od)
    if res != ref:
        return [{"what": "the shipped definitions resolve differently in another directory order", "kind": "order-dependent-shipped",
                 "order": [os.path.basename(f) for f in od], "reference_order": [os.path.basename(f) for f in ref_order]}], \
            sorted(a for a in set(ref) | set(res) if ref.get(a) != res.get(a))
    return [], []


def shipped_orders(ctx, out, rng):
    """The 14 shipped definitions in random directory-listing orders."""
    from maflib.scheme_factory import get_built_in_filenames
    files = sorted(get_built_in_filenames())
    ref_order = ref = None
    for _ in range(ctx.scale(6, 60)):
        out.evaluations += 1
        od = list(files)
        rng.shuffle(od)
        if ref_order is None:
            ref_order, ref = od, resolve_shipped(od)
        failures, _diff = eval_shipped(ref_order, od, ref)
        out.failures += failures
    out.nontrivial.add("shipped")


def replay_case(ctx, failure):
    if failure.get("kind") == "existing-table":
        fails = eval_existing_table()
        print("replay C14: table = {}; build_schemes(<a buildable definition + one with an unknown base>, existing=table) is refused; then build_schemes(<corrected definition of the same annotation>, existing=table)")
        for x in fails:
            print("  oracle: %s" % x["what"])
        return fails
    if failure.get("kind") == "deep-chain":
        fails = eval_deep_chain(int(failure.get("levels", 1100)))
        print("replay C14: a chain of %d definitions, each extending the one before; load_all_scheme_data + build_schemes + validate_schemes, base first and leaf first" % int(failure.get("levels", 1100)))
        for x in fails:
            print("  oracle: %s" % x["what"])
        return fails
    if failure.get("kind") == "types-list-edited":
        fails = eval_types_list_edited()
        print("replay C14: types = get_column_types(); types.append(('PercentColumn', <a FloatColumn subclass>)); then load_all_schemes(extra_filenames=[a definition with a column of type 'PercentColumn'])")
        for x in fails:
            print("  oracle: %s" % x["what"])
        return fails
    if failure.get("kind") == "returned-list" and "annotation" in failure:
        fails = eval_returned_lists(failure["annotation"])
        print("replay C14: find_scheme(%s); the lists returned by column_names() / column_descriptions() edited in place; the same instance consulted again" % failure["annotation"])
        for x in fails:
            print("  oracle: %s" % x["what"])
        return fails
    if failure.get("kind") == "registry-rejected" and "bad" in failure:
        case = {k: failure[k] for k in ("bad", "later", "late_import") if k in failure}
        fails = eval_registry_rejected(case)
        print("replay C14: fresh interpreter; all_schemes(extra_filenames=[%r]) (rejected), then all_schemes(extra_filenames=[%r]); both pairs looked up" % (
            case["bad"]["annotation"], case["later"]["annotation"]))
        for x in fails:
            print("  oracle: %s" % x["what"])
        return fails
    if failure.get("kind") == "registry-duplicate" and "dup" in failure:
        case = {k: failure[k] for k in ("first", "dup", "probe", "late_import") if k in failure}
        fails = eval_registry_duplicate(case)
        print("replay C14: fresh interpreter; %sthen all_schemes(extra_filenames=[definition of the already defined annotation %r])" % (
            "register %r, " % case["first"]["annotation"] if case.get("first") else "", case["dup"]["annotation"]))
        for x in fails:
            print("  oracle: %s" % x["what"])
        return fails
    """Re-evaluate the stored definitions (in the stored loading orders) on the current implementation; the failures they
    produce now ([] = property holds)."""
    if failure.get("kind") == "order-dependent-shipped":
        from maflib.scheme_factory import get_built_in_filenames
        files = {os.path.basename(f): f for f in get_built_in_filenames()}
        names = failure.get("order")
        if not isinstance(names, list) or sorted(names) != sorted(files):
            return None                     # not the set of definition files shipped now
        ref_names = failure.get("reference_order") or sorted(files)
        if sorted(ref_names) != sorted(files):
            return None
        print("replay C14: the %d shipped definition files loaded in the order %s and in the reference order %s" % (len(names), names, ref_names))
        failures, differing = eval_shipped([files[n] for n in ref_names], [files[n] for n in names])
        print("  implementation: %s" % ("schemes %s resolve differently" % differing if failures else "both orders resolve to the same schemes"))
        for f in failures:
            print("  oracle: %s" % f["what"])
        return failures
    defs = failure.get("defs")
    if not isinstance(defs, list) or not defs:
        return None
    n = len(defs)
    orders = failure.get("tried")
    if orders is None:
        # written before the loading orders were stored: the two orders of an order-dependence, otherwise every order
        if n > 6:
            return None
        orders = failure.get("orders") if failure.get("kind") == "order-dependent" and failure.get("orders") else list(itertools.permutations(range(n)))
    if any(sorted(od) != list(range(n)) for od in orders):
        return None
    print("replay C14: load_all_scheme_data + build_schemes + validate_schemes on %d definition(s)%s, in %d loading order(s)" % (
        n, " (injected defect: %s)" % failure["injected"] if failure.get("injected") else "", len(orders)))
    for k, d in enumerate(defs):
        print("  def %d: %s (version %s) extends %s, filtered %s, columns %s" % (k, d["annotation"], d["version"], d["extends"], d["filtered"], d["columns"]))
    prelude = failure.get("prelude") or []
    if prelude:
        print("  the stored failure depends on state left by earlier builds in the same process: building %d earlier definition set(s) first" % len(prelude))
        for p in prelude:
            print("    earlier: %s in order(s) %s" % (["%s<-%s %s" % (d["annotation"], d["extends"], d["columns"]) for d in p["defs"]], p["tried"]))
            eval_forest(p["defs"], None, [tuple(od) for od in p["tried"]])
    results, failures, why = eval_forest(defs, failure.get("injected"), [tuple(od) for od in orders])
    models = None
    if getattr(ctx, "driver_ok", True) and ctx.driver.available():
        models = [canon(m) for m in ctx.driver.run([{"op": "schemes.build", "defs": [defs[k] for k in od]} for od, _r in results])]
    shown = 0
    for k, (od, r) in enumerate(results):
        if shown < 6 or r != results[0][1]:
            shown += 1
            line = "  order %s: implementation %s" % (list(od), brief(r))
            if models is not None:
                m = models[k]
                line += "; model %s" % ("outside its domain" if has_unmodelled(m) else "the same" if m == r else "DIFFERS: %s" % differs(m, r))
            print(line)
    if len(results) > shown:
        print("  (%d more orders with the same outcome as the first)" % (len(results) - shown))
    print("  expected: %s" % ("rejection with ValueError (%s)" % why if why else "the same outcome in every order" if failures and failures[0]["kind"] == "order-dependent"
                              else "accepted, layouts %s" % ["%s:%s" % (d["annotation"], ",".join(expected_layout(defs, d["annotation"]) or [])) for d in defs]))
    for f in failures:
        print("  oracle: %s" % f["what"])
    return failures


def search(ctx):
    return run(ctx)

