"""C14 - scheme resolution and inheritance produce a unique, order-independent layout."""
import itertools
import json
import os
import tempfile

from .. import impl
from ..common import exc_name, has_unmodelled
from ..runner import Outcome

LEVEL = "proof"
ASSUMPTIONS = ["definitions are JSON files in the library's schema format; column types are drawn from the library's own column types",
               "class-level identity of synthesised classes is compared through MRO names"]
TYPES = ["StringColumn", "NullableStringColumn", "IntegerColumn", "NullableIntegerColumn", "ZeroBasedIntegerColumn",
         "NullableFloatColumn", "NullableDnaString", "SequenceOfStrings", "UUIDColumn", "NullableYesOrNo"]
EXTRAS = ["RequireNullValue", "RequireNullValue", "ZeroBasedIntegerColumn", "NullableIntegerColumn", "StringColumn"]


def gen_forest(rng):
    """A random inheritance forest (overrides, filters, new columns), plus optional injected defects."""
    n = rng.randrange(1, 6)
    defs = []
    for k in range(n):
        ann = "t-1.0.%d" % k if k else "t-1.0.0"
        base = None if k == 0 or rng.random() < 0.2 else rng.choice(defs)["annotation"]
        cols = []
        names_so_far = [c[0] for d in defs for c in d["columns"]]
        for j in range(rng.randrange(0, 4)):
            if base and names_so_far and rng.random() < 0.35:
                nm = rng.choice(names_so_far)
                ex = rng.choice(EXTRAS)
                # only redefinitions Python can linearise (C3): un-linearisable mixes raise TypeError at
                # class creation, which is outside the property and outside the model
                if linearisable(defs, nm, ex):
                    cols.append([nm, ex])
            else:
                cols.append(["c%d_%d" % (k, j), rng.choice(TYPES)])
        # column names distinct within a definition
        seen, cc = set(), []
        for c in cols:
            if c[0] not in seen:
                seen.add(c[0])
                cc.append(c)
        filt = None
        if base and rng.random() < 0.4:
            pool = [c[0] for d in defs for c in d["columns"]]
            filt = sorted(set(rng.sample(pool, min(len(pool), rng.randrange(0, 3))))) if pool else []
        defs.append({"version": "t-1.0.0", "annotation": ann, "extends": base, "filtered": filt, "columns": cc})
    defect = None
    k = rng.random()
    if k < 0.08:
        defs[-1]["extends"] = "no-such-scheme"
        defect = "unknown-base"
    elif k < 0.14 and len(defs) >= 2:
        defs[0]["extends"] = defs[-1]["annotation"]
        if defs[-1]["extends"] is None:
            defs[-1]["extends"] = defs[0]["annotation"]
        defect = "cycle?"
    elif k < 0.2:
        defs[-1]["columns"].append(["zz", "NoSuchColumnType"])
        defect = "unknown-type"
    elif k < 0.28:
        defs[-1]["filtered"] = (defs[-1]["filtered"] or []) + ["no_such_column"]
        defect = "missing-filter"
    elif k < 0.36:
        d = dict(defs[rng.randrange(len(defs))])
        d["columns"] = d["columns"] + [["dup_extra", "StringColumn"]]
        if rng.random() < 0.5:
            d["version"] = "t-9.9.9"
        defs.append(d)
        defect = "duplicate-annotation"
    return defs, defect


def linearisable(defs, name, extra):
    """Would every class this column name carries so far accept `extra` mixed in front? (generation only)"""
    import maflib.column_types as CT
    # the classes the name has carried so far, oldest first (a redefinition of a redefinition is allowed)
    chain = [t for d in defs for n, t in d["columns"] if n == name]
    if not chain or extra in chain:
        return False
    try:
        cls = getattr(CT, chain[0])
        for t in chain[1:] + [extra]:
            cls = type(cls.__name__, (getattr(CT, t), cls), {})
        return True
    except TypeError:
        return False


def write_defs(defs, d):
    paths = []
    for k, df in enumerate(defs):
        p = os.path.join(d, "def%d.json" % k)
        with open(p, "w") as h:
            json.dump({"version": df["version"], "annotation-spec": df["annotation"],
                       "extends": df["extends"] if df["extends"] is not None else "None",
                       "filtered": df["filtered"] if df["filtered"] is not None else "None",
                       "columns": df["columns"]}, h)
        paths.append(p)
    return paths


def build_impl(defs):
    """load_all_scheme_data + build_schemes + validate_schemes on the definitions in this order."""
    from maflib.column_types import get_column_types
    from maflib.scheme_factory import build_schemes, load_all_scheme_data, validate_schemes
    from maflib.schemes import NoRestrictionsScheme
    with tempfile.TemporaryDirectory() as d:
        paths = write_defs(defs, d)
        try:
            data = load_all_scheme_data(filenames=paths, column_types=get_column_types())
            schemes = build_schemes(data=data)
            validate_schemes([NoRestrictionsScheme] + list(schemes.values()))
        except Exception as e:  # noqa
            return {"exc": exc_name(e)}
    out = []
    for ann, cls in schemes.items():
        s = cls()
        out.append({"annotation": ann, "version": s.version(), "names": s.column_names(),
                    "mros": [[c.__name__ for c in s.column_class(n).__mro__ if c is not object] for n in s.column_names()]})
    return {"schemes": out}


def canon(res):
    if "exc" in res:
        return res
    return {"schemes": sorted(res["schemes"], key=lambda s: (s["annotation"], s["version"]))}


def expected_layout(defs, ann, seen=()):
    """The documented layout: base layout in base order without the filtered columns, then the new columns."""
    ds = [d for d in defs if d["annotation"] == ann]
    if len(ds) != 1 or ann in seen:
        return None
    d = ds[0]
    own = [c[0] for c in d["columns"]]
    if not d["extends"]:
        base = []
    else:
        base = expected_layout(defs, d["extends"], seen + (ann,))
        if base is None:
            return None
    names = list(base) + [n for n in own if n not in base]
    if d["filtered"] is not None:
        if any(f not in names for f in d["filtered"]):
            return None
        names = [n for n in names if n not in d["filtered"]]
    return names


def type_chain(defs, ann, name):
    """The types column `name` has been given along the inheritance path of `ann`, oldest first."""
    d = [x for x in defs if x["annotation"] == ann][0]
    chain = type_chain(defs, d["extends"], name) if d["extends"] else []
    chain = chain + [t for n, t in d["columns"] if n == name]
    if d["filtered"] is not None and name in d["filtered"]:
        return []          # the column is removed here; a later definition may introduce the name afresh
    return chain


def should_reject(defs):
    anns = [d["annotation"] for d in defs]
    if len(set(anns)) != len(anns):
        return "duplicate definition"
    import maflib.column_types as CT
    from maflib.column import MafColumnRecord
    for d in defs:
        for _n, t in d["columns"]:
            cls = getattr(CT, t, None)
            if cls is None or not (isinstance(cls, type) and issubclass(cls, MafColumnRecord)):
                return "unknown column type"
    for d in defs:
        if expected_layout(defs, d["annotation"]) is None:
            return "unknown base, cycle or missing filtered column"
    return None


def run(ctx):
    out = Outcome()
    out.rule = ("random inheritance forests of 1-6 definitions (overrides with RequireNullValue and other types, filters, new columns) with injected defects (unknown base, cycle, unknown type, "
                "missing filtered column, duplicate annotation with same / different version), each loaded in several orders (all orders when <= 4 definitions); the 14 shipped definitions in shuffled orders; "
                "non-trivial = forest with inheritance; distinct forests")
    rng = ctx.rng("c14")
    reqs, impls = [], []
    for _ in range(ctx.scale(150, 1500)):
        defs, defect = gen_forest(rng)
        orders = list(itertools.permutations(range(len(defs)))) if len(defs) <= 4 else [tuple(rng.sample(range(len(defs)), len(defs))) for _ in range(8)]
        rng.shuffle(orders)
        orders = orders[:ctx.scale(4, 24)]
        results = []
        for od in orders:
            out.evaluations += 1
            ordered = [defs[k] for k in od]
            res = build_impl(ordered)
            results.append((od, canon(res)))
            reqs.append({"op": "schemes.build", "defs": ordered})
            impls.append(canon(res))
        where = {"defs": defs, "injected": defect}
        first = results[0][1]
        diff = [od for od, r in results if r != first]
        if diff:
            out.failures.append(dict(where, what="the outcome depends on the order in which definitions are loaded", kind="order-dependent",
                                     orders=[list(results[0][0]), list(diff[0])],
                                     outcomes=[first if "exc" in first else [s["annotation"] + ":" + ",".join(s["names"]) for s in first["schemes"]],
                                               [r for od, r in results if od == diff[0]][0] if "exc" in [r for od, r in results if od == diff[0]][0]
                                               else [s["annotation"] + ":" + ",".join(s["names"]) for s in [r for od, r in results if od == diff[0]][0]["schemes"]]]))
            continue
        why = should_reject(defs)
        if why:
            if "exc" not in first:
                out.failures.append(dict(where, what="definitions with %s were not rejected" % why, kind="not-rejected"))
            elif first["exc"] != "ValueError":
                out.failures.append(dict(where, what="rejected with %s instead of ValueError" % first["exc"], kind="wrong-error"))
            out.distribution["rejected:" + why] += 1
        else:
            if "exc" in first:
                out.failures.append(dict(where, what="well-formed definitions were rejected (%s)" % first["exc"], kind="false-reject"))
            else:
                for s in first["schemes"]:
                    want = expected_layout(defs, s["annotation"])
                    if s["names"] != want:
                        out.failures.append(dict(where, what="layout of %s is not 'base layout without filtered columns, then new columns'" % s["annotation"],
                                                 kind="layout", expected=want, got=s["names"]))
                        break
                    # every constraint given to a column along the inheritance path is still enforced: each class of the
                    # chain is in the MRO of the resolved class, the most recent redefinition first
                    for n, mro in zip(s["names"], s["mros"]):
                        chain = type_chain(defs, s["annotation"], n)
                        if any(t not in mro for t in chain):
                            out.failures.append(dict(where, what="column %s of %s lost a constraint of its inheritance chain %s" % (n, s["annotation"], chain),
                                                     kind="override-lost", got=mro))
                            break
                    # a redefined column keeps the inherited class behind the added one
                    for n, mro in zip(s["names"], s["mros"]):
                        d = [x for x in defs if x["annotation"] == s["annotation"]][0]
                        own = dict(d["columns"])
                        if d["extends"] and n in own and n in (expected_layout(defs, d["extends"]) or []):
                            if len(mro) < 3 or mro[1] != own[n]:
                                out.failures.append(dict(where, what="redefined column %s does not put the added class in front of the inherited one" % n,
                                                         kind="override", got=mro))
                                break
                if len(set(s["annotation"] for s in first["schemes"])) != len(defs):
                    out.failures.append(dict(where, what="not every definition resolves to exactly one scheme", kind="missing-scheme"))
            out.distribution["accepted"] += 1
        if any(d["extends"] for d in defs):
            out.nontrivial.add(json.dumps(defs, sort_keys=True))
        if len(out.samples) < 3 and len(defs) >= 3 and not defect:
            out.sample({"defs": [{k: d[k] for k in ("annotation", "extends", "filtered")} | {"columns": d["columns"]} for d in defs]})
    shipped_orders(ctx, out, rng)
    mo = ctx.driver.run(reqs)
    for r, m, i in zip(reqs, mo, impls):
        m = canon(m)
        if has_unmodelled(m):
            out.unmodelled += 1
        elif m != i:
            out.disagreements.append({"op": "schemes.build", "defs": r["defs"],
                                      "model": m if "exc" in m else [s["annotation"] + ":" + ",".join(s["names"]) for s in m["schemes"]],
                                      "impl": i if "exc" in i else [s["annotation"] + ":" + ",".join(s["names"]) for s in i["schemes"]]})
    return out


def shipped_orders(ctx, out, rng):
    """The 14 shipped definitions in random directory-listing orders."""
    from maflib.column_types import get_column_types
    from maflib.scheme_factory import build_schemes, get_built_in_filenames, load_all_scheme_data
    files = sorted(get_built_in_filenames())
    ref = None
    for _ in range(ctx.scale(6, 60)):
        out.evaluations += 1
        od = list(files)
        rng.shuffle(od)
        schemes = build_schemes(load_all_scheme_data(od, get_column_types()))
        res = {a: (c.version(), c().column_names(), [[k.__name__ for k in c().column_class(n).__mro__] for n in c().column_names()])
               for a, c in schemes.items()}
        if ref is None:
            ref = res
        elif res != ref:
            out.failures.append({"what": "the shipped definitions resolve differently in another directory order", "kind": "order-dependent-shipped",
                                 "order": [os.path.basename(f) for f in od]})
    out.nontrivial.add("shipped")


def search(ctx):
    return run(ctx)

