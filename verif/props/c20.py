"""C20 - registered extra schemes are first-class and registration is monotone."""
import json
import subprocess
import sys
from concurrent.futures import ThreadPoolExecutor

from .. import common
from ..common import has_unmodelled
from ..runner import Outcome

LEVEL = "proof"
ASSUMPTIONS = ["one fresh interpreter per history (the registry is process-global state)"]


BUILTIN_ANNOTATIONS = ["gdc-1.0.0", "gdc-1.0.0-protected", "gdc-1.0.0-public", "gdc-1.0.1-protected", "gdc-1.0.1-public",
                       "gdc-1.0.0-aliquot", "gdc-1.0.0-aliquot-merged", "gdc-1.0.0-aliquot-merged-masked", "gdc-2.0.0-aliquot",
                       "gdc-2.0.0-aliquot-merged", "gdc-2.0.0-aliquot-merged-masked", "gdc-2.0.0-fmi", "gdc-1.0.0-genie", "gdc-2.0.0-genie",
                       "no-annotation-specification"]


def reg_op(rng, defs):
    """A registration; the file names reach all_schemes as a list, a tuple or a one-shot iterable (a generator, map(...))."""
    return {"k": "register", "defs": defs, "paths_as": rng.choice(["list", "list", "tuple", "generator", "map"]),
            "spell": rng.choice(["abs", "abs", "rel", "dot", "path"]), "again": rng.random() < 0.3}


def run_history(req):
    p = subprocess.run([sys.executable, "-W", "ignore", "-m", "verif.regproc"], input=json.dumps(req).encode(), cwd=common.VERIF,
                       stdout=subprocess.PIPE, stderr=subprocess.PIPE, timeout=120)
    if p.returncode != 0:
        return {"crash": p.stderr.decode()[-600:]}
    return json.loads(p.stdout.decode().strip().splitlines()[-1])


def _overrides_dbsnp(ann, regs):
    """Does the extends-chain of the extra `ann` already redefine dbSNP_RS with the null-only mixin?  (Mixing it in a
    second time is a class Python cannot linearise - TypeError - which is outside the property and the model.)"""
    by = {d["annotation"]: d for d in regs}
    while ann in by:
        if ["dbSNP_RS", "RequireNullValue"] in by[ann]["columns"]:
            return True
        ann = by[ann].get("extends")
    return False


def gen_def(rng, k, known, regs=()):
    """An extra definition extending a built-in (or an earlier extra) or standing alone."""
    ann = "lab-1.%d.0" % k
    version = rng.choice(["gdc-1.0.0", "lab-1.0.0", ann])
    kind = rng.random()
    if kind < 0.45:
        base = rng.choice(["gdc-1.0.0", "gdc-1.0.0-protected", "gdc-1.0.0-public"] + known)
        cols = [["lab_note_%d" % k, "NullableStringColumn"], ["lab_depth_%d" % k, "NullableZeroBasedIntegerColumn"]][:rng.randrange(0, 3)]
        if rng.random() < 0.3 and not _overrides_dbsnp(base, regs):
            cols.append(["dbSNP_RS", "RequireNullValue"])
        return {"version": version, "annotation": ann, "extends": base, "filtered": rng.choice([None, None, ["Center"] if base.startswith("gdc") else None]),
                "columns": cols}
    return {"version": version, "annotation": ann, "extends": None, "filtered": None,
            "columns": [["Chromosome", "StringOrIntegerColumn"], ["Start_Position", "OneBasedIntegerColumn"],
                        ["End_Position", "OneBasedIntegerColumn"], ["note_%d" % k, "NullableStringColumn"]]}


def header_for(d):
    out = ["#version " + d["version"]]
    if d["annotation"] != d["version"]:
        out.append("#annotation.spec " + d["annotation"])
    return out


def gen_history(rng):
    ops, regs = [], []
    n_regs = rng.choice([1, 1, 2, 2, 3])
    k = 0
    for r in range(n_regs):
        defs = []
        for _ in range(rng.choice([1, 1, 2])):
            defs.append(gen_def(rng, k, [d["annotation"] for d in regs], regs))
            k += 1
        if rng.random() < 0.15 and regs:
            defs.append(dict(rng.choice(regs)))      # repeated registration of an earlier definition
        if rng.random() < 0.1:
            defs.append({"version": "x", "annotation": "bad-%d" % k, "extends": "no-such-base", "filtered": None, "columns": []})
        if rng.random() < 0.4:
            d0 = rng.choice(defs)
            ops.append({"k": "find", "version": d0["version"], "annotation": d0["annotation"]})   # a miss before registration
        ops.append(reg_op(rng, defs))
        regs += [d for d in defs if d["annotation"].startswith("lab-")]
        # interleaved lookups / header validation / reads after each registration
        for d in rng.sample(regs, min(len(regs), 2)):
            ops.append({"k": "find", "version": d["version"], "annotation": d["annotation"]})
            ops.append({"k": "header", "lines": header_for(d), "mode": rng.choice(["Silent", "Strict"])})
        ops.append({"k": "find", "version": "gdc-1.0.0", "annotation": rng.choice(["gdc-1.0.0-public", "gdc-2.0.0-aliquot", None])})
        ops.append({"k": "header", "lines": ["#version gdc-1.0.0", "#annotation.spec gdc-1.0.0-protected"], "mode": "Strict"})
    return ops, regs


# ---- second generator: the shapes of definition the first one never produces (names, column types, filters) and the
# ---- clauses it never evaluates (column layout, Strict read / write / read-back of records, ill-typed rows refused)
# skipped case families: the unchanged library violates the property there (reported; remove the entry to see the failures)
#   gdc-odd-names   a definition whose version or annotation starts with "gdc-" but is not "gdc-<n>.<n>.<n>[-<suffix>]"
#                   ("gdc-1.0", "gdc-1.0.0.1-x", "gdc-x") cannot be registered: scheme_sort_key raises TypeError / ValueError
PENDING_DEFECTS = ()

UUID_TEXT = "7b2a1f3e-58a4-4c70-9a8f-0d1c2e3f4a5b"
# column type name -> (texts the type accepts and renders unchanged, texts it refuses); from the documentation of the types
TYPE_TEXTS = {
    "StringColumn": (["abc", "x-1"], [""]), "NullableStringColumn": (["", "abc"], []),
    "IntegerColumn": (["12", "-3", "0"], ["twelve", "1.5", ""]), "NullableIntegerColumn": (["", "7"], ["x"]),
    "OneBasedIntegerColumn": (["1", "77"], ["0", "x"]), "ZeroBasedIntegerColumn": (["0", "5"], ["-1"]),
    "NullableZeroBasedIntegerColumn": (["", "0"], ["-1"]), "NullableOneBasedIntegerColumn": (["", "1"], ["0"]),
    "FloatColumn": (["0.25", "1.5"], ["high"]), "NullableFloatColumn": (["", "2.5"], ["x"]),
    "StringOrIntegerColumn": (["chr1", "7"], []), "UUIDColumn": ([UUID_TEXT], ["nope", ""]),
    "NullableUUIDColumn": (["", UUID_TEXT], ["nope"]), "BooleanColumn": (["True", "False"], ["x", ""]),
    "Strand": (["+", "-"], ["x"]), "VariantType": (["SNP", "DEL"], ["x"]), "DnaString": (["ACGT", "-"], ["x", ""]),
    "NullableDnaString": (["ACGT", "-", ""], ["x"]), "SequenceOfIntegers": (["1;2;3", "1", ""], ["a;b"]),
    "SequenceOfStrings": (["a;b", "a", ""], []), "MafColumnRecord": (["anything", "", "1"], []),
    "YesNoOrUnknown": (["Yes", "No", "Unknown"], ["x"]), "TranscriptStrand": (["1", "-1"], ["0", "x"]),
    "EntrezGeneId": (["0", "7157"], ["-1", "x"]), "MutationStatus": (["Somatic", "None"], ["x"]),
    "Impact": (["HIGH"], ["x", ""]), "PickColumn": (["1", ""], ["x"]), "Canonical": (["YES", ""], ["x"]),
}
# a valid line of the basic built-in scheme gdc-1.0.0 (34 columns)
BASIC_ROW = ["TP53", "7157", "BI", "GRCh38", "chr17", "7674220", "7674220", "+", "Missense_Mutation", "SNP", "C", "C", "T", "novel", "",
             "TCGA-AA-0001-01A", "TCGA-AA-0001-10A", "", "", "", "", "", "", "", "", "Somatic", "", "", "", "", "", "", UUID_TEXT, ""]

_BUILTIN_DEFS = {}


def builtin_defs():
    """The shipped definitions (the data files of the tree under test), by annotation."""
    if not _BUILTIN_DEFS:
        import glob
        import os
        for f in sorted(glob.glob(os.path.join(common.REPO, "maflib", "schemas", "*.json"))):
            with open(f) as h:
                d = json.load(h)
            none = lambda v: None if v == "None" else v  # noqa: E731
            _BUILTIN_DEFS[d["annotation-spec"]] = {"version": d["version"], "annotation": d["annotation-spec"], "extends": none(d["extends"]),
                                                   "filtered": none(d["filtered"]), "columns": [c[:2] for c in d["columns"]]}
    return _BUILTIN_DEFS


def layout_of(ann, extras):
    """Column names of a definition, from what a definition means: the columns of the scheme it extends, its own new columns
    appended, the filtered ones removed.  `extras`: registered definitions by annotation.  None: unknown base."""
    d = extras.get(ann) or builtin_defs().get(ann)
    if d is None:
        return None
    base = []
    if d.get("extends") is not None:
        base = layout_of(d["extends"], extras)
        if base is None:
            return None
    names = list(base) + [c[0] for c in d["columns"] if c[0] not in base]
    return [n for n in names if n not in (d.get("filtered") or [])]


def row_of(ann, extras, rng):
    """name -> text of a record every column of the definition accepts (None: no such record is known to the harness)."""
    d = extras.get(ann)
    if d is None:
        if ann == "gdc-1.0.0":
            return dict(zip(layout_of(ann, extras), BASIC_ROW))
        return None
    row = {}
    if d.get("extends") is not None:
        row = row_of(d["extends"], extras, rng)
        if row is None:
            return None
        row = dict(row)
    for n, t in d["columns"]:
        if n in row or t not in TYPE_TEXTS:
            return None          # a column type mixed into an inherited column: no value table
        row[n] = rng.choice(TYPE_TEXTS[t][0])
    return row


NUMBERS = ["1", "2", "1.0", "2.0", "1.0.0", "2.0.0", "1.0.1", "3.1", "2.1", "1.0.0.1", "10.2.3", "1.0.0", "1.0"]


def gen_names(rng, k, taken, extending):
    """A version / annotation pair of one of many shapes: letters-digits with 1 to 4 dotted numbers, no digits, digits only,
    the annotation equal to the version (a basic scheme) or the version plus a suffix, or unrelated to it."""
    letter = "abcdefghijklmnopqrstuvwxyz"[k % 26]
    odd_gdc = "gdc-odd-names" not in PENDING_DEFECTS and rng.random() < 0.15
    shape = rng.choice(["vendor-num", "vendor-num", "vendor-num", "vendor", "num", "vendor_num"])
    vendor = "gdc" if odd_gdc else rng.choice(["acme", "lab", "Zeta", "x", "panel", "core" + letter])
    num = rng.choice(NUMBERS)
    stem = {"vendor-num": "%s-%s" % (vendor, num), "vendor": vendor, "num": num, "vendor_num": "%s_%s" % (vendor, num.replace(".", "_"))}[shape]
    how = rng.random()
    if extending and how < 0.5:
        version = rng.choice(["gdc-1.0.0", "gdc-1.0.0", "gdc-2.0.0", stem])
    else:
        version = stem
    if how < 0.25 and version not in taken and not version.startswith("gdc-"):
        ann = version                                         # a basic scheme
    elif how < 0.8:
        ann = "%s-%s" % (version if rng.random() < 0.7 else stem, rng.choice(["a", "panel", "p%d" % k, "Lab", "x.y", letter]))
    else:
        ann = rng.choice(["panel", "custom", "v", "2024", "lab.panel"]) + "-" + letter
    while ann in taken:
        ann += letter
    return version, ann


def gen_def2(rng, k, regs, extras):
    """One definition: stand-alone with columns of any type, extending the basic built-in / another built-in / an earlier
    extra with further columns, a filter, or nothing but a filter."""
    taken = set(BUILTIN_ANNOTATIONS) | set(extras)
    kind = rng.random()
    pool = sorted(TYPE_TEXTS)
    if kind < 0.35:
        version, ann = gen_names(rng, k, taken, False)
        # (now and then a wide panel: more columns than CPython keeps small integers for, 257)
        cols = [["c%d_%d" % (k, i), rng.choice(pool)] for i in range(rng.randrange(1, 6) if rng.random() < 0.85 else rng.choice([258, 300]))]
        if rng.random() < 0.5:
            cols[rng.randrange(len(cols))][1] = rng.choice(["MafColumnRecord", "IntegerColumn", "FloatColumn", "StringColumn"])
        filtered = [cols[-1][0]] if len(cols) > 1 and rng.random() < 0.15 else None
        return {"version": version, "annotation": ann, "extends": None, "filtered": filtered, "columns": cols}
    version, ann = gen_names(rng, k, taken, True)
    base = rng.choice(["gdc-1.0.0"] * 4 + [d["annotation"] for d in regs] * 2 + ["gdc-1.0.0-protected", "gdc-1.0.0-public", "gdc-2.0.0-aliquot", "gdc-1.0.0-genie"])
    names = layout_of(base, extras)
    shape = rng.choice(["filter-only", "filter-only", "add", "add", "add+filter", "nothing"])
    cols = [] if shape in ("filter-only", "nothing") else [["x%d_%d" % (k, i), rng.choice(pool)] for i in range(rng.randrange(1, 4))]
    filtered = None
    if shape in ("filter-only", "add+filter"):
        filtered = sorted(rng.sample(names, min(len(names) - 1, rng.choice([1, 1, 2, 3, 6]))), key=names.index)
        if cols and rng.random() < 0.2:
            filtered.append(cols[-1][0])          # a column the definition itself adds
    elif rng.random() < 0.2:
        filtered = []
    return {"version": version, "annotation": ann, "extends": base, "filtered": filtered, "columns": cols}


def checks_for(rng, d, extras):
    """Lookup, header validation, Strict reads (a valid row accepted, an ill-typed one refused) and a Strict write/read-back
    for one registered definition."""
    ops = [{"k": "find", "version": d["version"], "annotation": d["annotation"]},
           {"k": "header", "lines": header_for(d), "mode": "Strict"}]
    names = layout_of(d["annotation"], extras)
    row = row_of(d["annotation"], extras, rng)
    if row is None or not names:
        return ops
    pair = [d["version"], d["annotation"]]
    good = ["\t".join(row[n] for n in names)]
    if rng.random() < 0.5:
        row2 = row_of(d["annotation"], extras, rng)
        good.append("\t".join(row2[n] for n in names))
    ops.append({"k": "read", "lines": header_for(d) + ["\t".join(names)] + good, "mode": "Strict", "for": pair, "expect": "accept", "rows": len(good)})
    ops.append({"k": "roundtrip", "header": header_for(d), "records": good, "for": pair})
    # an ill-typed row: a column of this chain with a constraining type (else Start_Position of the basic scheme)
    typed = {}
    a = d["annotation"]
    while a in extras:
        typed.update({n: t for n, t in extras[a]["columns"] if TYPE_TEXTS.get(t, ([], []))[1]})
        a = extras[a].get("extends")
    cands = [n for n in names if n in typed]
    bad = dict(row)
    if cands:
        n = rng.choice(cands)
        bad[n] = rng.choice(TYPE_TEXTS[typed[n]][1])
    elif "Start_Position" in names and a == "gdc-1.0.0":
        bad["Start_Position"] = "x"
    else:
        return ops
    ops.append({"k": "read", "lines": header_for(d) + ["\t".join(names), "\t".join(bad[n] for n in names)], "mode": "Strict", "for": pair,
                "expect": "refuse", "rows": 1})
    return ops


def gen_history2(rng):
    ops, regs, extras = [], [], {}
    k = rng.randrange(26)
    for r in range(rng.choice([1, 2, 2, 3])):
        defs = []
        for _ in range(rng.choice([1, 1, 2])):
            d = gen_def2(rng, k, regs, dict(extras, **{x["annotation"]: x for x in defs}))
            k += 1
            if (d["version"], d["annotation"]) in {(x["version"], x["annotation"]) for x in regs + defs}:
                continue
            defs.append(d)
        if not defs:
            continue
        if rng.random() < 0.3:
            ops.append({"k": "find", "version": defs[0]["version"], "annotation": defs[0]["annotation"]})   # a miss before registration
        ops.append(reg_op(rng, defs))
        regs += defs
        extras.update({d["annotation"]: d for d in defs})
        for d in defs:
            ops += checks_for(rng, d, extras)
        for d in rng.sample(regs, min(len(regs), 2)):                     # earlier registrations are still there
            if d not in defs:
                ops += checks_for(rng, d, extras)[:rng.choice([2, 3, 5])]
        ops.append({"k": "find", "version": "gdc-1.0.0", "annotation": rng.choice(["gdc-1.0.0-public", "gdc-2.0.0-aliquot", None])})
    return ops, regs


_KEPT_LINES = {}


def builtin_valid_line(ann, rng):
    """A line a Strict parse accepts under the built-in layout `ann` (masked columns null), made in this process."""
    if ann not in _KEPT_LINES:
        from .. import colcases, impl
        from . import c05
        import random
        from maflib.record import MafRecord
        from maflib.validation import ValidationStringency as VS
        from .. import sortcases as SC
        r = random.Random(4242)
        sch = impl.scheme_by_annotation(ann)
        line = None
        fields = list(SC._base_fields(ann, r))          # plain, strictly valid texts
        if ann in c05.masked_layouts():
            fields = c05.masked_clean_fields(ann, fields)
        cand = "\t".join(fields)
        try:
            rec = MafRecord.from_line(cand, scheme=sch, validation_stringency=VS.Strict)
            if str(rec) == cand:
                line = cand
        except Exception:  # noqa
            pass
        _KEPT_LINES[ann] = line
    return _KEPT_LINES[ann]


def gen_history_kept(rng):
    """Records are parsed under a scheme, a registration happens, and a Strict writer of the SAME scheme opened afterwards is
    offered those record objects: for built-in layouts (incl. the ones whose columns are mixed-in classes) and for an
    extra registered earlier."""
    ops, regs, extras = [], [], {}
    k = rng.randrange(26)
    slot = 0
    pending = []
    anns = ["gdc-1.0.0", "gdc-1.0.0-public", "gdc-1.0.0-protected", "gdc-2.0.0-aliquot-merged-masked", "gdc-1.0.1-public"]
    for r in range(rng.choice([1, 2, 2])):
        ann = rng.choice(anns)
        line = builtin_valid_line(ann, rng)
        if line:
            hdr = ["#version gdc-1.0.0"] + (["#annotation.spec " + ann] if ann != "gdc-1.0.0" else [])
            ops.append({"k": "keep", "slot": slot, "header": hdr, "records": [line]})
            pending.append((slot, hdr))
            slot += 1
        for d in rng.sample(regs, min(len(regs), 1)):          # an earlier extra, too
            names = layout_of(d["annotation"], extras)
            row = row_of(d["annotation"], extras, rng)
            if row is not None and names:
                ops.append({"k": "keep", "slot": slot, "header": header_for(d), "records": ["\t".join(row[n] for n in names)]})
                pending.append((slot, header_for(d)))
                slot += 1
        d = gen_def2(rng, k, regs, extras)
        k += 1
        if (d["version"], d["annotation"]) in {(x["version"], x["annotation"]) for x in regs}:
            continue
        hslots = []
        for hdr in [header_for(d)] + [h for _sl, h in pending[:1]]:       # the scheme about to exist, and one that exists already
            ops.append({"k": "hold_header", "slot": slot, "lines": hdr})
            hslots.append((slot, hdr))
            slot += 1
        ops.append(reg_op(rng, [d]))
        regs.append(d)
        extras[d["annotation"]] = d
        for sl, hdr in hslots:
            ops.append({"k": "use_held_header", "slot": sl, "lines": hdr})
        for sl, hdr in pending:
            ops.append({"k": "write_kept", "slot": sl, "header": hdr})
    return ops, regs


def analyse(out, ops, regs, steps, where):
    """The property on the implementation's answers for one history."""
    registered = {}
    failed_regs = set()
    for o, s in zip(ops, steps):
        if "harness_exc" in s or "crash" in s:
            out.failures.append(dict(where, what="harness failure", kind="harness", got=s))
            return
        if o["k"] == "use_held_header":
            if s.get("exc") or s["held"] != s["fresh"]:
                out.failures.append(dict(where, what="a header object made before a registration does not resolve / validate / write like a header parsed now from the same lines",
                                         kind="held-header", header=o["lines"], got=s.get("exc") or {"held": s["held"], "fresh": s["fresh"]}))
                return
        if o["k"] == "register":
            known = {a for (_v, a) in registered} | set(BUILTIN_ANNOTATIONS)
            anns = [d["annotation"] for d in o["defs"]]
            well_formed = (len(set(anns)) == len(anns) and not (set(anns) & known)
                           and all(d.get("extends") is None or d["extends"] in known or d["extends"] in anns for d in o["defs"]))
            if s["exc"] is None:
                for d in o["defs"]:
                    registered[(d["version"], d["annotation"])] = d
            elif well_formed:
                out.failures.append(dict(where, what="registering well-formed definitions failed (%s)" % s["exc"], kind="registration-failed",
                                         defs=o["defs"]))
                return
        elif o["k"] == "find" and (o["version"], o["annotation"]) in registered:
            if s.get("annotation") != o["annotation"]:
                out.failures.append(dict(where, what="a registered scheme (%s, %s) does not resolve (any more)" % (o["version"], o["annotation"]),
                                         kind="not-resolved", got=s))
                return
            want = layout_of(o["annotation"], {a: d for (_v, a), d in registered.items()})
            if want is not None and s.get("names") != want:
                got = s.get("names") or []
                out.failures.append(dict(where, what="the registered scheme (%s, %s) has %d column(s), its definition gives %d (extends %s, %d new, filtered %s)" % (
                    o["version"], o["annotation"], len(got), len(want), registered[(o["version"], o["annotation"])].get("extends"),
                    len(registered[(o["version"], o["annotation"])]["columns"]), registered[(o["version"], o["annotation"])].get("filtered")),
                    kind="layout", unexpected=[n for n in got if n not in want][:8], missing=[n for n in want if n not in got][:8]))
                return
        elif o["k"] == "read" and "for" in o and tuple(o["for"]) in registered:
            if o["expect"] == "accept":
                if not (s.get("scheme") == o["for"][1] and s.get("n") == o["rows"] and not s.get("errors") and not s.get("iter_exc") and "init_exc" not in s):
                    out.failures.append(dict(where, what="a Strict reader does not read valid records of the registered scheme (%s, %s)" % tuple(o["for"]),
                                             kind="strict-read-failed", lines=o["lines"], got=s))
                    return
            elif not str(s.get("init_exc") or s.get("iter_exc") or "").startswith("MafFormatException"):
                out.failures.append(dict(where, what="a Strict reader does not refuse an ill-typed record of the registered scheme (%s, %s)" % tuple(o["for"]),
                                         kind="ill-typed-accepted", lines=o["lines"], got=s))
                return
        elif o["k"] == "roundtrip" and "for" in o and tuple(o["for"]) in registered:
            if "exc" in s or not s.get("ok") or s.get("scheme") != o["for"][1]:
                out.failures.append(dict(where, what="valid records of the registered scheme (%s, %s) are not written and read back in Strict mode" % tuple(o["for"]),
                                         kind="roundtrip-failed", records=o["records"], got=s))
                return
        elif o["k"] == "keep":
            if "exc" in s or s.get("kept") != len(o["records"]):
                out.failures.append(dict(where, what="valid records of %s are not parsed in Strict mode" % (o["header"][-1],), kind="keep-failed", got=s))
                return
        elif o["k"] == "write_kept":
            if "exc" in s or not s.get("ok"):
                out.failures.append(dict(where, what="records parsed under %s before a later registration are no longer written by a Strict writer of that scheme after it" % (
                    " / ".join(x.split(" ", 1)[1] for x in o["header"]),), kind="kept-records-refused", got=s))
                return
        elif o["k"] == "find" and o["version"] == "gdc-1.0.0" and o["annotation"] in ("gdc-1.0.0-public", "gdc-2.0.0-aliquot", None):
            want = {"gdc-1.0.0-public": 119, "gdc-2.0.0-aliquot": 144, None: 34}[o["annotation"]]
            if len(s.get("names", [])) != want:
                out.failures.append(dict(where, what="a built-in scheme changed after registrations", kind="builtin-changed", got=s.get("annotation")))
                return
        elif o["k"] == "header":
            d = None
            for (v, a), dd in registered.items():
                if o["lines"] == header_for(dd):
                    d = dd
            if d is not None or o["lines"][-1].endswith("gdc-1.0.0-protected"):
                bad = s.get("exc") or [e for e in s.get("errors", []) if e[0].startswith("HEADER_UNSUPPORTED") or e[0].startswith("HEADER_MISSING")]
                if bad:
                    out.failures.append(dict(where, what="a header naming a registered (or built-in) scheme does not validate", kind="header-unsupported",
                                             header=o["lines"], got=bad))
                    return


NON_MODEL = ("roundtrip", "keep", "write_kept", "hold_header", "use_held_header")     # operations on live objects / files: implementation + oracle only


def model_request(h):
    ops = [o for o in h["ops"] if o["k"] not in NON_MODEL]          # (write + read-back is not an operation of the model)
    texts = [p for o in ops if o["k"] == "read" for l in o["lines"] for p in l.split("\t")]
    return {"op": "registry.run", "ops": ops, "floats": common.float_table(texts)}


def eval_history(h, res, m):
    """One history (shared by run and replay_case): `res` is what the fresh interpreter answered (run_history), `m` the
    model's answer (None = model not consulted).  Returns (correspondence, failures, crashed); correspondence is
    None / "agree" / "unmodelled" / a disagreement dict."""
    where = {"ops": h["ops"], "late_import": h["late_import"]}
    if "crash" in res:
        return None, [dict(where, what="history crashed the interpreter", kind="harness", got=res["crash"])], True
    steps = res["steps"]
    corr = None
    if m is not None:
        corr = "agree"
        if has_unmodelled(m):
            corr = "unmodelled"
        else:
            mops = [o for o in h["ops"] if o["k"] not in NON_MODEL]
            isteps = [x for o, x in zip(h["ops"], steps) if o["k"] not in NON_MODEL]
            if m["steps"] != isteps:
                k = next((i for i, (a, b) in enumerate(zip(m["steps"], isteps)) if a != b), min(len(m["steps"]), len(isteps)))   # (or one is longer)
                at = lambda xs: xs[k] if k < len(xs) else None  # noqa: E731
                full = [i for i, o in enumerate(h["ops"]) if o["k"] not in NON_MODEL]          # position in the whole history
                corr = {"op": "registry.run", "step": full[k] if k < len(full) else len(h["ops"]), "operation": at(mops), "model": at(m["steps"]), "impl": at(isteps),
                        "history": mops[:k + 1]}
    judged = Outcome()
    analyse(judged, h["ops"], None, steps, where)
    return corr, judged.failures, False


def run(ctx):
    out = Outcome()
    out.rule = ("histories of 1-3 registration calls (definitions extending built-ins or earlier extras, stand-alone, repeated, one faulty) interleaved with lookups before/after, "
                "header validation (Silent/Strict) and checks that built-ins are unchanged; one fresh interpreter per history, header module imported before or after the first registration; "
                "non-trivial = >= 2 registration calls; distinct histories.  Second generator: version / annotation names of many shapes (vendor-numbers with 1-4 dotted parts, "
                "no digits, digits only, basic schemes), columns of every concrete column type incl. the generic one, definitions that only filter, filter and add, filter their "
                "own columns; after each registration the column layout is compared with what the definition means, valid rows are read in Strict mode, written and read back, "
                "an ill-typed row must be refused")
    rng = ctx.rng("c20")
    hists = []
    for _ in range(ctx.scale(48, 400)):
        ops, regs = gen_history(rng)
        hists.append(({"ops": ops, "late_import": rng.random() < 0.4}, regs))
    n_first = len(hists)
    rng2 = ctx.rng("c20-shapes")
    for _ in range(ctx.scale(40, 300)):
        ops, regs = gen_history2(rng2)
        hists.append(({"ops": ops, "late_import": rng2.random() < 0.3}, regs))
        for d in regs:
            out.distribution["def:" + ("stand-alone" if d["extends"] is None else "filter-only" if not d["columns"] and d["filtered"] else
                                       "extends+filter" if d["filtered"] else "extends")] += 1
            out.distribution["name:" + ("basic" if d["version"] == d["annotation"] else "pair")] += 1
    rng3 = ctx.rng("c20-kept")
    for _ in range(ctx.scale(24, 200)):
        ops, regs = gen_history_kept(rng3)
        hists.append(({"ops": ops, "late_import": rng3.random() < 0.3}, regs))
        out.distribution["history:records kept across a registration"] += 1
    with ThreadPoolExecutor(max_workers=14) as ex:
        results = list(ex.map(lambda h: run_history(h[0]), hists))
    mo = ctx.driver.run([model_request(h) for h, _ in hists])
    for (h, regs), res, m in zip(hists, results, mo):
        out.evaluations += 1
        corr, failures, crashed = eval_history(h, res, m)
        out.failures += failures
        if crashed:
            continue
        if corr == "unmodelled":
            out.unmodelled += 1
        elif isinstance(corr, dict):
            out.disagreements.append(corr)
        if sum(1 for o in h["ops"] if o["k"] == "register") >= 2:
            out.nontrivial.add(json.dumps(h["ops"], sort_keys=True))
        out.distribution["registrations"] += sum(1 for o in h["ops"] if o["k"] == "register")
        if len(out.samples) < 2:
            out.sample({"ops": h["ops"][:6]})
    return out


def _step_text(o, s):
    if o["k"] == "register":
        return "register (file names given as a %s, spelt %s%s) %s -> %s" % (o.get("paths_as", "list"), o.get("spell", "abs"), ", after the names given before" if o.get("again") else "", [(d["version"], d["annotation"], "extends %s" % d.get("extends")) for d in o["defs"]], "ok" if s.get("exc") is None and "exc" in s else s)
    if o["k"] == "find":
        return "find_scheme(%s, %s) -> %s" % (o.get("version"), o.get("annotation"),
                                              "(%s, %s, %d columns)" % (s.get("version"), s["annotation"], len(s.get("names", []))) if s.get("annotation") else s)
    if o["k"] == "header":
        return "MafHeader.from_lines(%s, %s) -> %s" % (o["lines"], o.get("mode"), s)
    if o["k"] == "read":
        return "MafReader(lines=%s, %s), %s -> %s" % (o["lines"], o.get("mode"), "a valid row" if o.get("expect") == "accept" else "an ill-typed row" if o.get("expect") else "iterated", s)
    if o["k"] == "keep":
        return "parse %d record(s) under %s (Strict) and keep the objects -> %s" % (len(o["records"]), o["header"], s)
    if o["k"] == "write_kept":
        return "Strict writer opened now for %s, offered the records kept in slot %d -> %s" % (o["header"], o["slot"], s)
    if o["k"] == "roundtrip":
        return "MafWriter (Strict) under %s, %d record(s) %s, read back (Strict) -> %s" % (o["header"], len(o["records"]), o["records"][:1], s)
    return "%s -> %s" % (o["k"], s)


def replay_case(ctx, failure):
    """Re-evaluate the stored failing input on the current implementation; return the list of failure dicts it
    produces now (empty list = the property holds on that input)."""
    ops = failure.get("ops")
    if not isinstance(ops, list) or not isinstance(failure.get("late_import"), bool) or not all(isinstance(o, dict) and "k" in o for o in ops):
        return None
    h = {"ops": ops, "late_import": failure["late_import"]}
    print("executed: history of %d operation(s) (%d registration call(s)) in a fresh interpreter on %s, maflib.header imported %s the first registration" % (
        len(ops), sum(1 for o in ops if o["k"] == "register"), common.REPO, "after" if h["late_import"] else "before"))
    res = run_history(h)
    m = None
    if ctx.driver.available():
        try:
            m = ctx.driver.run([model_request(h)])[0]
        except Exception as e:  # noqa
            print("model: driver failed (%s)" % str(e)[:200])
    corr, failures, crashed = eval_history(h, res, m)
    if crashed:
        print("implementation: the interpreter crashed: %s" % res["crash"][-300:])
    else:
        msteps = list(m["steps"]) if (m is not None and corr != "unmodelled") else None
        for n, (o, s) in enumerate(zip(ops, res["steps"])):
            print("  step %d implementation: %s" % (n, _step_text(o, s)[:400]))
            if o["k"] in NON_MODEL:                  # not an operation of the model
                continue
            ms = msteps.pop(0) if msteps else None
            if ms is not None and ms != s:
                print("  step %d model:          %s" % (n, _step_text(o, ms)[:400]))
        if m is not None:
            print("model vs implementation: %s" % (corr if isinstance(corr, str) else "first difference at step %d" % corr["step"]))
    for g in failures:
        print("oracle: [%s] %s%s" % (g["kind"], g["what"], "; got %s" % (g["got"],) if "got" in g else ""))
    if not failures:
        print("oracle: satisfied (registered schemes resolve with the columns their definitions give, validate, read and write in Strict mode; built-ins unchanged)")
    return failures


def search(ctx):
    return run(ctx)

