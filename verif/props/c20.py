"""C20 - registered extra schemes are first-class and registration is monotone."""
import json
import subprocess
import sys
from concurrent.futures import ThreadPoolExecutor

from .. import common
from ..common import has_unmodelled
from ..runner import Outcome

LEVEL = "translation_validation"
ASSUMPTIONS = ["one fresh interpreter per history (the registry is process-global state)"]


BUILTIN_ANNOTATIONS = ["gdc-1.0.0", "gdc-1.0.0-protected", "gdc-1.0.0-public", "gdc-1.0.1-protected", "gdc-1.0.1-public",
                       "gdc-1.0.0-aliquot", "gdc-1.0.0-aliquot-merged", "gdc-1.0.0-aliquot-merged-masked", "gdc-2.0.0-aliquot",
                       "gdc-2.0.0-aliquot-merged", "gdc-2.0.0-aliquot-merged-masked", "gdc-2.0.0-fmi", "gdc-1.0.0-genie", "gdc-2.0.0-genie",
                       "no-annotation-specification"]


def run_history(req):
    p = subprocess.run([sys.executable, "-W", "ignore", "-m", "verif.regproc"], input=json.dumps(req).encode(), cwd=common.VERIF,
                       stdout=subprocess.PIPE, stderr=subprocess.PIPE, timeout=120)
    if p.returncode != 0:
        return {"crash": p.stderr.decode()[-600:]}
    return json.loads(p.stdout.decode().strip().splitlines()[-1])


def _overrides_dbsnp(ann, regs):
    """Does the extends-chain of the extra `ann` already redefine dbSNP_RS with the null-only mixin?  (Mixing it in a
    second time is a class Python cannot linearise - TypeError - which is outside the property and the model.)"""
    by = {d["annotation"]: d for d in regs}
    while ann in by:
        if ["dbSNP_RS", "RequireNullValue"] in by[ann]["columns"]:
            return True
        ann = by[ann].get("extends")
    return False


def gen_def(rng, k, known, regs=()):
    """An extra definition extending a built-in (or an earlier extra) or standing alone."""
    ann = "lab-1.%d.0" % k
    version = rng.choice(["gdc-1.0.0", "lab-1.0.0", ann])
    kind = rng.random()
    if kind < 0.45:
        base = rng.choice(["gdc-1.0.0", "gdc-1.0.0-protected", "gdc-1.0.0-public"] + known)
        cols = [["lab_note_%d" % k, "NullableStringColumn"], ["lab_depth_%d" % k, "NullableZeroBasedIntegerColumn"]][:rng.randrange(0, 3)]
        if rng.random() < 0.3 and not _overrides_dbsnp(base, regs):
            cols.append(["dbSNP_RS", "RequireNullValue"])
        return {"version": version, "annotation": ann, "extends": base, "filtered": rng.choice([None, None, ["Center"] if base.startswith("gdc") else None]),
                "columns": cols}
    return {"version": version, "annotation": ann, "extends": None, "filtered": None,
            "columns": [["Chromosome", "StringOrIntegerColumn"], ["Start_Position", "OneBasedIntegerColumn"],
                        ["End_Position", "OneBasedIntegerColumn"], ["note_%d" % k, "NullableStringColumn"]]}


def header_for(d):
    out = ["#version " + d["version"]]
    if d["annotation"] != d["version"]:
        out.append("#annotation.spec " + d["annotation"])
    return out


def gen_history(rng):
    ops, regs = [], []
    n_regs = rng.choice([1, 1, 2, 2, 3])
    k = 0
    for r in range(n_regs):
        defs = []
        for _ in range(rng.choice([1, 1, 2])):
            defs.append(gen_def(rng, k, [d["annotation"] for d in regs], regs))
            k += 1
        if rng.random() < 0.15 and regs:
            defs.append(dict(rng.choice(regs)))      # repeated registration of an earlier definition
        if rng.random() < 0.1:
            defs.append({"version": "x", "annotation": "bad-%d" % k, "extends": "no-such-base", "filtered": None, "columns": []})
        if rng.random() < 0.4:
            d0 = rng.choice(defs)
            ops.append({"k": "find", "version": d0["version"], "annotation": d0["annotation"]})   # a miss before registration
        ops.append({"k": "register", "defs": defs})
        regs += [d for d in defs if d["annotation"].startswith("lab-")]
        # interleaved lookups / header validation / reads after each registration
        for d in rng.sample(regs, min(len(regs), 2)):
            ops.append({"k": "find", "version": d["version"], "annotation": d["annotation"]})
            ops.append({"k": "header", "lines": header_for(d), "mode": rng.choice(["Silent", "Strict"])})
        ops.append({"k": "find", "version": "gdc-1.0.0", "annotation": rng.choice(["gdc-1.0.0-public", "gdc-2.0.0-aliquot", None])})
        ops.append({"k": "header", "lines": ["#version gdc-1.0.0", "#annotation.spec gdc-1.0.0-protected"], "mode": "Strict"})
    return ops, regs


def analyse(out, ops, regs, steps, where):
    """The property on the implementation's answers for one history."""
    registered = {}
    failed_regs = set()
    for o, s in zip(ops, steps):
        if "harness_exc" in s or "crash" in s:
            out.failures.append(dict(where, what="harness failure", kind="harness", got=s))
            return
        if o["k"] == "register":
            known = {a for (_v, a) in registered} | set(BUILTIN_ANNOTATIONS)
            anns = [d["annotation"] for d in o["defs"]]
            well_formed = (len(set(anns)) == len(anns) and not (set(anns) & known)
                           and all(d.get("extends") is None or d["extends"] in known or d["extends"] in anns for d in o["defs"]))
            if s["exc"] is None:
                for d in o["defs"]:
                    registered[(d["version"], d["annotation"])] = d
            elif well_formed:
                out.failures.append(dict(where, what="registering well-formed definitions failed (%s)" % s["exc"], kind="registration-failed",
                                         defs=o["defs"]))
                return
        elif o["k"] == "find" and (o["version"], o["annotation"]) in registered:
            if s.get("annotation") != o["annotation"]:
                out.failures.append(dict(where, what="a registered scheme (%s, %s) does not resolve (any more)" % (o["version"], o["annotation"]),
                                         kind="not-resolved", got=s))
                return
        elif o["k"] == "find" and o["version"] == "gdc-1.0.0" and o["annotation"] in ("gdc-1.0.0-public", "gdc-2.0.0-aliquot", None):
            want = {"gdc-1.0.0-public": 119, "gdc-2.0.0-aliquot": 144, None: 34}[o["annotation"]]
            if len(s.get("names", [])) != want:
                out.failures.append(dict(where, what="a built-in scheme changed after registrations", kind="builtin-changed", got=s.get("annotation")))
                return
        elif o["k"] == "header":
            d = None
            for (v, a), dd in registered.items():
                if o["lines"] == header_for(dd):
                    d = dd
            if d is not None or o["lines"][-1].endswith("gdc-1.0.0-protected"):
                bad = s.get("exc") or [e for e in s.get("errors", []) if e[0].startswith("HEADER_UNSUPPORTED") or e[0].startswith("HEADER_MISSING")]
                if bad:
                    out.failures.append(dict(where, what="a header naming a registered (or built-in) scheme does not validate", kind="header-unsupported",
                                             header=o["lines"], got=bad))
                    return


def model_request(h):
    return {"op": "registry.run", "ops": [o for o in h["ops"] if o["k"] != "roundtrip"]}


def eval_history(h, res, m):
    """One history (shared by run and replay_case): `res` is what the fresh interpreter answered (run_history), `m` the
    model's answer (None = model not consulted).  Returns (correspondence, failures, crashed); correspondence is
    None / "agree" / "unmodelled" / a disagreement dict."""
    where = {"ops": h["ops"], "late_import": h["late_import"]}
    if "crash" in res:
        return None, [dict(where, what="history crashed the interpreter", kind="harness", got=res["crash"])], True
    steps = res["steps"]
    corr = None
    if m is not None:
        corr = "agree"
        if has_unmodelled(m):
            corr = "unmodelled"
        elif m["steps"] != steps:
            k = next((i for i, (a, b) in enumerate(zip(m["steps"], steps)) if a != b), min(len(m["steps"]), len(steps)))   # (or one is longer)
            at = lambda xs: xs[k] if k < len(xs) else None  # noqa: E731
            corr = {"op": "registry.run", "step": k, "operation": at(h["ops"]), "model": at(m["steps"]), "impl": at(steps),
                    "history": h["ops"][:k + 1]}
    judged = Outcome()
    analyse(judged, h["ops"], None, steps, where)
    return corr, judged.failures, False


def run(ctx):
    out = Outcome()
    out.rule = ("histories of 1-3 registration calls (definitions extending built-ins or earlier extras, stand-alone, repeated, one faulty) interleaved with lookups before/after, "
                "header validation (Silent/Strict) and checks that built-ins are unchanged; one fresh interpreter per history, header module imported before or after the first registration; "
                "non-trivial = >= 2 registration calls; distinct histories")
    rng = ctx.rng("c20")
    hists = []
    for _ in range(ctx.scale(48, 400)):
        ops, regs = gen_history(rng)
        hists.append(({"ops": ops, "late_import": rng.random() < 0.4}, regs))
    with ThreadPoolExecutor(max_workers=14) as ex:
        results = list(ex.map(lambda h: run_history(h[0]), hists))
    mo = ctx.driver.run([model_request(h) for h, _ in hists])
    for (h, regs), res, m in zip(hists, results, mo):
        out.evaluations += 1
        corr, failures, crashed = eval_history(h, res, m)
        out.failures += failures
        if crashed:
            continue
        if corr == "unmodelled":
            out.unmodelled += 1
        elif isinstance(corr, dict):
            out.disagreements.append(corr)
        if sum(1 for o in h["ops"] if o["k"] == "register") >= 2:
            out.nontrivial.add(json.dumps(h["ops"], sort_keys=True))
        out.distribution["registrations"] += sum(1 for o in h["ops"] if o["k"] == "register")
        if len(out.samples) < 2:
            out.sample({"ops": h["ops"][:6]})
    return out


def _step_text(o, s):
    if o["k"] == "register":
        return "register %s -> %s" % ([(d["version"], d["annotation"], "extends %s" % d.get("extends")) for d in o["defs"]], "ok" if s.get("exc") is None and "exc" in s else s)
    if o["k"] == "find":
        return "find_scheme(%s, %s) -> %s" % (o.get("version"), o.get("annotation"),
                                              "(%s, %s, %d columns)" % (s.get("version"), s["annotation"], len(s.get("names", []))) if s.get("annotation") else s)
    if o["k"] == "header":
        return "MafHeader.from_lines(%s, %s) -> %s" % (o["lines"], o.get("mode"), s)
    return "%s -> %s" % (o["k"], s)


def replay_case(ctx, failure):
    """Re-evaluate the stored failing input on the current implementation; return the list of failure dicts it
    produces now (empty list = the property holds on that input)."""
    ops = failure.get("ops")
    if not isinstance(ops, list) or not isinstance(failure.get("late_import"), bool) or not all(isinstance(o, dict) and "k" in o for o in ops):
        return None
    h = {"ops": ops, "late_import": failure["late_import"]}
    print("executed: history of %d operation(s) (%d registration call(s)) in a fresh interpreter on %s, maflib.header imported %s the first registration" % (
        len(ops), sum(1 for o in ops if o["k"] == "register"), common.REPO, "after" if h["late_import"] else "before"))
    res = run_history(h)
    m = None
    if ctx.driver.available():
        try:
            m = ctx.driver.run([model_request(h)])[0]
        except Exception as e:  # noqa
            print("model: driver failed (%s)" % str(e)[:200])
    corr, failures, crashed = eval_history(h, res, m)
    if crashed:
        print("implementation: the interpreter crashed: %s" % res["crash"][-300:])
    else:
        msteps = m["steps"] if (m is not None and corr != "unmodelled") else None
        for n, (o, s) in enumerate(zip(ops, res["steps"])):
            print("  step %d implementation: %s" % (n, _step_text(o, s)[:400]))
            if msteps is not None and n < len(msteps) and msteps[n] != s:
                print("  step %d model:          %s" % (n, _step_text(o, msteps[n])[:400]))
        if m is not None:
            print("model vs implementation: %s" % (corr if isinstance(corr, str) else "first difference at step %d" % corr["step"]))
    for g in failures:
        print("oracle: [%s] %s%s" % (g["kind"], g["what"], "; got %s" % (g["got"],) if "got" in g else ""))
    if not failures:
        print("oracle: satisfied (registered schemes resolve and validate, built-ins unchanged)")
    return failures


def search(ctx):
    return run(ctx)

