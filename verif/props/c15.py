"""C15 - a record stays coherent under any sequence of column edits."""
import itertools

from .. import impl
from ..common import enc_val, exc_name, has_unmodelled
from ..runner import Outcome

LEVEL = "proof"
ASSUMPTIONS = ["edits are the mapping operations set / add / delete (all addressing forms); mutating a stored column object's fields behind the record's back is outside the property"]
NAMES = ["a", "b", "c"]
IMPL_ONLY = ("restore", "copy", "huge", "warnings-as-errors", "foreign")     # operations the model has no counterpart of (object identity, resource limits)


def gen_op(rng, names=NAMES, idxs=(0, 1, 2, 3, 5, -1, None, None, None)):
    k = rng.random()
    name = rng.choice(names)
    if k > 0.94:
        # the deletions the mapping interface adds on top of `del` (inherited from MutableMapping; modelled as Record.popItem /
        # Record.clear): popitem() takes the first position, clear() repeats it until KeyError
        return {"k": rng.choice(["popitem", "popitem", "clear"])}
    if k < 0.6:
        idx = rng.choice(idxs)
        form = rng.choice(["name", "name", "int", "col", "add", "add"])
        col = {"key": name, "index": idx, "value": "v%d" % rng.randrange(100)}
        if form == "add":
            return {"k": "add", "col": col}
        if form == "name":
            key = {"t": "name", "v": name if rng.random() < 0.9 else rng.choice(names)}
        elif form == "int":
            key = {"t": "int", "v": rng.choice([0, 1, 2, 3, 4, -1, -2])}
        else:
            key = {"t": "col", "key": name if rng.random() < 0.9 else rng.choice(names)}
        return {"k": "set", "key": key, "col": col}
    form = rng.choice(["name", "int", "col", "none"] if rng.random() < 0.9 else ["other"])
    if form == "name":
        key = {"t": "name", "v": name}
    elif form == "int":
        key = {"t": "int", "v": rng.choice([0, 1, 2, 3, 5, -1])}
    elif form == "col":
        key = {"t": "col", "key": name}
    elif form == "none":
        key = {"t": "none"}
    else:
        key = {"t": "other"}
    return {"k": "del", "key": key}


# ----------------------------------------------------------------- stored columns of every type and value shape
# The property quantifies over edit histories, whatever the stored columns are: every column class of the library, holding
# every shape of value - in particular the ones that are false in a boolean context (None, "", 0, False, 0.0, [], ()) and
# each class's own null value (what build() makes of the empty text).
FALSY = [None, "", 0, False, 0.0, [], ()]
OTHER_VALUES = ["x", 1, ["a"], [0], True]
BUILD_TEXTS = ["", "x", "0", "1;2", "+", "Yes"]
_SHAPES = []


def column_of(spec):
    """The column object an op stores (or addresses by): a plain MafColumnRecord with a text value, or - "cls" given - an
    instance of that column class made through its constructor ("val") or its build() factory ("text")."""
    from maflib.column import MafColumnRecord
    import maflib.column_types as CT
    if "cls" not in spec:
        return MafColumnRecord(spec["key"], spec.get("value"), column_index=spec.get("index"))
    cls = getattr(CT, spec["cls"])
    if "text" in spec:
        return cls.build(name=spec["key"], value=spec["text"], column_index=spec.get("index"))
    return cls(spec["key"], impl.dec_val(spec["val"]), spec.get("index"))


def column_shapes():
    """Every (column class, value) the library lets one construct and print as a single field: [falsy-valued, others]."""
    import inspect
    import maflib.column_types as CT
    from maflib.column import MafColumnRecord
    if _SHAPES:
        return _SHAPES
    falsy, others = [], []
    for name, cls in sorted(inspect.getmembers(CT, inspect.isclass)):
        if not issubclass(cls, MafColumnRecord) or inspect.isabstract(cls) or name.startswith("_"):
            continue
        cands = [{"cls": name, "val": enc_val(v)} for v in FALSY + OTHER_VALUES] + [{"cls": name, "text": t} for t in BUILD_TEXTS]
        for sp in cands:
            try:
                col = column_of(dict(sp, key="k", index=None))
                text = str(col)
                if "\t" in text or "\n" in text or "\r" in text:
                    continue
                is_falsy = not col.value
            except Exception:  # noqa
                continue
            (falsy if is_falsy else others).append(sp)
    _SHAPES.extend([falsy, others])
    return _SHAPES


TYPED_NAMES = ["a", "b", "c", ""]


def gen_typed_op(rng, names=None, idxs=None):
    """An op of gen_op over the names a, b, c and the empty name, whose column (and the column used as a key) is of any class / value shape."""
    falsy, others = column_shapes()
    kw = {} if idxs is None else {"idxs": idxs}
    o = gen_op(rng, names=names if names is not None else TYPED_NAMES if rng.random() < 0.15 else NAMES, **kw)
    if "col" in o and rng.random() < 0.75:
        sp = rng.choice(falsy) if rng.random() < 0.7 else rng.choice(others)
        o["col"] = dict(o["col"], **sp)
    if o.get("key", {}).get("t") == "col" and rng.random() < 0.4:
        o["key"] = dict(o["key"], **rng.choice(falsy))
    return o


def all_ops_small():
    """Every op over 2 names x indexes {None,0,1,2,-1} x all addressing forms (thorough tier)."""
    ops = []
    names = ["a", "b"]
    for n in names:
        for idx in (None, 0, 1, 2, -1):
            col = {"key": n, "index": idx, "value": "v"}
            ops.append({"k": "add", "col": col})
            ops.append({"k": "set", "key": {"t": "name", "v": n}, "col": col})
            ops.append({"k": "set", "key": {"t": "col", "key": n}, "col": col})
            for ki in (0, 1, 2):
                ops.append({"k": "set", "key": {"t": "int", "v": ki}, "col": col})
        ops.append({"k": "del", "key": {"t": "name", "v": n}})
    for ki in (0, 1, 2):
        ops.append({"k": "del", "key": {"t": "int", "v": ki}})
    ops += [{"k": "popitem"}, {"k": "clear"}]
    return ops


def py_key(k, cols):
    from maflib.column import MafColumnRecord
    t = k["t"]
    if t == "name":
        return k["v"]
    if t == "int":
        return k["v"]
    if t == "col":
        return column_of(k) if "cls" in k else MafColumnRecord(k["key"], None)
    if t == "none":
        return None
    return 3.5


def observe(rec, oids):
    """Everything the public API shows: len, names, by-name and by-index views, str."""
    d = rec._MafRecord__columns_dict
    slots = rec._MafRecord__columns_list
    return {"len": len(rec), "keys": list(rec),
            "dict": [[n, oids.get(id(c), -1), c.column_index] for n, c in d.items()],
            "slots": [None if c is None else [c.key, oids.get(id(c), -1), c.column_index] for c in slots]}


def coherence(rec):
    """The property's coherence conditions, through the public API only.  An accessor that raises on a record the API
    itself produced is an incoherence too (not a reason for the oracle to give up)."""
    try:
        return _coherence(rec)
    except Exception as e:  # noqa
        return ["a read-only accessor of the record failed with %s: its views no longer agree" % exc_name(e)]


def _coherence(rec):
    bad = []
    n = len(rec)
    occupied = []
    for i in range(n):
        c = rec[i]
        if c is not None:
            occupied.append(i)
            if c.column_index != i:
                bad.append("column stored at %d reports index %r" % (i, c.column_index))
            try:
                if rec[c.key] is not c:
                    bad.append("lookup by name %r and by index %d disagree" % (c.key, i))
            except KeyError:
                bad.append("column at index %d (%r) is unknown by name" % (i, c.key))
    d = rec._MafRecord__columns_dict
    for name, c in d.items():
        ci = c.column_index
        if ci is None or ci < 0 or ci >= n or rec[ci] is not c:
            bad.append("name %r maps to a column that is not at its index %r" % (name, ci))
    want_len = (max(occupied) + 1) if occupied else 0
    if n != want_len:
        bad.append("len %d != highest occupied index + 1 (%d)" % (n, want_len))
    if list(rec) != [(rec[i].key if rec[i] is not None else None) for i in range(n)]:
        bad.append("iteration does not list names in index order")
    # the other views the mapping interface derives from iteration and lookup
    for i in occupied:
        c = rec[i]
        try:
            if c.key not in rec or rec[c] is not c:
                bad.append("column at index %d (%r) is not found by membership test / by column object" % (i, c.key))
        except KeyError:
            bad.append("column at index %d (%r) is unknown by column object" % (i, c.key))
    vals = list(rec.values())
    if len(vals) != n or any(vals[i] is not rec[i] for i in range(n)):
        bad.append("values() does not list the stored columns in index order")
    cv = rec.column_values()
    if len(cv) != n or any(cv[i] is not (rec[i].value if rec[i] is not None else None) for i in range(n)):
        bad.append("column_values() does not list the stored values in index order")
    fields = str(rec).split("\t") if n else []
    if len(fields) != n:
        bad.append("rendering has %d fields for %d positions" % (len(fields), n))
    return bad


def start_names(start):
    return list(start["names"]) if "names" in start else list(impl.scheme_by_annotation(start["scheme"]).column_names())


def start_record(start):
    """The record a history starts from: empty, or (start given) parsed from a line under column names or a built-in layout."""
    from maflib.record import MafRecord
    if not start:
        return MafRecord()
    kw = {"column_names": list(start["names"])} if "names" in start else {"scheme": impl.scheme_by_annotation(start["scheme"])}
    return MafRecord.from_line(start["line"], validation_stringency=impl.MODES["Silent"], **kw)


def prefix_ops(start):
    """What parsing a fully valid line amounts to, as edits of an empty record (this is what the model is given)."""
    if not start:
        return []
    return [{"k": "set", "key": {"t": "name", "v": n}, "col": {"key": n, "index": i, "value": ""}} for i, n in enumerate(start_names(start))]


def fully_valid(start):
    """Every field of the start line builds and validates on its own (then parsing stores every column, which is what
    prefix_ops tells the model); judged through the column API, not through from_line."""
    from maflib.column import MafColumnRecord
    names = start_names(start)
    fields = start["line"].split("\t")
    if len(fields) != len(names) or len(set(names)) != len(names):
        return False
    sch = impl.scheme_by_annotation(start["scheme"]) if "scheme" in start else None
    try:
        for i, (n, f) in enumerate(zip(names, fields)):
            cls = sch.column_class(n) if sch is not None else None
            col = cls.build(name=n, value=f, column_index=i) if cls is not None else MafColumnRecord(key=n, value=f, column_index=i)
            if col.validate(scheme=sch):
                return False
    except Exception:  # noqa
        return False
    return True


def run_history(ops, start=None):
    """Returns (steps, problems, initial observation); a problem of the starting record itself is reported at step -1."""
    try:
        rec = start_record(start)
    except Exception as e:  # noqa: the line is refused (e.g. a repeated column name): there is no record to keep coherent
        return [], [], {"refused": exc_name(e)}
    oids = {}
    offset = len(prefix_ops(start))
    for i, c in enumerate(rec._MafRecord__columns_list):
        if c is not None:
            oids[id(c)] = i
    keep = []
    steps = []
    problems = [(-1, b) for b in coherence(rec)]
    initial = observe(rec, oids)
    strict_warnings = False
    foreign = [None]
    recs = [rec]          # the record and the shallow copies made of it so far (copy.copy shares what the class shares)
    for n, o in enumerate(ops):
        if problems:
            break
        rec = recs[o.get("on", 0) % len(recs)]
        before = [observe(r, oids) for r in recs]
        exc = None
        import warnings
        try:
          with warnings.catch_warnings():
              if strict_warnings:
                  warnings.simplefilter("error")      # the application runs with -W error: a warning is an exception like any other
              if o["k"] == "warnings-as-errors":
                  strict_warnings = True
              elif o["k"] == "foreign":
                  # a column OBJECT that lives in another, separately built record (a, b, c at 0, 1, 2) is stored into this
                  # one: whatever happens, both records stay coherent, and a refusal changes neither
                  if foreign[0] is None:
                      from maflib.column import MafColumnRecord
                      from maflib.record import MafRecord
                      other = MafRecord()
                      for j, nm in enumerate(NAMES):
                          c0 = MafColumnRecord(nm, "o%d" % j, j)
                          oids[id(c0)] = 9000 + j
                          other[nm] = c0
                      foreign[0] = other
                      recs.append(other)
                      before.append(observe(other, oids))
                  c = foreign[0][o["slot"] % len(NAMES)]
                  if c is not None:
                      if o["via"] == "add":
                          rec.add(c)
                      elif o["via"] == "name":
                          rec[c.key] = c
                      elif o["via"] == "int":
                          rec[o["slot"] % len(NAMES)] = c
                      else:
                          rec[c] = c
              elif o["k"] == "copy":
                  import copy
                  recs.append(copy.copy(rec))
                  before.append(observe(recs[-1], oids))
              elif o["k"] == "popitem":
                  rec.popitem()
              elif o["k"] == "clear":
                  rec.clear()
              elif o["k"] == "huge":
                  # an index no list can be padded up to: the operation must fail and leave the record as it was
                  from maflib.column import MafColumnRecord
                  c = MafColumnRecord(o["name"], "v", None if o["via"] == "int" else o["index"])
                  keep.append(c)
                  oids[id(c)] = offset + n
                  if o["via"] == "add":
                      rec.add(c)
                  elif o["via"] == "int":
                      rec[o["index"]] = c
                  else:
                      rec[o["name"]] = c
              elif o["k"] == "restore":
                  # store again a column OBJECT that the record already holds (col = rec[x]; col.value = ...; rec[x] = col)
                  live = [c for c in rec._MafRecord__columns_list if c is not None]
                  if live:
                      c = live[o["slot"] % len(live)]
                      if o.get("edit"):
                          c.value = "edited"
                      via = o["via"]
                      if via == "add":
                          rec.add(c)
                      elif via == "name":
                          rec[c.key] = c
                      elif via == "int":
                          rec[c.column_index if c.column_index is not None else 0] = c
                      else:
                          rec[c] = c
              elif o["k"] in ("set", "add"):
                  c = column_of(o["col"])
                  oids[id(c)] = offset + n
                  keep.append(c)
                  if o["k"] == "add":
                      rec.add(c)
                  else:
                      rec[py_key(o["key"], keep)] = c
              else:
                  del rec[py_key(o["key"], keep)]
        except Exception as e:  # noqa
            exc = exc_name(e)
        after = [observe(r, oids) for r in recs]
        steps.append({"exc": exc, "obs": after[o.get("on", 0) % len(recs)]})
        if exc is not None and after != before:
            problems.append((n, "failed operation (%s) changed the record" % exc))
        if o["k"] == "huge" and exc is None:
            problems.append((n, "a column index no list can be padded up to (%d) was accepted" % o["index"]))
        for k, r in enumerate(recs):
            for b in coherence(r):
                problems.append((n, b if k == 0 else "shallow copy %d of the record: %s" % (k, b)))
    return steps, problems, initial


def eval_history(h, start=None):
    """One edit history on the implementation + the property's oracle.  Returns (steps, failures, initial observation)."""
    steps, problems, initial = run_history(h, start)
    failures = []
    if problems:
        n, what = problems[0]
        f = {"what": what, "kind": "incoherent" if "failed operation" not in what else "failed-op-changed",
             "history": h[:n + 1], "step": n, "all": [p[1] for p in problems][:5]}
        if start:
            f["start"] = start
        failures.append(f)
    return steps, failures, initial


# ----------------------------------------------------------------- histories that start from a parsed record
PARSED_NAMES = ["a", "b", "c", "d", "e"]


def gen_start(rng):
    """A fully valid line under plain column names, or under the basic layout with some of its list / nullable columns empty."""
    if rng.random() < 0.75:
        names = PARSED_NAMES[:rng.randrange(1, 6)]
        rng.shuffle(names)
        if len(names) >= 2 and rng.random() < 0.2:
            names[rng.randrange(len(names))] = names[0]          # a repeated column name
        return {"names": names, "line": "\t".join(rng.choice(["", "", "x", "0", "v w"]) for _ in names)}, NAMES, None
    from .. import sortcases as SC
    ann = "gdc-1.0.0"
    sch = impl.scheme_by_annotation(ann)
    names = sch.column_names()
    fields = list(SC._base_fields(ann, rng))
    for i, n in enumerate(names):
        if rng.random() < 0.3:
            try:
                col = sch.column_class(n).build(name=n, value="", column_index=i)
                if not col.validate(scheme=sch):
                    fields[i] = ""
            except Exception:  # noqa
                pass
    lists = [n for n in names if "Sequence" in sch.column_class(n).__name__]
    pool = [names[0], rng.choice(lists) if lists else names[1], names[rng.randrange(len(names))], "a"]
    idxs = (0, 1, 2, 3, len(names) - 1, len(names), -1, None, None, None, names.index(pool[1]), names.index(pool[2]))
    return {"scheme": ann, "line": "\t".join(fields)}, pool, idxs


def run(ctx):
    out = Outcome()
    out.rule = ("random edit histories (length 1-8) over 3 names, explicit/implicit/negative/gap indexes and every addressing form; "
                "a second family stores (and addresses by) columns of every column class of maflib.column_types with every value shape - None, '', 0, False, 0.0, [], (), each class's "
                "build('') null value, and ordinary values - and uses the empty column name; a third family starts from a record parsed from a line (plain column names with empty / short fields, "
                "or the basic layout with some list / nullable columns empty) instead of an empty record; "
                "thorough adds all histories of length <= 3 over a 46-op alphabet (popitem() and clear() included); non-trivial = history with >= 2 successful ops; distinct histories")
    rng = ctx.rng("hist")
    hists = []
    for _ in range(ctx.scale(1500, 20000)):
        hists.append([gen_op(rng) for _ in range(rng.randrange(1, 9))])
    if ctx.tier == "thorough":
        alpha = all_ops_small()
        for n in (1, 2, 3):
            for h in itertools.product(alpha, repeat=n):
                hists.append(list(h))
        out.extra["exhaustive_small_scope"] = "all histories of length <= 3 over %d ops" % len(alpha)
    # stored columns of every column class and value shape (the record must not care what a column holds)
    rng_t = ctx.rng("hist", "typed")
    for _ in range(ctx.scale(800, 10000)):
        hists.append([gen_typed_op(rng_t) for _ in range(rng_t.randrange(1, 9))])
    falsy, others = column_shapes()
    out.extra["column_shapes"] = "%d (class, falsy value) and %d (class, other value) pairs over %d column classes" % (
        len(falsy), len(others), len({sp["cls"] for sp in falsy + others}))
    cases = [(h, None) for h in hists]
    # histories on a record that was parsed from a line (the model is given the equivalent insertions first)
    rng_p = ctx.rng("hist", "parsed")
    for _ in range(ctx.scale(240, 3000)):
        start, names, idxs = gen_start(rng_p)
        cases.append(([gen_typed_op(rng_p, names, idxs) if rng_p.random() < 0.5 else gen_op(rng_p, names, **({} if idxs is None else {"idxs": idxs}))
                       for _ in range(rng_p.randrange(0, 7))], start))
    # histories that also store again an object the record already holds (implementation + oracle only: the model's
    # columns are values, it has no notion of "the same object")
    rng_r = ctx.rng("hist", "restore")
    for _ in range(ctx.scale(400, 5000)):
        h = []
        flavour = rng_r.choice(["restore", "restore", "mapping", "copy", "huge", "warnings", "foreign"])
        if flavour == "warnings":
            h.append({"k": "warnings-as-errors"})
        for _k in range(rng_r.randrange(2, 9)):
            x = rng_r.random()
            if flavour == "restore" and x < 0.35:
                h.append({"k": "restore", "via": rng_r.choice(["name", "int", "col", "add"]), "slot": rng_r.randrange(6), "edit": rng_r.random() < 0.5})
            elif flavour == "mapping" and x < 0.3:
                # the deletions the mapping interface adds on top of `del`: popitem() and clear()
                h.append({"k": rng_r.choice(["popitem", "popitem", "clear"])})
            elif flavour == "foreign" and x < 0.35:
                h.append({"k": "foreign", "slot": rng_r.randrange(3), "via": rng_r.choice(["name", "name", "col", "add", "int"])})
            elif flavour == "copy" and x < 0.2:
                h.append({"k": "copy", "on": rng_r.randrange(3)})
            elif flavour == "huge" and x < 0.25:
                h.append({"k": "huge", "name": rng_r.choice(NAMES + ["z"]), "via": rng_r.choice(["add", "int", "name"]),
                          "index": rng_r.choice([2 ** 63, 2 ** 63 - 1, 2 ** 64, 10 ** 30])})
            else:
                o = dict(gen_op(rng_r))
                if flavour == "copy":
                    o["on"] = rng_r.randrange(3)
                h.append(o)
        out.evaluations += 1
        steps, failures, _initial = eval_history(h, None)
        out.failures += failures
        out.distribution["implementation-only histories (%s)" % flavour] += 1
        if sum(1 for st in steps if st["exc"] is None) >= 2:
            out.nontrivial.add(repr(h))
    reqs = [{"op": "rec.edit", "ops": prefix_ops(start) + h} for h, start in cases]
    mo = ctx.driver.run(reqs)
    for (h, start), m in zip(cases, mo):
        out.evaluations += 1
        steps, failures, initial = eval_history(h, start)
        ok_ops = sum(1 for s in steps if s["exc"] is None)
        if ok_ops >= 2:
            out.nontrivial.add(repr((h, start)) if start else repr(h))
        for o, st in zip(h, steps):
            if "cls" in o.get("col", {}) and st["exc"] is None:
                out.distribution["stored typed column"] += 1
        if start:
            out.distribution["start:parsed (%s)" % ("names" if "names" in start else "layout")] += 1
        out.distribution["ops_ok"] += ok_ops
        out.distribution["ops_failed"] += len(steps) - ok_ops
        for s in steps:
            if s["exc"]:
                out.distribution["exc:" + s["exc"]] += 1
        np_ = len(prefix_ops(start))
        msteps = m["steps"][np_:np_ + len(steps)]
        minit = m["steps"][np_ - 1]["obs"] if np_ else None
        if has_unmodelled(msteps) or has_unmodelled(minit) or (start and not fully_valid(start)):
            out.unmodelled += 1
        elif np_ and minit != initial:
            out.disagreements.append({"op": "rec.edit", "start": start, "history": [], "model": minit, "impl": initial})
        elif msteps != steps:
            k = next(i for i, (a, b) in enumerate(zip(msteps, steps)) if a != b)
            d = {"op": "rec.edit", "history": h[:k + 1], "model": msteps[k], "impl": steps[k]}
            if start:
                d["start"] = start
            out.disagreements.append(d)
        out.failures += failures
        if len(out.samples) < 4 and ok_ops >= 3:
            out.sample({"history": h})
    return out


def show_col(c, index=True):
    idx = ", column_index=%r" % c.get("index") if index else ""
    if "cls" not in c:
        return "MafColumnRecord(%r, %r%s)" % (c["key"], c.get("value"), idx)
    if "text" in c:
        return "%s.build(name=%r, value=%r%s)" % (c["cls"], c["key"], c["text"], idx)
    return "%s(%r, %r%s)" % (c["cls"], c["key"], impl.dec_val(c["val"]), idx)


def show_op(o):
    def key(k):
        t = k["t"]
        return repr(k["v"]) if t in ("name", "int") else show_col(dict(k, value=None), index=False) if t == "col" else "None" if t == "none" else "3.5"
    on = " (on shallow copy %d)" % o["on"] if o.get("on") else ""
    if o["k"] == "del":
        return "del rec[%s]%s" % (key(o["key"]), on)
    if o["k"] == "foreign":
        return "c = the column object at index %d of ANOTHER record (a, b, c at 0, 1, 2); store it here via %s" % (o["slot"] % 3, o["via"])
    if o["k"] == "warnings-as-errors":
        return "warnings.simplefilter('error')   -> from here on a warning is an exception"
    if o["k"] == "copy":
        return "copy.copy(rec)   -> one more record to edit and to keep coherent"
    if o["k"] in ("popitem", "clear"):
        return "rec.%s()%s" % (o["k"], on)
    if o["k"] == "huge":
        return {"add": "rec.add(<%s at index %d>)", "int": "rec[%d] = <%s>", "name": "rec[%r] = <%s at index %d>"}[o["via"]] % (
            (o["name"], o["index"]) if o["via"] == "add" else (o["index"], o["name"]) if o["via"] == "int" else (o["name"], o["name"], o["index"]))
    if o["k"] == "restore":
        return "c = the %dth stored column object%s; store it again via %s" % (o["slot"], "; c.value = 'edited'" if o.get("edit") else "", o["via"])
    col = show_col(o["col"])
    return ("rec.add(%s)" % col if o["k"] == "add" else "rec[%s] = %s" % (key(o["key"]), col)) + on


def show_obs(obs):
    return "len %d, names %s, by index %s, by name %s" % (obs["len"], obs["keys"], [None if s is None else "%s@%s" % (s[0], s[2]) for s in obs["slots"]],
                                                        ["%s@%s" % (d[0], d[2]) for d in obs["dict"]])


def replay_case(ctx, failure):
    """Re-run the stored edit history on the current implementation; the failures it produces now ([] = property holds)."""
    h = failure.get("history")
    if not isinstance(h, list) or (not h and not failure.get("start")) or any(not isinstance(o, dict) or "k" not in o for o in h):
        return None
    start = failure.get("start")
    steps, failures, initial = eval_history(h, start)
    msteps = None
    if getattr(ctx, "driver_ok", True) and ctx.driver.available() and not any(o["k"] in IMPL_ONLY for o in h):
        msteps = ctx.driver.run([{"op": "rec.edit", "ops": prefix_ops(start) + h}])[0]["steps"][len(prefix_ops(start)):]
    if start:
        print("replay C15: MafRecord.from_line(%r, %s) edited by %d operation(s)" % (
            start["line"], "column_names=%r" % start["names"] if "names" in start else "scheme=<%s>" % start["scheme"], len(h)))
        print("     parsed record: %s" % show_obs(initial))
    else:
        print("replay C15: a new MafRecord edited by %d operation(s)" % len(h))
    for n, o in enumerate(h):
        if n >= len(steps):
            print("  %d. %s   (not executed: the history is cut at the first problem)" % (n, show_op(o)))
            continue
        st = steps[n]
        print("  %d. %s" % (n, show_op(o)))
        print("     implementation: %s; record now: %s" % ("raised " + st["exc"] if st["exc"] else "ok", show_obs(st["obs"])))
        if msteps is not None and n < len(msteps):
            m = msteps[n]
            if has_unmodelled(m):
                print("     model: outside its domain")
            elif m == st:
                print("     model: the same")
            else:
                print("     model: DIFFERS: %s; record now: %s" % ("raises " + m["exc"] if m.get("exc") else "ok", show_obs(m["obs"]) if isinstance(m.get("obs"), dict) else m.get("obs")))
    for f in failures:
        print("  oracle (%s): %s" % ("after step %d" % f["step"] if f["step"] >= 0 else "the parsed record, before any edit", "; ".join(f["all"])))
    return failures


def shrink(ctx, f):
    """Delta-debug the history to a minimal failing one."""
    h = f["history"]
    start = f.get("start")

    def fails(hh):
        try:
            _s, p, _i = run_history(hh, start)
        except Exception:  # noqa
            return False
        return bool(p)
    changed = True
    while changed:
        changed = False
        for i in range(len(h)):
            hh = h[:i] + h[i + 1:]
            if (hh or start) and fails(hh):
                h = hh
                changed = True
                break
    _s, again, _i = eval_history(h, start)
    if not again:
        return f
    return dict(f, shrunk_from=len(f["history"]), **again[0])


def search(ctx):
    return run(ctx)

