"""C15 - a record stays coherent under any sequence of column edits."""
import itertools

from .. import impl
from ..common import exc_name, has_unmodelled
from ..runner import Outcome

LEVEL = "proof"
ASSUMPTIONS = ["edits are the mapping operations set / add / delete (all addressing forms); mutating a stored column object's fields behind the record's back is outside the property"]
NAMES = ["a", "b", "c"]


def gen_op(rng, names=NAMES, idxs=(0, 1, 2, 3, 5, -1, None, None, None)):
    k = rng.random()
    name = rng.choice(names)
    if k < 0.6:
        idx = rng.choice(idxs)
        form = rng.choice(["name", "name", "int", "col", "add", "add"])
        col = {"key": name, "index": idx, "value": "v%d" % rng.randrange(100)}
        if form == "add":
            return {"k": "add", "col": col}
        if form == "name":
            key = {"t": "name", "v": name if rng.random() < 0.9 else rng.choice(names)}
        elif form == "int":
            key = {"t": "int", "v": rng.choice([0, 1, 2, 3, 4, -1, -2])}
        else:
            key = {"t": "col", "key": name if rng.random() < 0.9 else rng.choice(names)}
        return {"k": "set", "key": key, "col": col}
    form = rng.choice(["name", "int", "col", "none"] if rng.random() < 0.9 else ["other"])
    if form == "name":
        key = {"t": "name", "v": name}
    elif form == "int":
        key = {"t": "int", "v": rng.choice([0, 1, 2, 3, 5, -1])}
    elif form == "col":
        key = {"t": "col", "key": name}
    elif form == "none":
        key = {"t": "none"}
    else:
        key = {"t": "other"}
    return {"k": "del", "key": key}


def all_ops_small():
    """Every op over 2 names x indexes {None,0,1,2,-1} x all addressing forms (thorough tier)."""
    ops = []
    names = ["a", "b"]
    for n in names:
        for idx in (None, 0, 1, 2, -1):
            col = {"key": n, "index": idx, "value": "v"}
            ops.append({"k": "add", "col": col})
            ops.append({"k": "set", "key": {"t": "name", "v": n}, "col": col})
            ops.append({"k": "set", "key": {"t": "col", "key": n}, "col": col})
            for ki in (0, 1, 2):
                ops.append({"k": "set", "key": {"t": "int", "v": ki}, "col": col})
        ops.append({"k": "del", "key": {"t": "name", "v": n}})
    for ki in (0, 1, 2):
        ops.append({"k": "del", "key": {"t": "int", "v": ki}})
    return ops


def py_key(k, cols):
    from maflib.column import MafColumnRecord
    t = k["t"]
    if t == "name":
        return k["v"]
    if t == "int":
        return k["v"]
    if t == "col":
        return MafColumnRecord(k["key"], None)
    if t == "none":
        return None
    return 3.5


def observe(rec, oids):
    """Everything the public API shows: len, names, by-name and by-index views, str."""
    d = rec._MafRecord__columns_dict
    slots = rec._MafRecord__columns_list
    return {"len": len(rec), "keys": list(rec),
            "dict": [[n, oids.get(id(c), -1), c.column_index] for n, c in d.items()],
            "slots": [None if c is None else [c.key, oids.get(id(c), -1), c.column_index] for c in slots]}


def coherence(rec):
    """The property's coherence conditions, through the public API only."""
    bad = []
    n = len(rec)
    occupied = []
    for i in range(n):
        c = rec[i]
        if c is not None:
            occupied.append(i)
            if c.column_index != i:
                bad.append("column stored at %d reports index %r" % (i, c.column_index))
            try:
                if rec[c.key] is not c:
                    bad.append("lookup by name %r and by index %d disagree" % (c.key, i))
            except KeyError:
                bad.append("column at index %d (%r) is unknown by name" % (i, c.key))
    for name in [k for k in rec.keys() if k is not None]:
        pass
    d = rec._MafRecord__columns_dict
    for name, c in d.items():
        ci = c.column_index
        if ci is None or ci < 0 or ci >= n or rec[ci] is not c:
            bad.append("name %r maps to a column that is not at its index %r" % (name, ci))
    want_len = (max(occupied) + 1) if occupied else 0
    if n != want_len:
        bad.append("len %d != highest occupied index + 1 (%d)" % (n, want_len))
    if list(rec) != [(rec[i].key if rec[i] is not None else None) for i in range(n)]:
        bad.append("iteration does not list names in index order")
    fields = str(rec).split("\t") if n else []
    if len(fields) != n:
        bad.append("rendering has %d fields for %d positions" % (len(fields), n))
    return bad


def run_history(ops):
    from maflib.column import MafColumnRecord
    from maflib.record import MafRecord
    rec = MafRecord()
    oids = {}
    keep = []
    steps = []
    problems = []
    for n, o in enumerate(ops):
        before = observe(rec, oids)
        exc = None
        try:
            if o["k"] in ("set", "add"):
                c = MafColumnRecord(o["col"]["key"], o["col"]["value"], column_index=o["col"]["index"])
                oids[id(c)] = n
                keep.append(c)
                if o["k"] == "add":
                    rec.add(c)
                else:
                    rec[py_key(o["key"], keep)] = c
            else:
                del rec[py_key(o["key"], keep)]
        except Exception as e:  # noqa
            exc = exc_name(e)
        after = observe(rec, oids)
        steps.append({"exc": exc, "obs": after})
        if exc is not None and after != before:
            problems.append((n, "failed operation (%s) changed the record" % exc))
        for b in coherence(rec):
            problems.append((n, b))
        if problems:
            break
    return steps, problems


def eval_history(h):
    """One edit history on the implementation + the property's oracle.  Returns (steps, failures)."""
    steps, problems = run_history(h)
    failures = []
    if problems:
        n, what = problems[0]
        failures.append({"what": what, "kind": "incoherent" if "failed operation" not in what else "failed-op-changed",
                         "history": h[:n + 1], "step": n, "all": [p[1] for p in problems][:5]})
    return steps, failures


def run(ctx):
    out = Outcome()
    out.rule = ("random edit histories (length 1-8) over 3 names, explicit/implicit/negative/gap indexes and every addressing form; "
                "thorough adds all histories of length <= 3 over a 44-op alphabet; non-trivial = history with >= 2 successful ops; distinct histories")
    rng = ctx.rng("hist")
    hists = []
    for _ in range(ctx.scale(1500, 20000)):
        hists.append([gen_op(rng) for _ in range(rng.randrange(1, 9))])
    if ctx.tier == "thorough":
        alpha = all_ops_small()
        for n in (1, 2, 3):
            for h in itertools.product(alpha, repeat=n):
                hists.append(list(h))
        out.extra["exhaustive_small_scope"] = "all histories of length <= 3 over %d ops" % len(alpha)
    reqs = [{"op": "rec.edit", "ops": h} for h in hists]
    mo = ctx.driver.run(reqs)
    for h, m in zip(hists, mo):
        out.evaluations += 1
        steps, failures = eval_history(h)
        ok_ops = sum(1 for s in steps if s["exc"] is None)
        if ok_ops >= 2:
            out.nontrivial.add(repr(h))
        out.distribution["ops_ok"] += ok_ops
        out.distribution["ops_failed"] += len(steps) - ok_ops
        for s in steps:
            if s["exc"]:
                out.distribution["exc:" + s["exc"]] += 1
        msteps = m["steps"][:len(steps)]
        if has_unmodelled(msteps):
            out.unmodelled += 1
        elif msteps != steps:
            k = next(i for i, (a, b) in enumerate(zip(msteps, steps)) if a != b)
            out.disagreements.append({"op": "rec.edit", "history": h[:k + 1], "model": msteps[k], "impl": steps[k]})
        out.failures += failures
        if len(out.samples) < 4 and ok_ops >= 3:
            out.sample({"history": h})
    return out


def show_op(o):
    def key(k):
        t = k["t"]
        return repr(k["v"]) if t in ("name", "int") else "MafColumnRecord(%r)" % k["key"] if t == "col" else "None" if t == "none" else "3.5"
    if o["k"] == "del":
        return "del rec[%s]" % key(o["key"])
    col = "MafColumnRecord(%r, %r, column_index=%r)" % (o["col"]["key"], o["col"]["value"], o["col"]["index"])
    return "rec.add(%s)" % col if o["k"] == "add" else "rec[%s] = %s" % (key(o["key"]), col)


def show_obs(obs):
    return "len %d, names %s, by index %s, by name %s" % (obs["len"], obs["keys"], [None if s is None else "%s@%s" % (s[0], s[2]) for s in obs["slots"]],
                                                        ["%s@%s" % (d[0], d[2]) for d in obs["dict"]])


def replay_case(ctx, failure):
    """Re-run the stored edit history on the current implementation; the failures it produces now ([] = property holds)."""
    h = failure.get("history")
    if not isinstance(h, list) or not h or any(not isinstance(o, dict) or "k" not in o for o in h):
        return None
    steps, failures = eval_history(h)
    msteps = None
    if getattr(ctx, "driver_ok", True) and ctx.driver.available():
        msteps = ctx.driver.run([{"op": "rec.edit", "ops": h}])[0]["steps"]
    print("replay C15: a new MafRecord edited by %d operation(s)" % len(h))
    for n, o in enumerate(h):
        if n >= len(steps):
            print("  %d. %s   (not executed: the history is cut at the first problem)" % (n, show_op(o)))
            continue
        st = steps[n]
        print("  %d. %s" % (n, show_op(o)))
        print("     implementation: %s; record now: %s" % ("raised " + st["exc"] if st["exc"] else "ok", show_obs(st["obs"])))
        if msteps is not None and n < len(msteps):
            m = msteps[n]
            if has_unmodelled(m):
                print("     model: outside its domain")
            elif m == st:
                print("     model: the same")
            else:
                print("     model: DIFFERS: %s; record now: %s" % ("raises " + m["exc"] if m.get("exc") else "ok", show_obs(m["obs"]) if isinstance(m.get("obs"), dict) else m.get("obs")))
    for f in failures:
        print("  oracle (after step %d): %s" % (f["step"], "; ".join(f["all"])))
    return failures


def shrink(ctx, f):
    """Delta-debug the history to a minimal failing one."""
    h = f["history"]

    def fails(hh):
        try:
            _s, p = run_history(hh)
        except Exception:  # noqa
            return False
        return bool(p)
    changed = True
    while changed:
        changed = False
        for i in range(len(h)):
            hh = h[:i] + h[i + 1:]
            if hh and fails(hh):
                h = hh
                changed = True
                break
    _s, again = eval_history(h)
    if not again:
        return f
    return dict(f, shrunk_from=len(f["history"]), **again[0])


def search(ctx):
    return run(ctx)

