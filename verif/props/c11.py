"""C11 - overlap iteration partitions its inputs into exact overlap groups."""
import functools
import itertools
import re

from .. import impl, sortcases as SC
from ..common import exc_name, has_unmodelled
from ..runner import Outcome
from .c08 import expected_cmp

LEVEL = "proof"
TRUSTED_EXTRA = ["translator verif/gen_bodies.py (Python ast -> PyIR terms, purely syntactic)", "PyIR interpreter (lean/MafModel/MafModel/PyIR/Interp.lean), validated on every run against the real LocatableOverlapIterator.__overlaps / __overlaps_with_barcode (body.overlaps)"]
ASSUMPTIONS = ["records are closed intervals (start <= end); with end < start the real loop emits empty groups forever (outside the property's domain, recorded in DESIGN.md)"]


class Rec(SC.Loc):
    """A locatable with barcodes (what BarcodesAndCoordinate reads through record.value)."""

    def __init__(self, tumor, normal, chrom, start, end, rid, ref="A", alts=("C",)):
        super().__init__(chrom, start, end)
        self.tumor, self.normal, self.rid = tumor, normal, rid
        self._ref, self._alts = ref, list(alts)

    def value(self, key):
        return {"Tumor_Sample_Barcode": self.tumor, "Matched_Norm_Sample_Barcode": self.normal}.get(key)

    @property
    def ref(self):
        return self._ref

    @property
    def alts(self):
        return self._alts

    def __repr__(self):
        return "R%d(%s/%s %s:%s-%s)" % (self.rid, self.tumor, self.normal, self.chromosome, self.start, self.end)


def loc_of(r):
    return {"hasCoords": True, "tumor": r.tumor, "normal": r.normal, "chr": r.chromosome, "start": r.start, "stop": r.end}


def gen_config(rng, max_items):
    n_inputs = rng.choice([1, 2, 2, 3])
    chroms = rng.choice([["1"], ["1", "2"], ["chr1", "chr10", "chr2"], ["3", "11", "X"]])
    contigs = rng.choice([None, None, list(reversed(chroms)), list(chroms)] + ([SC.LONG] if chroms == ["3", "11", "X"] else []))
    by_barcodes = rng.random() < 0.5
    pairs = [("T1", "N1")] if rng.random() < 0.5 else [("T1", "N1"), ("T1", "N2"), ("T2", "N1")]
    items = []
    for k in range(rng.randrange(0, max_items + 1)):
        s = rng.randrange(1, 9)
        e = s + rng.choice([0, 0, 1, 2, 4])
        t, n = rng.choice(pairs)
        items.append((t, n, rng.choice(chroms), s, e, rng.randrange(n_inputs)))
    return n_inputs, contigs, by_barcodes, items


def build_inputs(n_inputs, contigs, by_barcodes, items, rng=None, alleles=None):
    order = "BarcodesAndCoordinate" if by_barcodes else "Coordinate"
    inputs = [[] for _ in range(n_inputs)]
    for t, n, c, s, e, i in items:
        inputs[i].append((t, n, c, s, e))
    rid = 0
    out = []
    for inp in inputs:
        inp.sort(key=functools.cmp_to_key(lambda a, b: expected_cmp(
            {"tumor": a[0], "normal": a[1], "chr": a[2], "start": a[3], "stop": a[4]},
            {"tumor": b[0], "normal": b[1], "chr": b[2], "start": b[3], "stop": b[4]}, order, contigs or [])))
        recs = []
        for (t, n, c, s, e) in inp:
            ref, alts = ("A", ("C",))
            if alleles is not None:
                ref, alts = alleles(rid)
            recs.append(Rec(t, n, c, s, e, rid, ref, alts))
            rid += 1
        out.append(recs)
    return out


def components(inputs, by_barcodes):
    """Connected components of the closed-interval overlap graph (same chromosome, and same barcode pair when grouping by barcodes)."""
    recs = [r for inp in inputs for r in inp]
    parent = {r.rid: r.rid for r in recs}

    def find(x):
        while parent[x] != x:
            parent[x] = parent[parent[x]]
            x = parent[x]
        return x
    for a, b in itertools.combinations(recs, 2):
        same = a.chromosome == b.chromosome and (not by_barcodes or (a.tumor == b.tumor and a.normal == b.normal))
        if same and a.start <= b.end and b.start <= a.end:
            parent[find(a.rid)] = find(b.rid)
    comps = {}
    for r in recs:
        comps.setdefault(find(r.rid), set()).add(r.rid)
    return sorted(map(frozenset, comps.values()), key=lambda s: min(s))


# How the harness drives the iterator and looks at what it returns.  The property is about the emitted groups, whichever
# way a consumer takes them: one at a time, collected first and inspected afterwards, through the documented `next()`
# method, modifying the lists it was handed, with the contig order given as a FASTA index file, or over real MafRecords.
MODES = ["stream", "collect", "next", "consume", "fai", "fai-gone", "peekable", "records", "readers"]


class RecordOf:
    """Real MafRecord objects standing for the Rec items of a case (identity -> rid)."""

    def __init__(self, inputs, allele_columns=False):
        from maflib.column import MafColumnRecord
        from maflib.record import MafRecord
        self.rid = {}
        self.inputs = []
        for inp in inputs:
            row = []
            for x in inp:
                r = MafRecord()
                cols = [("Chromosome", x.chromosome), ("Start_Position", x.start), ("End_Position", x.end),
                        ("Tumor_Sample_Barcode", x.tumor), ("Matched_Norm_Sample_Barcode", x.normal)]
                if allele_columns:
                    # Tumor_Seq_Allele1 (the other allele of the genotype: the reference, the same alternate, or a third
                    # allele) is not the record's alternate allele
                    a1 = [x.ref, x.alts[0], "T", "G"][x.rid % 4]
                    cols += [("Reference_Allele", x.ref), ("Tumor_Seq_Allele1", a1), ("Tumor_Seq_Allele2", x.alts[0])]
                for k, v in cols:
                    r.add(MafColumnRecord(k, v))
                self.rid[id(r)] = x.rid
                row.append(r)
            self.inputs.append(row)

    def ids(self, slot):
        return [self.rid.get(id(r), -1) for r in slot]


def drive(make, inputs, contigs, mode, limit, allele_columns=False):
    """Run the iterator `make(iters, fasta_index)` (fasta_index: None = pass the contig list itself, else the path of a
    FASTA index file listing the contigs) in one of MODES; groups as record ids per input, or an exception name."""
    import os
    import tempfile
    ids = lambda slot: [r.rid for r in slot]   # noqa: E731
    srcs = inputs
    if mode == "records":
        ro = RecordOf(inputs, allele_columns)
        srcs, ids = ro.inputs, ro.ids
    if mode == "readers":
        # the inputs are MafReader objects themselves (what the iterator's signature names), each over a file whose header
        # declares a sort order of its own WITHOUT contigs: the order of the iteration is the one given to the iterator
        from maflib.reader import MafReader
        from maflib.validation import ValidationStringency as VS
        names = ["Hugo_Symbol", "Chromosome", "Start_Position", "End_Position", "Tumor_Sample_Barcode", "Matched_Norm_Sample_Barcode",
                 "Reference_Allele", "Tumor_Seq_Allele1", "Tumor_Seq_Allele2"]
        srcs = []
        for k, inp in enumerate(inputs):
            lines = ["#version gdc-1.0.0", "#annotation.spec lab-overlap", "#sort.order " + ("Coordinate", "BarcodesAndCoordinate", "Unsorted")[k % 3], "\t".join(names)]
            for x in inp:
                alts = list(getattr(x, "alts", ["C"]))
                lines.append("\t".join(["r%d" % x.rid, str(x.chromosome), str(x.start), str(x.end), str(x.tumor), str(x.normal),
                                        str(getattr(x, "ref", "A")), str(getattr(x, "ref", "A")), alts[0] if alts else ""]))
            srcs.append(MafReader(lines=lines, validation_stringency=VS.Silent))
        ids = lambda slot: [int(r["Hugo_Symbol"].value[1:]) for r in slot]   # noqa: E731
    tmp = None
    try:
        if mode in ("fai", "fai-gone"):
            fd, tmp = tempfile.mkstemp(suffix=".fai", prefix="verif_overlap_")
            with os.fdopen(fd, "w") as h:
                h.write("".join("%s\t1000\t%d\t60\t61\n" % (c, 10 + 1017 * n) for n, c in enumerate(contigs)))
        if mode in ("fai", "fai-gone"):
            pass
        if mode == "peekable":
            # an input that already is a PeekableIterator (a caller that peeked at its inputs before handing them over)
            from maflib.util import PeekableIterator
            it = make([PeekableIterator(iter(x)) for x in srcs], tmp)
        else:
            it = make(srcs if mode == "readers" else [iter(x) for x in srcs], tmp)
        if mode == "fai-gone":
            # the index file was a temporary: it is gone (or rewritten) by the time the first group is asked for; the order is
            # the one supplied when the iterator was made
            os.unlink(tmp)
            tmp = None
        groups = []
        if mode == "collect":
            held = list(itertools.islice(it, limit + 1))          # all groups first ...
            groups = [[ids(slot) for slot in g] for g in held]   # ... looked at afterwards
        elif mode == "next":
            held = []
            while len(held) <= limit:
                try:
                    held.append(it.next())
                except StopIteration:
                    break
            groups = [[ids(slot) for slot in g] for g in held]
        else:
            for g in it:
                groups.append([ids(slot) for slot in g])
                if mode == "consume":                             # the consumer uses up the lists it was handed
                    for slot in g:
                        del slot[:]
                    del g[:]
                if len(groups) > limit:
                    break
        if len(groups) > limit:
            return groups, "RUNAWAY"
        return groups, None
    except Exception as e:  # noqa
        return None, exc_name(e)
    finally:
        if tmp is not None:
            try:
                os.unlink(tmp)
            except OSError:
                pass


def mode_applies(mode, contigs):
    """"fai" passes the contig order as a FASTA index file: only where a contig order is supplied."""
    return mode not in ("fai", "fai-gone") or bool(contigs)


def run_impl(inputs, contigs, by_barcodes, limit=200, mode="stream"):
    from maflib.overlap_iter import LocatableOverlapIterator

    def make(iters, fasta_index):
        if fasta_index is not None:
            return LocatableOverlapIterator(iters, fasta_index=fasta_index, by_barcodes=by_barcodes)
        return LocatableOverlapIterator(iters, contigs=contigs, by_barcodes=by_barcodes)
    return drive(make, inputs, contigs, mode, limit)


def recs_of(inputs):
    """The raw case, as stored in a failure: per input, [rid, tumor, normal, chromosome, start, end] in stream order."""
    return [[[x.rid, x.tumor, x.normal, x.chromosome, x.start, x.end] for x in inp] for inp in inputs]


def inputs_of(recs):
    return [[Rec(t, n, c, s, e, rid) for (rid, t, n, c, s, e) in inp] for inp in recs]


def model_request(inputs, contigs, by_barcodes):
    return {"op": "overlap.run", "by_barcodes": by_barcodes, "contigs": contigs or [],
            "inputs": [[loc_of(r) for r in inp] for inp in inputs]}


def judge(groups, exc, inputs, contigs, by_barcodes, stored):
    """The property's oracle on what one way of driving the iterator returned for sorted inputs."""
    failures = []
    if exc:
        failures.append(dict(stored, what="overlap iteration over sorted inputs failed with %s" % exc, kind="exception"))
        return failures
    # partition
    for k, inp in enumerate(inputs):
        cat = [rid for g in groups for rid in (g[k] if k < len(g) else [])]
        if any(len(g) != len(inputs) for g in groups) or cat != [x.rid for x in inp]:
            failures.append(dict(stored, what="concatenating slot %d over all groups does not reproduce input %d" % (k, k),
                                 kind="partition", got=groups))
            break
    else:
        if any(all(not s for s in g) for g in groups):
            failures.append(dict(stored, what="an emitted group is empty", kind="empty-group", got=groups))
        got = sorted((frozenset(rid for s in g for rid in s) for g in groups), key=lambda s: min(s) if s else -1)
        want = components(inputs, by_barcodes)
        if got != want:
            failures.append(dict(stored, what="groups are not the connected components of the overlap graph",
                                 kind="groups", expected=[sorted(c) for c in want], got=groups))
        else:
            # emitted in key order
            order = "BarcodesAndCoordinate" if by_barcodes else "Coordinate"
            byid = {x.rid: x for inp in inputs for x in inp}
            mins = []
            for g in groups:
                members = [byid[rid] for s in g for rid in s]
                mins.append(min(members, key=functools.cmp_to_key(lambda a, b: expected_cmp(loc_of(a), loc_of(b), order, contigs or []))))
            if any(expected_cmp(loc_of(mins[k]), loc_of(mins[k + 1]), order, contigs or []) > 0 for k in range(len(mins) - 1)):
                failures.append(dict(stored, what="groups are not emitted in key order", kind="group-order", got=groups))
    return failures


MODE_TEXT = {"stream": "each group looked at as soon as it is returned",
             "collect": "all groups collected first - list(iterator) - and looked at afterwards",
             "next": "driven through the next() method, groups looked at after the last one",
             "consume": "the consumer empties the lists it was handed before asking for the next group",
             "fai": "the contig order given as a FASTA index file (fasta_index=...)",
             "fai-gone": "the contig order given as a FASTA index file that is removed before the first group is asked for",
             "peekable": "the inputs are PeekableIterator objects",
             "records": "the inputs are real MafRecord objects",
             "readers": "the inputs are MafReader objects over files whose headers declare a sort order without contigs"}


def eval_sorted(inputs, contigs, by_barcodes, modes=None):
    """One configuration of sorted inputs on the implementation + the property's oracle, for every way of driving the
    iterator in `modes` (default: all of MODES that apply).  Returns (where, groups, exc, failures); groups / exc are
    those of the plain streaming use (what the model is compared with)."""
    where = {"inputs": [[repr(x) for x in inp] for inp in inputs], "contigs": contigs, "by_barcodes": by_barcodes}
    stored = dict(where, recs=recs_of(inputs))
    failures = []
    groups = exc = None
    seen = {}
    for mode in (MODES if modes is None else modes):
        if not mode_applies(mode, contigs):
            continue
        g, e = run_impl(inputs, contigs, by_barcodes, mode=mode)
        if mode == "stream":
            groups, exc = g, e
        key = repr((g, e))
        if key not in seen:                      # the same answer was judged already
            seen[key] = judge(g, e, inputs, contigs, by_barcodes, stored)
        for f in seen[key]:
            if mode == "stream":
                failures.append(f)
            elif not any(x.get("mode") is None for x in failures):    # not a consequence of the use: report the plain use only
                failures.append(dict(f, mode=mode, what="%s (%s)" % (f["what"], MODE_TEXT[mode])))
    return where, groups, exc, failures


def eval_disorder(inputs, contigs, by_barcodes, modes=None):
    """One configuration with an out-of-order input: the iteration must report it, however it is driven.
    Returns (exc, failures); exc is that of the plain streaming use."""
    failures = []
    exc0 = None
    for mode in (MODES if modes is None else modes):
        if not mode_applies(mode, contigs):
            continue
        groups, exc = run_impl(inputs, contigs, by_barcodes, mode=mode)
        if mode == "stream":
            exc0 = exc
        if exc is None and not failures:
            f = {"what": "an out-of-order input was not reported", "kind": "unreported-disorder",
                 "inputs": [[repr(x) for x in inp] for inp in inputs], "contigs": contigs, "by_barcodes": by_barcodes,
                 "recs": recs_of(inputs), "got": groups}
            if mode != "stream":
                f.update(mode=mode, what="%s (%s)" % (f["what"], MODE_TEXT[mode]))
            failures.append(f)
    return exc0, failures


OPT_SCRIPT = r"""
import json, sys
sys.path.insert(0, sys.argv[1])
from maflib.locatable import Locatable
from maflib.overlap_iter import LocatableOverlapIterator
cases = json.loads(sys.argv[2])
res = []
for contigs, inputs in cases:
    try:
        it = LocatableOverlapIterator([iter([Locatable(c, s, e) for (c, s, e) in inp]) for inp in inputs], contigs=contigs, by_barcodes=False)
        groups = [[[(x.chromosome, x.start, x.end) for x in slot] for slot in g] for g in it]
        res.append({"groups": groups})
    except Exception as e:
        res.append({"exc": type(e).__name__})
print(json.dumps(res))
"""

OPT_CASES = [
    # (contigs, inputs, in order?)
    (None, [[("1", 5, 6), ("1", 3, 4)]], False),                       # a start that goes down
    (None, [[("1", 1, 2), ("1", 3, 4)], [("2", 1, 1), ("1", 9, 9)]], False),   # a chromosome that goes down, second input
    (["2", "1"], [[("1", 1, 2), ("2", 3, 4)]], False),                 # against the supplied contig order
    (None, [[("1", 3, 9), ("1", 3, 4)]], False),                       # an end that goes down
    (None, [[("1", 1, 2), ("1", 2, 4)], [("1", 4, 4), ("2", 1, 1)]], True),
]


def eval_optimised(flag):
    """The same iterator in an interpreter started with -O / -OO (assert statements are not executed there): an
    out-of-order input is still reported, and sorted inputs give the groups they give without the flag."""
    import json
    import subprocess
    import sys
    from ..common import REPO
    cases = [[c, [[list(x) for x in inp] for inp in inputs]] for c, inputs, _ok in OPT_CASES]

    def run_py(flags):
        p = subprocess.run([sys.executable] + flags + ["-c", OPT_SCRIPT, REPO, json.dumps(cases)], stdout=subprocess.PIPE, stderr=subprocess.PIPE, text=True, timeout=120)
        return json.loads(p.stdout.strip().splitlines()[-1]) if p.returncode == 0 and p.stdout.strip() else None
    plain, opt = run_py([]), run_py([flag])
    where = {"kind": "optimised-interpreter", "flag": flag}
    if plain is None or opt is None:
        return [dict(where, what="the overlap iterator could not be run in a child interpreter (%s)" % ("plain" if plain is None else flag))]
    fails = []
    for (contigs, inputs, ok), a, b in zip(OPT_CASES, plain, opt):
        if not ok and "exc" not in b:
            fails.append(dict(where, contigs=contigs, inputs=[[list(x) for x in inp] for inp in inputs],
                              what="an out-of-order input was not reported by an interpreter started with %s (it returned %d group(s))" % (flag, len(b["groups"]))))
        elif ok and a != b:
            fails.append(dict(where, contigs=contigs, inputs=[[list(x) for x in inp] for inp in inputs],
                              what="sorted inputs give other groups in an interpreter started with %s" % flag))
    return fails[:1]


def run(ctx):
    out = Outcome()
    out.rule = ("0-3 inputs, <= 7 intervals (quick) over an 8-point line (touching, nested, chained, identical, disjoint), 1-3 chromosomes, 1-3 barcode pairs, both grouping modes, "
                "contig list absent / as data order / reversed, inputs sorted by the chosen order (and, separately, one input perturbed out of order); thorough: exhaustive assignment of "
                "every multiset of <= 4 intervals over a 5-point line x 2 chromosomes to <= 3 inputs; every configuration is run under each use of the iterator: "
                + "; ".join("%s = %s" % (m, MODE_TEXT[m]) for m in MODES) + "; non-trivial = at least one group with >= 2 records; distinct configurations")
    rng = ctx.rng("c11")
    configs = [gen_config(rng, 7) for _ in range(ctx.scale(700, 6000))]
    if ctx.tier == "thorough":
        ivs = [(s, e) for s in range(1, 6) for e in range(s, 6)]
        for n in (1, 2, 3, 4):
            for combo in itertools.combinations_with_replacement([(c, s, e) for c in ("1", "2") for (s, e) in ivs], n):
                if rng.random() < 0.08:
                    for assign in itertools.product(range(3), repeat=n):
                        if rng.random() < 0.15:
                            items = [("T1", "N1", c, s, e, a) for (c, s, e), a in zip(combo, assign)]
                            configs.append((3, None, rng.random() < 0.5, items))
        out.extra["small_scope"] = "sampled 8% x 15% of all multisets of <= 4 intervals over a 5-point line x 2 chromosomes assigned to 3 inputs"
    # "any number of inputs": none at all, and several that are all empty
    configs += [(0, None, False, []), (0, ["1"], True, []), (3, None, True, []), (2, ["2", "1"], False, [])]
    reqs, meta = [], []
    for (n_inputs, contigs, by_barcodes, items) in configs:
        inputs = build_inputs(n_inputs, contigs, by_barcodes, items)
        reqs.append(model_request(inputs, contigs, by_barcodes))
        meta.append((inputs, contigs, by_barcodes))
    mo = ctx.driver.run(reqs)
    for r, m, (inputs, contigs, by_barcodes) in zip(reqs, mo, meta):
        out.evaluations += 1
        where, groups, exc, failures = eval_sorted(inputs, contigs, by_barcodes)
        i = {"groups": groups} if exc is None else {"exc": exc}
        if has_unmodelled(m):
            out.unmodelled += 1
        elif m != i:
            out.disagreements.append({"op": "overlap.run", "request": {k: r[k] for k in ("by_barcodes", "contigs")},
                                      "inputs": where["inputs"], "model": m, "impl": i})
        out.failures += failures
        for mode in MODES:
            if mode_applies(mode, contigs):
                out.distribution["use:" + mode] += 1
        if exc:
            continue
        if any(sum(len(s) for s in g) >= 2 for g in groups):
            out.nontrivial.add(repr(where))
        out.distribution["groups"] += len(groups)
        if len(out.samples) < 3 and len(groups) >= 2 and len(inputs) >= 2:
            out.sample(dict(where, groups=groups))
    # out-of-order inputs are reported, not silently mis-grouped
    for _ in range(ctx.scale(150, 1500)):
        n_inputs, contigs, by_barcodes, items = gen_config(rng, 6)
        inputs = build_inputs(n_inputs, contigs, by_barcodes, items)
        cand = [k for k, inp in enumerate(inputs) if len(inp) >= 2]
        if not cand:
            continue
        k = rng.choice(cand)
        order = "BarcodesAndCoordinate" if by_barcodes else "Coordinate"
        a = rng.randrange(len(inputs[k]) - 1)
        if expected_cmp(loc_of(inputs[k][a]), loc_of(inputs[k][a + 1]), order, contigs or []) == 0:
            continue
        inputs[k][a], inputs[k][a + 1] = inputs[k][a + 1], inputs[k][a]
        out.evaluations += 1
        exc, failures = eval_disorder(inputs, contigs, by_barcodes)
        out.failures += failures
        out.distribution["disorder:" + str(exc)] += 1
    # the translated overlap predicates, interpreted, against the real class methods (the theorems of Props/C11Bodies
    # tie the interpreted bodies to the model's overlapsHead for every input)
    from .. import bodycases
    bodycases.overlaps_cases(ctx, out)
    bodycases.translation_report(ctx, out)
    for flag in ("-O", "-OO"):
        out.evaluations += 1
        out.failures += eval_optimised(flag)
        out.distribution["interpreter started with " + flag] += 1
        out.nontrivial.add(("optimised", flag))
    return out


_REPR = re.compile(r"^R(\d+)\((.*?)/(.*?) (\S+):(-?\d+)-(-?\d+)\)$")


def stored_recs(failure):
    """The raw inputs of a stored failure; files written before `recs` was stored carry only the printed form
    'R<rid>(<tumor>/<normal> <chrom>:<start>-<end>)', which is parsed back (None when that is not possible)."""
    if "recs" in failure:
        return [[tuple(x) for x in inp] for inp in failure["recs"]]
    try:
        recs = []
        for inp in failure["inputs"]:
            row = []
            for text in inp:
                m = _REPR.match(text)
                rid, t, n, c, s, e = m.groups()
                row.append((int(rid), t, n, c, int(s), int(e)))
            recs.append(row)
        return recs
    except (KeyError, AttributeError, TypeError, ValueError):
        return None


def replay_case(ctx, failure):
    """Re-evaluate the stored inputs on the current implementation; the failures they produce now ([] = property holds)."""
    if failure.get("kind") == "optimised-interpreter" and failure.get("flag") in ("-O", "-OO"):
        fails = eval_optimised(failure["flag"])
        print("replay C11: child interpreters (plain and %s) run LocatableOverlapIterator(by_barcodes=False) over %d small configurations of plain Locatable objects, %d of them with an out-of-order input" % (
            failure["flag"], len(OPT_CASES), sum(1 for c in OPT_CASES if not c[2])))
        for x in fails:
            print("  oracle: %s; contigs %s, inputs %s" % (x["what"], x.get("contigs"), x.get("inputs")))
        return fails
    recs = stored_recs(failure)
    if recs is None or "by_barcodes" not in failure:
        return None
    contigs, by_barcodes = failure.get("contigs"), failure["by_barcodes"]
    inputs = inputs_of(recs)
    print("replay C11: LocatableOverlapIterator over %d input(s), by_barcodes=%s, contigs=%s" % (len(inputs), by_barcodes, contigs))
    for k, inp in enumerate(inputs):
        print("  input %d: %s" % (k, " ".join(repr(x) for x in inp) or "(empty)"))
    mode = failure.get("mode", "stream")
    if mode not in MODES or not mode_applies(mode, contigs):
        return None
    print("  use: %s" % MODE_TEXT[mode])
    groups, exc = run_impl(inputs, contigs, by_barcodes, mode=mode)
    if failure.get("kind") == "unreported-disorder":
        _exc, failures = eval_disorder(inputs, contigs, by_barcodes, modes=[mode])
        print("  (one input is out of order: the iteration has to report it)")
        print("  implementation: %s" % ("raised %s" % exc if exc else "no error, groups (record ids per input) %s" % groups))
    else:
        where, _g, _e, failures = eval_sorted(inputs, contigs, by_barcodes, modes=[mode])
        print("  implementation: %s" % ("raised %s" % exc if exc else "groups (record ids per input) %s" % groups))
        print("  expected groups (connected components of the overlap graph): %s" % [sorted(c) for c in components(inputs, by_barcodes)])
        if getattr(ctx, "driver_ok", True) and ctx.driver.available():
            m = ctx.driver.run([model_request(inputs, contigs, by_barcodes)])[0]
            i = {"groups": groups} if exc is None else {"exc": exc}
            print("  model: %s (%s)" % (m, "outside the model" if has_unmodelled(m) else "same as the implementation" if m == i else "DIFFERS from the implementation"))
    for f in failures:
        print("  oracle: %s" % f["what"])
    return failures


def search(ctx):
    return run(ctx)

