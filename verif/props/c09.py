"""C09 - reading enforces the declared sort order exactly."""
from .. import impl, sortcases as SC
from ..common import exc_name, float_table, has_unmodelled
from ..runner import Outcome
from .c08 import expected_cmp

LEVEL = "proof"
ASSUMPTIONS = ["contig lists are consistent with the data (a chromosome missing from the list is C08's error case)"]
UNTYPED = ["Hugo_Symbol", "Chromosome", "Start_Position", "End_Position", "Tumor_Sample_Barcode", "Matched_Norm_Sample_Barcode"]


def gen_recs(rng, n, chroms):
    recs = []
    for _ in range(n):
        c = rng.choice(chroms)
        s = rng.choice([1, 5, 9, 10, 11, 50, 100, 1000])
        e = s + rng.choice([0, 0, 1, 10])
        recs.append({"tumor": rng.choice(SC.TUMORS if rng.random() < 0.4 else ["T1", "T1", "T2"]), "normal": rng.choice(SC.NORMALS if rng.random() < 0.4 else ["N1", "N1", "N2", ""]),
                     "chr": c, "start": s, "stop": e})
        if rng.random() < 0.15:
            recs[-1]["_spell"] = "+%d"      # (scheme-less files only) the position text is what int() reads: a sign is part of it
    return recs


def sort_recs(recs, order, contigs):
    import functools
    return sorted(recs, key=functools.cmp_to_key(lambda a, b: expected_cmp(norm(a), norm(b), order, contigs)))


def norm(r):
    return dict(r, normal=(r["normal"] or None) if r.get("_typed") else r["normal"])


def to_lines(recs, typed, rng):
    if typed:
        out = []
        for r in recs:
            rec = SC.typed_record(rng, r["tumor"], r["normal"] or None, r["chr"], r["start"], r["stop"])
            out.append(str(rec))
        return out
    return ["\t".join(["G", r["chr"], "n/a" if r.get("_unkeyable") else r.get("_spell", "%d") % r["start"], str(r["stop"]), r["tumor"], r["normal"]]) for r in recs]


def first_descent(recs, order, contigs):
    """Position of the first record smaller than the last record before it that has a key (a record whose position text
    is not a number has none: it is delivered, and neither follows nor breaks the order)."""
    last = None
    for i, r in enumerate(recs):
        if r.get("_unkeyable"):
            continue
        if last is not None and expected_cmp(norm(r), norm(last), order, contigs) < 0:
            return i
        last = r
    return None


READ_ROUTES = ["lines", "lines-nl", "path", "gz", "iterator"]
# contig lists declared by the files read so far in this process, in order of first use: a failure records them, so that a
# replay can read files with those lists first (state that the library carries from one reader to the next)
_EARLIER = []


def warm_up(earlier):
    """Read one small sorted file per earlier contig list (a record on every contig), as the run had done before the case."""
    for cs in earlier:
        lines = ["#version gdc-1.0.0", "#annotation.spec my-spec", "#sort.order Coordinate", "#contigs " + ",".join(cs), "\t".join(UNTYPED)]
        lines += ["\t".join(["G", c, "1", "1", "T1", "N1"]) for c in cs]
        impl.run({"op": "reader.run", "lines": lines, "mode": "Silent"})


def read_via(route, lines, mode, tmp):
    """Iterate the file through another of the library's ways of reading it: lines that keep their line ends, a path, a
    gzip path, or the enforcing iterator wrapped around the reader by hand.  Same shape as the reader.run answer, the
    records reduced to their text."""
    import gzip
    import hashlib
    import os
    from maflib.reader import MafReader
    from maflib.sort_order import SortOrderEnforcingIterator
    md = impl.MODES[mode]
    with impl.LogCapture():
        try:
            if route in ("path", "gz"):
                p = os.path.join(tmp, "f_%s.maf%s" % (hashlib.sha1("\n".join(lines).encode("utf-8")).hexdigest()[:16], ".gz" if route == "gz" else ""))
                with (gzip.open(p, "wt") if route == "gz" else open(p, "w")) as h:
                    h.write("".join(l + "\n" for l in lines))
                reader = MafReader.reader_from(p, validation_stringency=md)
            elif route == "lines-nl":
                reader = MafReader(lines=(l + "\n" for l in lines), validation_stringency=md)
            else:
                reader = MafReader(lines=list(lines), validation_stringency=md)
        except Exception as e:  # noqa
            return {"init_exc": exc_name(e)}
        out = {"records": [], "iter_exc": None}
        try:
            if route == "derived":
                # an output header is derived from the reader with ANOTHER contig ranking (MafHeader.from_reader(reader,
                # contigs=...)) before the reader is iterated: the file is still checked against its own declaration
                from maflib.header import MafHeader
                body = [l for l in lines if not l.startswith("#")]
                names = body[0].split("\t") if body else []
                k = names.index("Chromosome") if "Chromosome" in names else None
                seen = []
                for l in body[1:]:
                    f = l.split("\t")
                    if k is not None and k < len(f) and f[k] not in seen:
                        seen.append(f[k])
                own = reader.header().contigs() or []
                other = list(reversed(own)) if len(own) > 1 else list(reversed(sorted(seen))) or ["1"]
                try:
                    MafHeader.from_reader(reader, contigs=other)
                except Exception:  # noqa  (deriving may be refused; the reader is what is under test)
                    pass
            it = SortOrderEnforcingIterator(reader, reader.header().sort_order()) if route == "iterator" else reader
            if route.startswith("split"):
                # two-stage consumption of ONE iterator: k records taken with next(), the rest by a for loop over the same
                # iterator (a loop left with break and resumed, itertools.islice then list(...)): the order check spans both
                it = iter(reader)
                for _ in range(int(route[5:] or 0)):
                    try:
                        out["records"].append(str(next(it)))
                    except StopIteration:
                        break
            for rec in it:
                out["records"].append(str(rec))
        except Exception as e:  # noqa
            out["iter_exc"] = exc_name(e)
        finally:
            reader.close()
    return out


def first_stranger(recs, order, contigs):
    """Position of the first record whose chromosome the declared contig list does not name (None: all are named)."""
    if order not in ("Coordinate", "BarcodesAndCoordinate") or not contigs:
        return None
    return next((k for k, x in enumerate(recs) if str(x["chr"]) not in contigs), None)


def eval_file(r, recs, order, contigs, typed, route=None, tmp=None):
    """Read one file with the implementation and apply the oracle (shared by run and replay_case).

    `r` is the reader.run request, `recs` the records of its body in file order, `route` the way the file is opened
    (None: MafReader(lines=...)).  Returns (implementation's answer, where, failures, position of the first descent or None)."""
    i = impl.run(r) if route in (None, "lines") else read_via(route, r["lines"], r["mode"], tmp)
    where = {"lines": r["lines"], "mode": r["mode"], "order": order, "contigs": contigs, "typed": typed,
             "records": [[x["tumor"], x["normal"], x["chr"], x["start"], x["stop"]] for x in recs]}
    if route is not None:
        where["route"] = route
    if _EARLIER and contigs:
        where["earlier_contigs"] = [list(c) for c in _EARLIER if c != list(contigs)]
    if contigs and list(contigs) not in _EARLIER:
        _EARLIER.append(list(contigs))
    fails = []
    if "init_exc" in i:
        fails.append(dict(where, what="opening a well-formed file failed", kind="init", got=i["init_exc"]))
        return i, where, fails, None
    sortable = order in ("Coordinate", "BarcodesAndCoordinate")
    u = first_stranger(recs, order, contigs)
    if u is not None:
        # outside C09's own quantifier (the contig list does not cover the data); C08: the unlisted chromosome is reported
        # as an error instead of being ordered arbitrarily.  A descent before it is C09's case as usual.
        d = first_descent(recs[:u], order, contigs)
        if d is not None:
            if i["iter_exc"] != "ValueError" or len(i["records"]) != d:
                fails.append(dict(where, what="first descent at record %d: expected exactly %d records then the ordering error" % (d, d),
                                  kind="descent", got={"exc": i["iter_exc"], "yielded": len(i["records"])}))
        elif i["iter_exc"] != "ValueError" or len(i["records"]) > u:
            fails.append(dict(where, what="record %d is on a chromosome missing from the declared contig list: expected an error (ValueError) "
                                          "before that record is delivered" % u,
                              kind="contig-missing", got={"exc": i["iter_exc"], "yielded": len(i["records"])}))
        return i, where, fails, ("stranger", u) if d is None else d
    d = first_descent(recs, order, contigs) if sortable else None
    if d is None:
        if i["iter_exc"] is not None or len(i["records"]) != len(recs):
            fails.append(dict(where, what="a file in non-decreasing key order (or declaring no sortable order) was not read to the end",
                              kind="false-reject", got={"exc": i["iter_exc"], "yielded": len(i["records"])}))
    else:
        if i["iter_exc"] != "ValueError" or len(i["records"]) != d:
            fails.append(dict(where, what="first descent at record %d: expected exactly %d records then the ordering error" % (d, d),
                              kind="descent", got={"exc": i["iter_exc"], "yielded": len(i["records"])}))
    return i, where, fails, d


def model_differs(r, m, i):
    return {"op": "reader.run", "lines": r["lines"], "mode": r["mode"],
            "differs": [k for k in sorted(set(m) | set(i)) if m.get(k) != i.get(k)],
            "model": {"iter_exc": m.get("iter_exc"), "n": len(m.get("records", []))},
            "impl": {"iter_exc": i.get("iter_exc"), "n": len(i.get("records", []))}}



def gen_file(rng, strangers):
    """One generated file: (lines, mode, records in file order, order, contigs, typed, shape)."""
    typed = rng.random() < 0.5
    order = rng.choice(["Coordinate", "BarcodesAndCoordinate", "Coordinate", "BarcodesAndCoordinate", "Coordinate", "BarcodesAndCoordinate", "Unsorted", "Unknown", None])
    contigs = rng.choice([None, ["1", "2", "10", "X"], ["chr1", "chr2", "chr10"], ["10", "2", "X", "1"], ["2", "10", "1", "X"], SC.LONG, SC.LONG_CHR, ["0", "1", "2"], ["2", "0", "1"], ["1", "2", "10", "1"]])
    chroms = contigs or rng.choice([["1", "2", "10", "X"], ["chr1", "chr2", "chr10"], ["0", "1", "X"]])     # (a chromosome named 0 is the integer 0 under a typed scheme)
    recs = gen_recs(rng, rng.randrange(0, 7), chroms)
    # records that differ from another one in exactly one component of the key (every component in turn)
    for _k in range(rng.choice([0, 0, 1, 2]) if recs else 0):
        v = dict(rng.choice(recs))
        comp = rng.choice(["tumor", "normal", "chr", "start", "stop", "none"])
        if comp in ("tumor", "normal"):
            v[comp] = rng.choice([x for x in (SC.TUMORS if comp == "tumor" else SC.NORMALS) if x != v[comp]])
        elif comp == "chr":
            v["chr"] = rng.choice(chroms)
        elif comp == "start":
            v["start"] = rng.choice([x for x in (1, 9, 10, 100) if x <= v["stop"]] or [v["start"]])
        elif comp == "stop":
            v["stop"] = v["start"] + rng.choice([0, 1, 2, 10, 100])
        recs.append(v)
    for r in recs:
        r["_typed"] = typed
    shape = "as-is"
    if order in ("Coordinate", "BarcodesAndCoordinate"):
        recs = sort_recs(recs, order, contigs or [])
        shape = rng.choice(["sorted", "swap", "swap", "shuffle", "component-descent", "component-descent"] +
                           (["stranger", "stranger", "stranger+swap"] if strangers and contigs else []))
        if shape == "component-descent" and recs:
            # two adjacent records that differ in exactly one component of the key, the greater one first
            k = rng.randrange(len(recs))
            a = recs[k]
            b = dict(a)
            comp = rng.choice(["chr", "start", "stop"] + (["tumor", "normal", "tumor", "normal"] if order == "BarcodesAndCoordinate" else []))
            if comp in ("tumor", "normal"):
                b[comp] = rng.choice([x for x in (SC.TUMORS if comp == "tumor" else SC.NORMALS) if x != a[comp]])
            elif comp == "chr":
                b["chr"] = rng.choice([c for c in chroms if c != a["chr"]])
            elif comp == "start":
                b["start"], b["stop"] = a["start"] + rng.choice([1, 5, 1000]), max(a["stop"], a["start"] + 1000)
                a["stop"] = b["stop"]
            else:
                b["stop"] = a["stop"] + rng.choice([1, 9, 1000])
            hi, lo = (a, b) if expected_cmp(norm(a), norm(b), order, contigs or []) > 0 else (b, a)
            recs[k:k + 1] = [hi, lo]
        if "swap" in shape and len(recs) >= 2:
            i = rng.randrange(len(recs) - 1)
            j = rng.randrange(i + 1, len(recs))
            recs[i], recs[j] = recs[j], recs[i]
        elif shape == "shuffle":
            rng.shuffle(recs)
        if "stranger" in shape:
            c = rng.choice([c for c in ["3", "11", "Y", "chr3", "chrY", "GL000192.1", "chr1", "1"] if c not in contigs])
            s0 = rng.choice([1, 10, 100])
            recs.insert(rng.randrange(len(recs) + 1), {"tumor": rng.choice(["T1", "T2"]), "normal": rng.choice(["N1", ""]), "chr": c,
                                                       "start": s0, "stop": s0 + 1, "_typed": typed})
    if not typed and order in ("Coordinate", "BarcodesAndCoordinate") and recs and rng.random() < 0.35 and "stranger" not in shape:
        # a line without a key (position text that is not a number) anywhere, in particular right before a descent
        for _u in range(rng.choice([1, 1, 2])):
            k = rng.randrange(len(recs) + 1)
            recs.insert(k, dict(recs[min(k, len(recs) - 1)], _unkeyable=True))
        shape += "+unkeyable"
    header = SC.route_header_lines(order, contigs or [], typed, rng.random() < 0.5)
    if order in (None, "Unsorted", "Unknown") and rng.random() < 0.4:
        # a commented-out declaration (the key of such a pragma starts with '#'): it declares nothing
        header.insert(rng.randrange(len(header) + 1), rng.choice(["##sort.order Coordinate", "##sort.order BarcodesAndCoordinate", "##contigs X,2,1"]))
        rng.shuffle(recs)
        shape += "+commented-declaration"
    col = "\t".join(impl.scheme_by_annotation("gdc-1.0.0").column_names()) if typed else "\t".join(UNTYPED)
    lines = header + [col] + to_lines(recs, typed, rng)
    mode = rng.choice(["Strict", "Lenient", "Silent"]) if typed else rng.choice(["Lenient", "Silent"])
    return lines, mode, recs, order, contigs or [], typed, shape


def route_cases(ctx, out):
    """The same property through every way of opening a file (lines with or without line ends, a path, a gzip path, the
    enforcing iterator by hand), and files holding a record on a chromosome that the declared contig list does not name."""
    import tempfile
    rng = ctx.rng("c09-routes")
    cases = []
    for _ in range(ctx.scale(220, 2500)):
        lines, mode, recs, order, contigs, typed, shape = gen_file(rng, True)
        route = rng.choice(READ_ROUTES + ["split", "split", "derived", "derived"])
        if route == "split":
            try:
                d0 = first_descent(recs, order, contigs or []) if order in ("Coordinate", "BarcodesAndCoordinate") else None
            except ValueError:      # a record on a chromosome the contig list does not name
                d0 = None
            route = "split%d" % (d0 if (d0 is not None and rng.random() < 0.6) else rng.randrange(0, len(recs) + 2))
        cases.append((make_request(lines, mode), recs, order, contigs, typed, route, shape))
    mo = ctx.driver.run([c[0] for c in cases])
    with tempfile.TemporaryDirectory() as tmp:
        for (r, recs, order, contigs, typed, route, shape), m in zip(cases, mo):
            out.evaluations += 1
            i, where, fails, d = eval_file(r, recs, order, contigs, typed, route, tmp)
            out.failures += fails
            if has_unmodelled(m):
                out.unmodelled += 1
            elif route == "lines":
                if m != i:
                    out.disagreements.append(model_differs(r, m, i))
            elif (m.get("init_exc"), m.get("iter_exc"), len(m.get("records", []))) != (i.get("init_exc"), i.get("iter_exc"), len(i.get("records", []))):
                out.disagreements.append(dict(model_differs(r, m, i), route=route, differs=["records yielded / exception"]))
            if "init_exc" in i:
                continue
            out.distribution["route:" + ("split (k records by next(), the rest by a for loop)" if route.startswith("split") else route)] += 1
            out.distribution["shape:" + shape] += 1
            if isinstance(d, tuple):
                out.distribution["contig-missing"] += 1
            if order in ("Coordinate", "BarcodesAndCoordinate") and len(recs) >= 2:
                out.nontrivial.add(repr((r["lines"], route)))


def run(ctx):
    out = Outcome()
    del _EARLIER[:]
    out.rule = ("files declaring Coordinate / BarcodesAndCoordinate / Unsorted / Unknown / nothing, contig list absent / lexical / karyotypic, typed (gdc-1.0.0) and scheme-less bodies; "
                "record sequences sorted by the documented key then perturbed by one swap so that the first descent falls at every position; ties and repeated keys; "
                "non-trivial = sortable order with >= 2 records; distinct files")
    rng = ctx.rng("c09")
    reqs, meta = [], []
    for _ in range(ctx.scale(500, 6000)):
        typed = rng.random() < 0.5
        order = rng.choice(["Coordinate", "BarcodesAndCoordinate", "Coordinate", "BarcodesAndCoordinate", "Unsorted", "Unknown", None])
        contigs = rng.choice([None, ["1", "2", "10", "X"], ["chr1", "chr2", "chr10"], ["10", "2", "X", "1"], SC.LONG, SC.LONG_CHR])
        chroms = contigs or rng.choice([["1", "2", "10", "X"], ["chr1", "chr2", "chr10"], ["0", "1", "X"]])     # (a chromosome named 0 is the integer 0 under a typed scheme)
        n = rng.randrange(0, 7)
        recs = gen_recs(rng, n, chroms)
        for r in recs:
            r["_typed"] = typed
        if order in ("Coordinate", "BarcodesAndCoordinate"):
            recs = sort_recs(recs, order, contigs or [])
            k = rng.random()
            if k < 0.55 and len(recs) >= 2:
                i = rng.randrange(len(recs) - 1)
                j = rng.randrange(i + 1, len(recs))
                recs[i], recs[j] = recs[j], recs[i]
            elif k < 0.65:
                rng.shuffle(recs)
        header = ["#version gdc-1.0.0"] + ([] if typed else ["#annotation.spec my-spec"])
        if contigs and rng.random() < 0.5:
            header.append("#contigs " + ",".join(contigs))
        if order:
            header.append("#sort.order " + order)
        if contigs and not any(h.startswith("#contigs") for h in header):
            header.append("#contigs " + ",".join(contigs))
        col = "\t".join(impl.scheme_by_annotation("gdc-1.0.0").column_names()) if typed else "\t".join(UNTYPED)
        lines = header + [col] + to_lines(recs, typed, rng)
        mode = rng.choice(["Strict", "Lenient", "Silent"]) if typed else rng.choice(["Lenient", "Silent"])
        reqs.append(make_request(lines, mode))
        meta.append((recs, order, contigs or [], typed))
    mo = ctx.driver.run(reqs)
    for r, m, (recs, order, contigs, typed) in zip(reqs, mo, meta):
        out.evaluations += 1
        i, where, fails, d = eval_file(r, recs, order, contigs, typed)
        if has_unmodelled(m):
            out.unmodelled += 1
        elif m != i:
            out.disagreements.append(model_differs(r, m, i))
        out.failures += fails
        if "init_exc" in i:
            continue
        sortable = order in ("Coordinate", "BarcodesAndCoordinate")
        out.distribution["descent:%s" % ("none" if d is None else "at")] += 1
        if sortable and len(recs) >= 2:
            out.nontrivial.add(repr(r["lines"]))
        if len(out.samples) < 4 and d is not None:
            out.sample({"header": r["lines"][:4], "records": [[x["tumor"], x["normal"], x["chr"], x["start"], x["stop"]] for x in recs], "first_descent": d})
    out.rule += ("; the same files opened through MafReader(lines) with and without line ends, reader_from(path), reader_from(path.gz) and a hand-made "
                 "SortOrderEnforcingIterator; files with a record on a chromosome that the declared contig list does not name, at every position (error expected, C08)")
    route_cases(ctx, out)
    return out


def make_request(lines, mode):
    allf = [p for l in lines for p in l.split("\t")]
    return {"op": "reader.run", "lines": lines, "mode": mode, "floats": float_table(allf)}


def records_of(failure):
    """Body records of a stored file in file order: the stored "records", or (older files) read back from the lines."""
    typed = failure["typed"]
    if "records" in failure:
        rows = failure["records"]
    else:
        lines = failure["lines"]
        k = 0
        while k < len(lines) and lines[k].startswith("#"):
            k += 1
        names = lines[k].split("\t")
        ix = [names.index(n) for n in ("Tumor_Sample_Barcode", "Matched_Norm_Sample_Barcode", "Chromosome", "Start_Position", "End_Position")]
        rows = []
        for l in lines[k + 1:]:
            f = l.split("\t")
            rows.append([f[ix[0]], f[ix[1]], f[ix[2]], int(f[ix[3]]), int(f[ix[4]])])
    return [{"tumor": t, "normal": nn, "chr": c, "start": s, "stop": e, "_typed": typed} for t, nn, c, s, e in rows]


def replay_case(ctx, failure):
    """Re-evaluate the stored failing input on the current implementation; return the list of failure dicts it
    produces now (empty list = the property holds on that input)."""
    if any(k not in failure for k in ("lines", "mode", "typed")) or "order" not in failure:
        return None
    try:
        recs = records_of(failure)
    except (ValueError, IndexError, KeyError):
        return None
    lines, mode, order, contigs, typed = list(failure["lines"]), failure["mode"], failure["order"], list(failure.get("contigs") or []), failure["typed"]
    r = make_request(lines, mode)
    route = failure.get("route")
    k = next((j for j, l in enumerate(lines) if not l.startswith("#")), len(lines))
    print("file read with %s (%s, %s body):" % ({None: "MafReader", "lines": "MafReader(lines=...)", "lines-nl": "MafReader over lines that keep their line ends",
                                                 "path": "MafReader.reader_from(path)", "gz": "MafReader.reader_from(path.gz)",
                                                 "iterator": "SortOrderEnforcingIterator(reader, reader.header().sort_order())"}.get(route, route),
                                                mode, "gdc-1.0.0" if typed else "scheme-less"))
    for l in lines[:k]:
        print("    " + l)
    print("    <column line, %d columns>" % len(lines[k].split("\t")) if k < len(lines) else "    <no column line>")
    for x in recs:
        print("    record tumor=%r normal=%r chr=%r start=%r end=%r" % (x["tumor"], x["normal"], x["chr"], x["start"], x["stop"]))
    import tempfile
    del _EARLIER[:]
    if failure.get("earlier_contigs"):
        print("earlier in the same process: files declaring the contig lists %s were read" % failure["earlier_contigs"])
        warm_up(failure["earlier_contigs"])
    with tempfile.TemporaryDirectory() as tmp:
        i, where, fails, d = eval_file(r, recs, order, contigs, typed, route, tmp)
    if "init_exc" in i:
        print("implementation: opening failed with %s" % i["init_exc"])
    else:
        print("implementation: yielded %d of %d records, then %s" % (len(i["records"]), len(recs), i["iter_exc"] or "end of file"))
        if isinstance(d, tuple):
            print("documented: record %d is on a chromosome that the contig list %s does not name; an error (ValueError) expected before it is delivered" % (d[1], contigs))
        elif d is None:
            print("documented order: %s; all %d records expected" % ("no descent" if order in ("Coordinate", "BarcodesAndCoordinate") else "no sortable order declared", len(recs)))
        else:
            print("documented order: first descent at record %d; %d records then ValueError expected" % (d, d))
    try:
        m = ctx.driver.run([r])[0]
        if has_unmodelled(m):
            print("model: outside the model's domain")
        elif "init_exc" in m:
            print("model: opening fails with %s" % m["init_exc"])
        else:
            same = m == i if route in (None, "lines") else (m.get("iter_exc"), len(m.get("records", []))) == (i.get("iter_exc"), len(i.get("records", [])))
            print("model: yields %d records, then %s%s" % (len(m.get("records", [])), m.get("iter_exc") or "end of file",
                                                            "" if same else "   (differs from the implementation in %s)" % model_differs(r, m, i)["differs"]))
    except Exception as e:  # noqa
        print("model: not available (%s)" % str(e)[:200])
    for f in fails:
        print("oracle fails: %s" % f["what"])
    return fails


def search(ctx):
    return run(ctx)

