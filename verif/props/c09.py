"""C09 - reading enforces the declared sort order exactly."""
from .. import impl, sortcases as SC
from ..common import exc_name, float_table, has_unmodelled
from ..runner import Outcome
from .c08 import expected_cmp

LEVEL = "proof"
ASSUMPTIONS = ["contig lists are consistent with the data (a chromosome missing from the list is C08's error case)"]
UNTYPED = ["Hugo_Symbol", "Chromosome", "Start_Position", "End_Position", "Tumor_Sample_Barcode", "Matched_Norm_Sample_Barcode"]


def gen_recs(rng, n, chroms):
    recs = []
    for _ in range(n):
        c = rng.choice(chroms)
        s = rng.choice([1, 5, 9, 10, 11, 50, 100, 1000])
        e = s + rng.choice([0, 0, 1, 10])
        recs.append({"tumor": rng.choice(["T1", "T1", "T2"]), "normal": rng.choice(["N1", "N1", "N2", ""]),
                     "chr": c, "start": s, "stop": e})
    return recs


def sort_recs(recs, order, contigs):
    import functools
    return sorted(recs, key=functools.cmp_to_key(lambda a, b: expected_cmp(norm(a), norm(b), order, contigs)))


def norm(r):
    return dict(r, normal=(r["normal"] or None) if r.get("_typed") else r["normal"])


def to_lines(recs, typed, rng):
    if typed:
        out = []
        for r in recs:
            rec = SC.typed_record(rng, r["tumor"], r["normal"] or None, r["chr"], r["start"], r["stop"])
            out.append(str(rec))
        return out
    return ["\t".join(["G", r["chr"], str(r["start"]), str(r["stop"]), r["tumor"], r["normal"]]) for r in recs]


def first_descent(recs, order, contigs):
    for i in range(1, len(recs)):
        if expected_cmp(norm(recs[i]), norm(recs[i - 1]), order, contigs) < 0:
            return i
    return None


def eval_file(r, recs, order, contigs, typed):
    """Read one file with the implementation and apply the oracle (shared by run and replay_case).

    `r` is the reader.run request, `recs` the records of its body in file order.  Returns (implementation's answer,
    where, failures, position of the first descent or None)."""
    i = impl.run(r)
    where = {"lines": r["lines"], "mode": r["mode"], "order": order, "contigs": contigs, "typed": typed,
             "records": [[x["tumor"], x["normal"], x["chr"], x["start"], x["stop"]] for x in recs]}
    fails = []
    if "init_exc" in i:
        fails.append(dict(where, what="opening a well-formed file failed", kind="init", got=i["init_exc"]))
        return i, where, fails, None
    sortable = order in ("Coordinate", "BarcodesAndCoordinate")
    d = first_descent(recs, order, contigs) if sortable else None
    if d is None:
        if i["iter_exc"] is not None or len(i["records"]) != len(recs):
            fails.append(dict(where, what="a file in non-decreasing key order (or declaring no sortable order) was not read to the end",
                              kind="false-reject", got={"exc": i["iter_exc"], "yielded": len(i["records"])}))
    else:
        if i["iter_exc"] != "ValueError" or len(i["records"]) != d:
            fails.append(dict(where, what="first descent at record %d: expected exactly %d records then the ordering error" % (d, d),
                              kind="descent", got={"exc": i["iter_exc"], "yielded": len(i["records"])}))
    return i, where, fails, d


def model_differs(r, m, i):
    return {"op": "reader.run", "lines": r["lines"], "mode": r["mode"],
            "differs": [k for k in sorted(set(m) | set(i)) if m.get(k) != i.get(k)],
            "model": {"iter_exc": m.get("iter_exc"), "n": len(m.get("records", []))},
            "impl": {"iter_exc": i.get("iter_exc"), "n": len(i.get("records", []))}}


def run(ctx):
    out = Outcome()
    out.rule = ("files declaring Coordinate / BarcodesAndCoordinate / Unsorted / Unknown / nothing, contig list absent / lexical / karyotypic, typed (gdc-1.0.0) and scheme-less bodies; "
                "record sequences sorted by the documented key then perturbed by one swap so that the first descent falls at every position; ties and repeated keys; "
                "non-trivial = sortable order with >= 2 records; distinct files")
    rng = ctx.rng("c09")
    reqs, meta = [], []
    for _ in range(ctx.scale(500, 6000)):
        typed = rng.random() < 0.5
        order = rng.choice(["Coordinate", "BarcodesAndCoordinate", "Coordinate", "BarcodesAndCoordinate", "Unsorted", "Unknown", None])
        contigs = rng.choice([None, ["1", "2", "10", "X"], ["chr1", "chr2", "chr10"], ["10", "2", "X", "1"]])
        chroms = contigs or rng.choice([["1", "2", "10", "X"], ["chr1", "chr2", "chr10"]])
        n = rng.randrange(0, 7)
        recs = gen_recs(rng, n, chroms)
        for r in recs:
            r["_typed"] = typed
        if order in ("Coordinate", "BarcodesAndCoordinate"):
            recs = sort_recs(recs, order, contigs or [])
            k = rng.random()
            if k < 0.55 and len(recs) >= 2:
                i = rng.randrange(len(recs) - 1)
                j = rng.randrange(i + 1, len(recs))
                recs[i], recs[j] = recs[j], recs[i]
            elif k < 0.65:
                rng.shuffle(recs)
        header = ["#version gdc-1.0.0"] + ([] if typed else ["#annotation.spec my-spec"])
        if contigs and rng.random() < 0.5:
            header.append("#contigs " + ",".join(contigs))
        if order:
            header.append("#sort.order " + order)
        if contigs and not any(h.startswith("#contigs") for h in header):
            header.append("#contigs " + ",".join(contigs))
        col = "\t".join(impl.scheme_by_annotation("gdc-1.0.0").column_names()) if typed else "\t".join(UNTYPED)
        lines = header + [col] + to_lines(recs, typed, rng)
        mode = rng.choice(["Strict", "Lenient", "Silent"]) if typed else rng.choice(["Lenient", "Silent"])
        reqs.append(make_request(lines, mode))
        meta.append((recs, order, contigs or [], typed))
    mo = ctx.driver.run(reqs)
    for r, m, (recs, order, contigs, typed) in zip(reqs, mo, meta):
        out.evaluations += 1
        i, where, fails, d = eval_file(r, recs, order, contigs, typed)
        if has_unmodelled(m):
            out.unmodelled += 1
        elif m != i:
            out.disagreements.append(model_differs(r, m, i))
        out.failures += fails
        if "init_exc" in i:
            continue
        sortable = order in ("Coordinate", "BarcodesAndCoordinate")
        out.distribution["descent:%s" % ("none" if d is None else "at")] += 1
        if sortable and len(recs) >= 2:
            out.nontrivial.add(repr(r["lines"]))
        if len(out.samples) < 4 and d is not None:
            out.sample({"header": r["lines"][:4], "records": [[x["tumor"], x["normal"], x["chr"], x["start"], x["stop"]] for x in recs], "first_descent": d})
    return out


def make_request(lines, mode):
    allf = [p for l in lines for p in l.split("\t")]
    return {"op": "reader.run", "lines": lines, "mode": mode, "floats": float_table(allf)}


def records_of(failure):
    """Body records of a stored file in file order: the stored "records", or (older files) read back from the lines."""
    typed = failure["typed"]
    if "records" in failure:
        rows = failure["records"]
    else:
        lines = failure["lines"]
        k = 0
        while k < len(lines) and lines[k].startswith("#"):
            k += 1
        names = lines[k].split("\t")
        ix = [names.index(n) for n in ("Tumor_Sample_Barcode", "Matched_Norm_Sample_Barcode", "Chromosome", "Start_Position", "End_Position")]
        rows = []
        for l in lines[k + 1:]:
            f = l.split("\t")
            rows.append([f[ix[0]], f[ix[1]], f[ix[2]], int(f[ix[3]]), int(f[ix[4]])])
    return [{"tumor": t, "normal": nn, "chr": c, "start": s, "stop": e, "_typed": typed} for t, nn, c, s, e in rows]


def replay_case(ctx, failure):
    """Re-evaluate the stored failing input on the current implementation; return the list of failure dicts it
    produces now (empty list = the property holds on that input)."""
    if any(k not in failure for k in ("lines", "mode", "typed")) or "order" not in failure:
        return None
    try:
        recs = records_of(failure)
    except (ValueError, IndexError, KeyError):
        return None
    lines, mode, order, contigs, typed = list(failure["lines"]), failure["mode"], failure["order"], list(failure.get("contigs") or []), failure["typed"]
    r = make_request(lines, mode)
    k = next((j for j, l in enumerate(lines) if not l.startswith("#")), len(lines))
    print("file read with MafReader (%s, %s body):" % (mode, "gdc-1.0.0" if typed else "scheme-less"))
    for l in lines[:k]:
        print("    " + l)
    print("    <column line, %d columns>" % len(lines[k].split("\t")) if k < len(lines) else "    <no column line>")
    for x in recs:
        print("    record tumor=%r normal=%r chr=%r start=%r end=%r" % (x["tumor"], x["normal"], x["chr"], x["start"], x["stop"]))
    i, where, fails, d = eval_file(r, recs, order, contigs, typed)
    if "init_exc" in i:
        print("implementation: opening failed with %s" % i["init_exc"])
    else:
        print("implementation: yielded %d of %d records, then %s" % (len(i["records"]), len(recs), i["iter_exc"] or "end of file"))
        if d is None:
            print("documented order: %s; all %d records expected" % ("no descent" if order in ("Coordinate", "BarcodesAndCoordinate") else "no sortable order declared", len(recs)))
        else:
            print("documented order: first descent at record %d; %d records then ValueError expected" % (d, d))
    try:
        m = ctx.driver.run([r])[0]
        if has_unmodelled(m):
            print("model: outside the model's domain")
        elif "init_exc" in m:
            print("model: opening fails with %s" % m["init_exc"])
        else:
            print("model: yields %d records, then %s%s" % (len(m.get("records", [])), m.get("iter_exc") or "end of file",
                                                            "" if m == i else "   (differs from the implementation in %s)" % model_differs(r, m, i)["differs"]))
    except Exception as e:  # noqa
        print("model: not available (%s)" % str(e)[:200])
    for f in fails:
        print("oracle fails: %s" % f["what"])
    return fails


def search(ctx):
    return run(ctx)

