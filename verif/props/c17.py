"""C17 - reported line numbers point at the offending line."""
from .. import filecases, impl
from ..common import float_table, has_unmodelled
from ..runner import Outcome

LEVEL = "proof"
ASSUMPTIONS = ["HEADER_MISSING_COLUMN_NAMES refers to the line where the column names were expected: the line after the last header line"]


def expected_errors(lines):
    """Compositional spec of the error list of a Silent read: every line is diagnosed on its own and
    numbered by its physical position (1-based)."""
    from maflib.header import MafHeader, MafHeaderRecord
    from maflib.record import MafRecord
    from maflib.reader import MafReader
    from maflib.validation import ValidationStringency as VS
    stripped = [l.rstrip("\r\n") for l in lines]
    k = 0
    while k < len(stripped) and stripped[k].startswith("#"):
        k += 1
    exp = []
    seen = set()
    for n, l in enumerate(stripped[:k], start=1):
        rec, err = MafHeaderRecord.from_line(l, n)
        if err is not None:
            exp.append([err.tpe.name, n])
        elif rec.key in seen:
            exp.append(["HEADER_DUPLICATE_KEYS", n])
        else:
            seen.add(rec.key)
    # header-level errors carry no line number; take them from the header alone
    h = MafHeader.from_lines(stripped[:k], validation_stringency=VS.Silent)
    exp += [[e.tpe.name, None] for e in h.validation_errors if e.line_number is None]
    return exp, k, stripped


def request(lines):
    """The reader.run request (implementation and model) for one file, read in Silent mode."""
    allf = [p for l in lines for p in l.rstrip("\r\n").split("\t")]
    return {"op": "reader.run", "lines": lines, "mode": "Silent", "floats": float_table(allf)}


def oracle(lines, i):
    """The property on the implementation's answer `i` to a Silent read of `lines`: the failure dicts."""
    from maflib.record import MafRecord
    from maflib.validation import ValidationStringency as VS
    failures = []
    exp, k, stripped = expected_errors(lines)
    got = i["errors"]
    where = {"lines": lines}
    # 1. header part
    hgot = [e for e in got if e[0].startswith("HEADER_LINE") or e[0] in ("HEADER_DUPLICATE_KEYS", "HEADER_UNSUPPORTED_SORT_ORDER")]
    hexp = [e for e in exp if e[1] is not None]
    if hgot != hexp:
        failures.append(dict(where, what="header-line errors are not numbered by their physical line", kind="header-line",
                             expected=hexp, got=hgot))
    # 2. column-name line
    col_line = k + 1
    for e in got:
        if e[0] in ("SCHEME_MISMATCHING_NUMBER_OF_COLUMN_NAMES", "SCHEME_MISMATCHING_COLUMN_NAMES") and e[1] != col_line:
            failures.append(dict(where, what="column-name error reported at line %s, the column line is line %d" % (e[1], col_line),
                                 kind="column-line", got=e))
            break
        if e[0] == "HEADER_MISSING_COLUMN_NAMES" and e[1] != k + 1:
            failures.append(dict(where, what="missing-column-names error reported at line %s, expected %d" % (e[1], k + 1),
                                 kind="column-line", got=e))
            break
    # 3. data lines: errors of record j carry the physical number of its line
    sch = None
    if i.get("scheme"):
        from maflib.schemes import NoRestrictionsScheme
        a = i["scheme"]["annotation"]
        sch = impl.scheme_by_annotation(a) or NoRestrictionsScheme(column_names=i["scheme"]["names"])
    if i.get("iter_exc") is None and sch is not None:
        for j, recj in enumerate(i["records"]):
            phys = k + 2 + j
            bad = [e for e in recj["errors"] if e[1] is not None and e[1] != phys]
            if bad:
                failures.append(dict(where, what="error of the record on physical line %d is reported at line %s" % (phys, bad[0][1]),
                                     kind="data-line", got=bad[0]))
                break
            # the record's own diagnosis does not depend on where it stands
            alone = MafRecord.from_line(stripped[phys - 1], scheme=sch, line_number=phys, validation_stringency=VS.Silent)
            if [[e.tpe.name, e.line_number] for e in alone.validation_errors] != recj["errors"]:
                failures.append(dict(where, what="record errors differ from the diagnosis of the same line alone", kind="data-line",
                                     expected=[[e.tpe.name, e.line_number] for e in alone.validation_errors], got=recj["errors"]))
                break
    return failures


def eval_read(r, m):
    """One Silent read (shared by run and replay_case): executed on the implementation, compared with the model's answer `m`
    (None = model not consulted) and, unless constructing the reader raised, judged by the oracle.
    Returns (implementation answer, correspondence, failures or None); correspondence is None / "agree" / "unmodelled" /
    "dontcare" / a disagreement dict; failures is None when the reader could not be constructed (nothing to judge)."""
    lines = r["lines"]
    i = impl.run(r)
    corr = None
    if m is not None:
        corr = "agree"
        if has_unmodelled(m):
            corr = "unmodelled"
        elif m != i:
            from .. import colcases
            if any(colcases.dontcare_numeric(p) or colcases.dontcare_uuid(p) for l in lines for f in l.split("\t") for p in [f] + f.split(";")):
                corr = "dontcare"
            else:
                keys = [k for k in sorted(set(m) | set(i)) if m.get(k) != i.get(k)]
                corr = {"op": "reader.run", "lines": lines, "mode": "Silent", "differs": keys,
                        "model": {k: m.get(k) for k in keys if k != "records"}, "impl": {k: i.get(k) for k in keys if k != "records"}}
    if "init_exc" in i:
        return i, corr, None
    return i, corr, oracle(lines, i)


def run(ctx):
    out = Outcome()
    out.rule = ("file shapes with 0..5 header lines, column line present / absent / last, 0..4 data lines, defects injected at every kind of position "
                "(malformed pragma, duplicate, renamed column, wrong field count, invalid field); every reported line number is compared with the physical "
                "position of the text it is about; non-trivial = file with at least one numbered error; distinct files")
    rng = ctx.rng("files")
    reqs = []
    anns = [None, "gdc-1.0.0", "gdc-1.0.0-public"]
    for _ in range(ctx.scale(700, 8000)):
        ann = rng.choice(anns)
        hdr = None
        if rng.random() < 0.5:
            hdr = filecases.typical_header(rng, ann or "my-own-spec") + (filecases.header_lines(rng, rng.randrange(0, 3)) if rng.random() < 0.5 else [])
            rng.shuffle(hdr)
        lines = filecases.whole_file(rng, ann, header=hdr, col=rng.random() < 0.9, n_data=rng.choice([0, 0, 1, 2, 4]))
        reqs.append(request(lines))
    mo = ctx.driver.run(reqs)
    for r, m in zip(reqs, mo):
        out.evaluations += 1
        lines = r["lines"]
        i, corr, failures = eval_read(r, m)
        if corr == "unmodelled":
            out.unmodelled += 1
        elif corr == "dontcare":
            out.dontcare += 1
        elif isinstance(corr, dict):
            out.disagreements.append(corr)
        if failures is None:
            continue
        out.failures += failures
        got = i["errors"]
        if any(e[1] is not None for e in got):
            out.nontrivial.add(repr(lines))
        out.distribution["numbered_errors"] += sum(1 for e in got if e[1] is not None)
        if len(out.samples) < 4 and any(e[1] is not None for e in got):
            out.sample({"lines": [l[:60] for l in lines[:7]], "errors": got[:6]})
    return out


KINDS = ("header-line", "column-line", "data-line")


def replay_case(ctx, failure):
    """Re-evaluate the stored failing input on the current implementation; return the list of failure dicts it
    produces now (empty list = the property holds on that input)."""
    lines = failure.get("lines")
    if failure.get("kind") not in KINDS or not isinstance(lines, list):
        return None
    r = request(lines)
    m = None
    if ctx.driver.available():
        try:
            m = ctx.driver.run([r])[0]
        except Exception as e:  # noqa
            print("model: driver failed (%s)" % str(e)[:200])
    i, corr, failures = eval_read(r, m)
    print("executed: MafReader(lines=<%d lines>, validation_stringency=Silent), then iterated to the end" % len(lines))
    for n, l in enumerate(lines[:12], start=1):
        print("  line %d: %r" % (n, l[:100]))
    if "init_exc" in i:
        print("implementation: constructing the reader raised %s (nothing to judge)" % i["init_exc"])
    else:
        exp, k, _stripped = expected_errors(lines)
        print("  %d header line(s); the column line is expected on line %d; expected numbered header errors %s" % (k, k + 1, [e for e in exp if e[1] is not None]))
        print("implementation: reader errors %s" % i["errors"][:8])
        for j, recj in enumerate(i["records"][:6]):
            print("implementation: record on physical line %d has errors %s" % (k + 2 + j, recj["errors"][:4]))
        if i.get("iter_exc"):
            print("implementation: iteration raised %s" % i["iter_exc"])
    if m is not None:
        if corr == "unmodelled":
            print("model:          input outside the model's domain")
        else:
            print("model:          reader errors %s" % (m.get("errors", m.get("init_exc")) if isinstance(m, dict) else m))
            print("model vs implementation: %s" % (corr if isinstance(corr, str) else "differ in %s" % corr["differs"]))
    for g in failures or []:
        print("oracle: [%s] %s%s" % (g["kind"], g["what"], "; expected %s got %s" % (g["expected"], g["got"]) if "expected" in g else ""))
    if not failures:
        print("oracle: satisfied (every reported line number is the physical line of the text it is about)")
    return failures or []


def shrink(ctx, f):
    return f


def search(ctx):
    return run(ctx)

