"""C17 - reported line numbers point at the offending line."""
from .. import filecases, impl
from ..common import float_table, has_unmodelled
from ..runner import Outcome

LEVEL = "proof"
ASSUMPTIONS = ["HEADER_MISSING_COLUMN_NAMES refers to the line where the column names were expected: the line after the last header line",
               "the physical lines of a file on disk are ended by LF, CRLF or a lone CR (text mode, universal newlines); an empty line is a line",
               "Strict / Lenient: the line number carried by the format exception / printed in the warning is judged against the diagnosis of that very line "
               "(which error is raised first is not this property's subject)"]
PENDING_DEFECTS = []
MODES = ["Silent", "Lenient", "Strict"]


def expected_errors(lines):
    """Compositional spec of the error list of a Silent read: every line is diagnosed on its own and
    numbered by its physical position (1-based)."""
    from maflib.header import MafHeader, MafHeaderRecord
    from maflib.record import MafRecord
    from maflib.reader import MafReader
    from maflib.validation import ValidationStringency as VS
    stripped = [l.rstrip("\r\n") for l in lines]
    k = 0
    while k < len(stripped) and stripped[k].startswith("#"):
        k += 1
    exp = []
    seen = set()
    for n, l in enumerate(stripped[:k], start=1):
        rec, err = MafHeaderRecord.from_line(l, n)
        if err is not None:
            exp.append([err.tpe.name, n])
        elif rec.key in seen:
            exp.append(["HEADER_DUPLICATE_KEYS", n])
        else:
            seen.add(rec.key)
    # header-level errors carry no line number; take them from the header alone
    h = MafHeader.from_lines(stripped[:k], validation_stringency=VS.Silent)
    exp += [[e.tpe.name, None] for e in h.validation_errors if e.line_number is None]
    return exp, k, stripped


def request(lines, mode="Silent", via=None, consume=None, text=None, given=None, given_norestrict=None):
    """The reader.run request for one file.  It is what the model is asked (its "lines" are the lines the reader is
    given); the implementation is run on the same request through factory `via` (filecases.READER_VIAS; None = the plain
    MafReader(lines=<list>)), consumed in style `consume` (filecases.CONSUME_STYLES; None = a for loop).  For the path-based
    factories `text` is the text of the file and the lines are its physical lines."""
    if via in ("path", "gz"):
        lines = filecases.physical_lines(text)
    allf = [p for l in lines for p in l.rstrip("\r\n").split("\t")]
    r = {"op": "reader.run", "lines": lines, "mode": mode, "floats": float_table(allf)}
    if via is not None:
        r["via"], r["consume"] = via, consume or "for"
        if via in ("path", "gz"):
            r["text"] = text
    if given is not None:
        r["given"] = given
    if given_norestrict is not None:
        r["given_norestrict"] = given_norestrict
    return r


def how_of(r):
    """The part of a request beyond its lines (stored in failures, enough to rebuild the request)."""
    out = {k: r[k] for k in ("via", "consume", "text", "given", "given_norestrict") if k in r}
    if r.get("mode", "Silent") != "Silent":
        out["mode"] = r["mode"]
    return out


def run_impl(r):
    return filecases.reader_open(r) if "via" in r else impl.run(r)


def oracle(lines, i, how=None):
    """The property on the implementation's answer `i` to a Silent (or Lenient) read of `lines`: the failure dicts."""
    from maflib.record import MafRecord
    from maflib.validation import ValidationStringency as VS
    failures = []
    exp, k, stripped = expected_errors(lines)
    got = i["errors"]
    where = dict({"lines": lines}, **(how or {}))
    # 1. header part
    hgot = [e for e in got if e[0].startswith("HEADER_LINE") or e[0] in ("HEADER_DUPLICATE_KEYS", "HEADER_UNSUPPORTED_SORT_ORDER")]
    hexp = [e for e in exp if e[1] is not None]
    if hgot != hexp:
        failures.append(dict(where, what="header-line errors are not numbered by their physical line", kind="header-line",
                             expected=hexp, got=hgot))
    # 2. column-name line
    col_line = k + 1
    for e in got:
        if e[0] in ("SCHEME_MISMATCHING_NUMBER_OF_COLUMN_NAMES", "SCHEME_MISMATCHING_COLUMN_NAMES") and e[1] != col_line:
            failures.append(dict(where, what="column-name error reported at line %s, the column line is line %d" % (e[1], col_line),
                                 kind="column-line", got=e))
            break
        if e[0] == "HEADER_MISSING_COLUMN_NAMES" and e[1] != k + 1:
            failures.append(dict(where, what="missing-column-names error reported at line %s, expected %d" % (e[1], k + 1),
                                 kind="column-line", got=e))
            break
    # 3. data lines: errors of record j carry the physical number of its line
    sch = None
    if i.get("scheme"):
        from maflib.schemes import NoRestrictionsScheme
        a = i["scheme"]["annotation"]
        sch = impl.scheme_by_annotation(a) or NoRestrictionsScheme(column_names=i["scheme"]["names"])
    if i.get("iter_exc") is None and sch is not None:
        for j, recj in enumerate(i["records"]):
            phys = k + 2 + j
            if phys > len(stripped):
                break                      # more records than lines: not a line of the input (C16's subject)
            bad = [e for e in recj["errors"] if e[1] is not None and e[1] != phys]
            if bad:
                failures.append(dict(where, what="error of the record on physical line %d is reported at line %s" % (phys, bad[0][1]),
                                     kind="data-line", got=bad[0]))
                break
            # the record's own diagnosis does not depend on where it stands
            alone = MafRecord.from_line(stripped[phys - 1], scheme=sch, line_number=phys, validation_stringency=VS.Silent)
            if [[e.tpe.name, e.line_number] for e in alone.validation_errors] != recj["errors"]:
                failures.append(dict(where, what="record errors differ from the diagnosis of the same line alone", kind="data-line",
                                     expected=[[e.tpe.name, e.line_number] for e in alone.validation_errors], got=recj["errors"]))
                break
    return failures


HEADER_LINE_TYPES = ("HEADER_DUPLICATE_KEYS", "HEADER_UNSUPPORTED_SORT_ORDER")
COLUMN_LINE_TYPES = ("SCHEME_MISMATCHING_NUMBER_OF_COLUMN_NAMES", "SCHEME_MISMATCHING_COLUMN_NAMES", "HEADER_MISSING_COLUMN_NAMES")


def scheme_of_answer(i):
    from maflib.schemes import NoRestrictionsScheme
    if not i or not i.get("scheme"):
        return None
    return impl.scheme_by_annotation(i["scheme"]["annotation"]) or NoRestrictionsScheme(column_names=i["scheme"]["names"])


def misplaced(lines, sch, tpe, n):
    """An error of type `tpe` is reported (exception / warning) for line `n` of the file: None when line n is where the
    compositional diagnosis puts such an error (or the type is not about a line), else a text saying where it belongs."""
    from maflib.record import MafRecord
    from maflib.validation import ValidationStringency as VS
    if n is None:
        return None
    exp, k, stripped = expected_errors(lines)
    if tpe.startswith("HEADER_LINE") or tpe in HEADER_LINE_TYPES:
        at = [e[1] for e in exp if e[0] == tpe and e[1] is not None]
        return None if n in at else "header lines with that error: %s" % at
    if tpe in COLUMN_LINE_TYPES:
        return None if n == k + 1 else "the column line is line %d" % (k + 1)
    if tpe.startswith("RECORD_"):
        if not (k + 2 <= n <= len(stripped)):
            return "the data lines are lines %d..%d" % (k + 2, len(stripped))
        if sch is None:
            return None
        alone = MafRecord.from_line(stripped[n - 1], scheme=sch, line_number=n, validation_stringency=VS.Silent)
        if [tpe, n] in [[e.tpe.name, e.line_number] for e in alone.validation_errors]:
            return None
        return "line %d alone has the errors %s" % (n, [[e.tpe.name, e.line_number] for e in alone.validation_errors][:4])
    return None


def oracle_reported(lines, i, sch, how=None):
    """Strict / Lenient reads: the line number of the format exception, and of every logged warning, is the physical
    number of a line that the compositional diagnosis charges with that error."""
    where = dict({"lines": lines}, **(how or {}))
    failures = []
    for stage in ("init_exc", "iter_exc"):
        e = i.get(stage)
        if e and e.startswith("MafFormatException:"):
            _x, tpe, n = e.split(":")
            why = misplaced(lines, sch, tpe, None if n == "None" else int(n))
            if why:
                failures.append(dict(where, what="the format exception %s reports line %s: %s" % (tpe, n, why), kind="exception-line", got=[tpe, n]))
    for tpe, n in i.get("logs", []):
        why = misplaced(lines, sch, tpe, n)
        if why:
            failures.append(dict(where, what="the warning %s reports line %s: %s" % (tpe, n, why), kind="warning-line", got=[tpe, n]))
            break
    return failures


def eval_read(r, m):
    """One read (shared by run and replay_case): executed on the implementation, compared with the model's answer `m`
    (None = model not consulted) and, unless there is nothing to judge, judged by the oracle.
    Returns (implementation answer, correspondence, failures or None); correspondence is None / "agree" / "unmodelled" /
    "dontcare" / a disagreement dict; failures is None when a Silent reader could not be constructed (nothing to judge)."""
    lines, mode = r["lines"], r.get("mode", "Silent")
    i = run_impl(r)
    corr = None
    if m is not None:
        corr = "agree"
        if has_unmodelled(m):
            corr = "unmodelled"
        elif r.get("consume") in filecases.UNCHECKED_STYLES and m.get("iter_exc") == "ValueError":
            corr = "unmodelled"     # the model reads as a for loop does (order enforced); next(reader) bypasses the order check
        elif m != i:
            from .. import colcases
            if any(colcases.dontcare_numeric(p) or colcases.dontcare_uuid(p) for l in lines for f in l.rstrip("\r\n").split("\t") for p in [f] + f.split(";")):
                corr = "dontcare"
            else:
                keys = [k for k in sorted(set(m) | set(i)) if m.get(k) != i.get(k)]
                corr = {"op": "reader.run", "lines": lines, "mode": mode, "how": how_of(r), "differs": keys,
                        "model": {k: m.get(k) for k in keys if k != "records"}, "impl": {k: i.get(k) for k in keys if k != "records"}}
    how = how_of(r)
    if mode == "Silent":
        if "init_exc" in i:
            return i, corr, None
        return i, corr, oracle(lines, i, how)
    # Lenient / Strict: what is reported on the way (warnings, the exception), and the error list where there is one
    sch = scheme_of_answer(i)
    if sch is None:      # Strict reader not constructed: the scheme is the one a Silent reader of the same input settles on
        sch = scheme_of_answer(run_impl(dict(r, mode="Silent")))
    failures = oracle_reported(lines, i, sch, how)
    if "init_exc" not in i and not failures:
        failures = oracle(lines, i, how)
    return i, corr, failures


HEADER_VIAS = ["from_lines", "from_line_reader"]


def eval_header(hlines, via, mode="Silent"):
    """Header lines alone through a header factory (MafHeader.from_lines(<list>) / MafHeader.from_line_reader(<LineReader over
    the text>)): the numbered errors are numbered by physical line, in every mode (error list, warnings, exception)."""
    import io
    from maflib.header import MafHeader
    from maflib.util import LineReader
    where = {"lines": hlines, "via": "header." + via}
    if mode != "Silent":
        where["mode"] = mode
    exp = [e for e in expected_errors(hlines)[0] if e[1] is not None]
    info = {"expected": exp, "errors": None, "exc": None, "logs": []}
    failures = []
    with impl.LogCapture() as lc:
        try:
            if via == "from_lines":
                h = MafHeader.from_lines(list(hlines), validation_stringency=impl.MODES[mode])
            else:
                h = MafHeader.from_line_reader(LineReader(io.StringIO("".join(l + "\n" for l in hlines))), validation_stringency=impl.MODES[mode])
            info["errors"] = impl.errs_json(h.validation_errors)
        except Exception as e:  # noqa
            from ..common import exc_name
            info["exc"] = exc_name(e)
    info["logs"] = lc.parsed()
    if info["errors"] is not None:
        got = [e for e in info["errors"] if e[1] is not None]
        if got != exp:
            failures.append(dict(where, what="header-line errors are not numbered by their physical line", kind="header-line", expected=exp, got=got))
    elif info["exc"].startswith("MafFormatException:"):
        _x, tpe, n = info["exc"].split(":")
        if n != "None" and [tpe, int(n)] not in exp:
            failures.append(dict(where, what="the format exception %s reports line %s; header lines with that error: %s" % (tpe, n, [e[1] for e in exp if e[0] == tpe]),
                                 kind="exception-line", got=[tpe, n]))
    for tpe, n in info["logs"]:
        if n is not None and [tpe, n] not in exp and not failures:
            failures.append(dict(where, what="the warning %s reports line %s; header lines with that error: %s" % (tpe, n, [e[1] for e in exp if e[0] == tpe]),
                                 kind="warning-line", got=[tpe, n]))
    return info, failures


def gen_shape(rng, anns):
    """A file shape of the main family (0..k header lines, column line present / absent / last, 0..4 data lines, defects injected),
    more often with a long header in which malformed and repeated pragmas precede well-formed ones."""
    ann = rng.choice(anns)
    hdr = None
    k = rng.random()
    if k < 0.35:
        hdr = filecases.typical_header(rng, ann or "my-own-spec") + (filecases.header_lines(rng, rng.randrange(0, 3)) if rng.random() < 0.5 else [])
        rng.shuffle(hdr)
    elif k < 0.65:
        hdr = filecases.typical_header(rng, ann or "my-own-spec") + filecases.header_lines(rng, rng.randrange(2, 7))
        hdr += [rng.choice(hdr) for _ in range(rng.randrange(0, 3))]
        rng.shuffle(hdr)
    return filecases.whole_file(rng, ann, header=hdr, col=rng.random() < 0.9, n_data=rng.choice([0, 0, 1, 2, 4]))


def run(ctx):
    out = Outcome()
    out.rule = ("file shapes with 0..5 header lines, column line present / absent / last, 0..4 data lines, defects injected at every kind of position "
                "(malformed pragma, duplicate, renamed column, wrong field count, invalid field); every reported line number is compared with the physical "
                "position of the text it is about; non-trivial = file with at least one numbered error; distinct files")
    out.rule += ("; the same shapes with empty lines anywhere, LF / CRLF / lone CR / mixed terminators, last line unterminated, read through every reader factory "
                 "(MafReader(lines=<list>), (lines=<iterator>), reader_from(<plain file>), reader_from(<.gz file>)) x consumption style (for / iter()+next() / next(reader)) x "
                 "Silent / Lenient / Strict: error lists, logged warnings and the format exception all carry physical line numbers; header lines alone (long, malformed and "
                 "repeated pragmas) through MafHeader.from_lines and MafHeader.from_line_reader in the three modes")
    rng = ctx.rng("files")
    reqs = []
    anns = [None, "gdc-1.0.0", "gdc-1.0.0-public"]
    for _ in range(ctx.scale(700, 8000)):
        ann = rng.choice(anns)
        hdr = None
        if rng.random() < 0.5:
            hdr = filecases.typical_header(rng, ann or "my-own-spec") + (filecases.header_lines(rng, rng.randrange(0, 3)) if rng.random() < 0.5 else [])
            rng.shuffle(hdr)
        lines = filecases.whole_file(rng, ann, header=hdr, col=rng.random() < 0.9, n_data=rng.choice([0, 0, 1, 2, 4]))
        reqs.append(request(lines))
    # every factory / consumption style / mode, files with empty lines and every terminator (own stream: the cases above are unchanged)
    rng = ctx.rng("factories")
    for _ in range(ctx.scale(300, 4000)):
        lines = gen_shape(rng, anns)
        if rng.random() < 0.7:
            lines = filecases.with_empty_lines(rng, lines, rng.choice([0.2, 0.5]))
        via = rng.choice(filecases.READER_VIAS)
        kw = {"via": via, "consume": rng.choice(["for", "for", "iter", "next", "method", "iter-method"])}
        if via in ("path", "gz"):
            kw["text"] = filecases.text_of(rng, lines)
            if not filecases.encodable(kw["text"]):
                continue
        if rng.random() < 0.1:
            kw["given"] = rng.choice(anns[1:])
        reqs.append(request(lines, rng.choice(["Silent", "Silent", "Lenient", "Strict"]), **kw))
    # header lines alone, through the header's own factories
    rng = ctx.rng("header-factories")
    for _ in range(ctx.scale(150, 2000)):
        hlines = filecases.typical_header(rng, rng.choice(anns) or "my-own-spec") + filecases.header_lines(rng, rng.randrange(1, 7))
        hlines += [rng.choice(hlines) for _ in range(rng.randrange(0, 3))]
        rng.shuffle(hlines)
        via, mode = rng.choice(HEADER_VIAS), rng.choice(["Silent", "Silent", "Lenient", "Strict"])
        out.evaluations += 1
        info, failures = eval_header(hlines, via, mode)
        out.failures += failures
        out.distribution["via:header." + via] += 1
        if info["expected"]:
            out.nontrivial.add(repr((hlines, via, mode)))
    mo = ctx.driver.run(reqs)
    for r, m in zip(reqs, mo):
        out.evaluations += 1
        lines = r["lines"]
        i, corr, failures = eval_read(r, m)
        if corr == "unmodelled":
            out.unmodelled += 1
        elif corr == "dontcare":
            out.dontcare += 1
        elif isinstance(corr, dict):
            out.disagreements.append(corr)
        for tag in ("via:" + r.get("via", "list"), "style:" + r.get("consume", "for"), "mode:" + r["mode"]):
            out.distribution[tag] += 1
        if failures is None:
            continue
        out.failures += failures
        if "errors" not in i:       # Strict reader not constructed: the exception's line was judged
            if i["init_exc"].startswith("MafFormatException:") and not i["init_exc"].endswith(":None"):
                out.nontrivial.add(repr((lines, sorted(how_of(r).items()))))
            continue
        got = i["errors"]
        if any(e[1] is not None for e in got):
            out.nontrivial.add(repr((lines, sorted(how_of(r).items()))) if "via" in r else repr(lines))
        out.distribution["numbered_errors"] += sum(1 for e in got if e[1] is not None)
        if len(out.samples) < 4 and any(e[1] is not None for e in got):
            out.sample({"lines": [l[:60] for l in lines[:7]], "errors": got[:6]})
    return out


KINDS = ("header-line", "column-line", "data-line", "exception-line", "warning-line")


INPUT_KEYS = ("lines", "mode", "via", "consume", "text", "given", "given_norestrict")


def replay_case(ctx, failure):
    """Re-evaluate the stored failing input on the current implementation; return the list of failure dicts it
    produces now (empty list = the property holds on that input)."""
    lines = failure.get("lines")
    if failure.get("kind") not in KINDS or not isinstance(lines, list):
        return None
    how = how_of(failure)
    mode = how.pop("mode", "Silent")
    if str(how.get("via", "")).startswith("header."):
        via = how["via"][len("header."):]
        if via not in HEADER_VIAS or mode not in MODES:
            return None
        print("executed: MafHeader.%s(<%d header lines>, validation_stringency=%s)" % (via, len(lines), mode))
        for n, l in enumerate(lines[:14], start=1):
            print("  line %d: %r" % (n, l[:100]))
        info, failures = eval_header(lines, via, mode)
        print("  expected numbered errors %s" % info["expected"])
        print("implementation: %s" % ("raised %s" % info["exc"] if info["exc"] else "errors %s" % info["errors"][:10]))
        if mode == "Lenient":
            print("implementation: warnings logged %s" % [e for e in info["logs"] if e[1] is not None][:10])
        for g in failures:
            print("oracle: [%s] %s" % (g["kind"], g["what"]))
        if not failures:
            print("oracle: satisfied")
            failures = filecases.rerun_in_fresh_process("C17", failure, INPUT_KEYS)
        return failures
    if mode not in MODES or (how.get("via") in ("path", "gz") and not isinstance(how.get("text"), str)):
        return None
    r = request(lines, mode, **how)
    lines = r["lines"]
    m = None
    if ctx.driver.available():
        try:
            m = ctx.driver.run([r])[0]
        except Exception as e:  # noqa
            print("model: driver failed (%s)" % str(e)[:200])
    i, corr, failures = eval_read(r, m)
    via, style = how.get("via", "list"), how.get("consume", "for")
    opened = {"list": "MafReader(lines=<list of %d lines>" % len(lines), "iter": "MafReader(lines=<iterator over %d lines>" % len(lines),
              "path": "MafReader.reader_from(<plain file of %d characters, %d physical lines>" % (len(how.get("text", "")), len(lines)),
              "gz": "MafReader.reader_from(<.gz file of %d characters, %d physical lines>" % (len(how.get("text", "")), len(lines))}[via]
    print("executed: %s, validation_stringency=%s%s), then consumed to the end with %s" % (
        opened, mode, ", scheme=<%s>" % how["given"] if "given" in how else "",
        filecases.STYLE_TEXT[style]))
    if "text" in how:
        print("  file text: %r" % how["text"][:300])
    for n, l in enumerate(lines[:12], start=1):
        print("  line %d: %r" % (n, l[:100]))
    if "init_exc" in i:
        print("implementation: constructing the reader raised %s%s" % (i["init_exc"], " (nothing to judge)" if mode == "Silent" else ""))
    else:
        exp, k, _stripped = expected_errors(lines)
        print("  %d header line(s); the column line is expected on line %d; expected numbered header errors %s" % (k, k + 1, [e for e in exp if e[1] is not None]))
        print("implementation: reader errors %s" % i["errors"][:8])
        for j, recj in enumerate(i["records"][:6]):
            print("implementation: record on physical line %d has errors %s" % (k + 2 + j, recj["errors"][:4]))
        if i.get("iter_exc"):
            print("implementation: iteration raised %s" % i["iter_exc"])
        if mode == "Lenient":
            print("implementation: warnings logged %s" % [e for e in i.get("logs", []) if e[1] is not None][:8])
    if m is not None:
        if corr == "unmodelled":
            print("model:          input outside the model's domain")
        else:
            print("model:          reader errors %s" % (m.get("errors", m.get("init_exc")) if isinstance(m, dict) else m))
            print("model vs implementation: %s" % (corr if isinstance(corr, str) else "differ in %s" % corr["differs"]))
    for g in failures or []:
        print("oracle: [%s] %s%s" % (g["kind"], g["what"], "; expected %s got %s" % (g["expected"], g["got"]) if "expected" in g else ""))
    if not failures:
        print("oracle: satisfied (every reported line number is the physical line of the text it is about)")
        print("the stored input alone satisfies the property; the failure may depend on what the process did before it (state kept between calls):")
        failures = filecases.rerun_in_fresh_process("C17", failure, INPUT_KEYS)
        for g in failures[:1]:
            print("oracle (in the re-run): %s" % g["what"])
    return failures


def shrink(ctx, f):
    return f


def search(ctx):
    return run(ctx)

