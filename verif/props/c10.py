"""C10 - a sorting writer's output obeys the order and contigs its own header declares."""
import itertools

from .. import impl, sortcases as SC
from ..common import exc_name, float_table, has_unmodelled
from ..runner import Outcome
from .c08 import expected_cmp
from .c09 import UNTYPED

LEVEL = "proof"
ASSUMPTIONS = ["record multisets are smaller than the writer's in-memory capacity (10000): a single sorted run; the multi-run merge is C07's subject"]


def body_lines(text):
    lines = text.split("\n")
    if lines and lines[-1] == "":
        lines.pop()
    k = 0
    while k < len(lines) and lines[k].startswith("#"):
        k += 1
    return lines[:k], (lines[k] if k < len(lines) else None), lines[k + 1:]


def run(ctx):
    out = Outcome()
    out.rule = ("headers with both sortable orders, contig list absent / lexical / karyotypic (chr1,chr2,...,chr10) / reversed, typed (gdc-1.0.0) and scheme-less records; "
                "every permutation of small multisets (n <= 4, thorough n <= 5) plus random orders of larger ones; sorting on and off; the produced file is re-read by the library's reader; "
                "non-trivial = sorting on with >= 2 records; distinct (header, record order)")
    rng = ctx.rng("c10")
    contig_sets = [None, ["chr1", "chr10", "chr2", "chrX"], ["chr1", "chr2", "chr10", "chrX"], ["chrX", "chr10", "chr2", "chr1"]]
    reqs, meta = [], []
    for _ in range(ctx.scale(60, 500)):
        typed = rng.random() < 0.5
        order = rng.choice(["Coordinate", "BarcodesAndCoordinate"])
        contigs = rng.choice(contig_sets)
        sort = rng.random() < 0.8
        n = rng.choice([0, 1, 2, 3, 3, 4] + ([5] if ctx.tier == "thorough" else []))
        chroms = contigs or ["chr1", "chr2", "chr10", "chrX"]
        specs = [(rng.choice(["T1", "T2"]), rng.choice(["N1", "N2", ""]), rng.choice(chroms), rng.choice([5, 9, 10, 100]), rng.choice([0, 1, 7]))
                 for _ in range(n)]
        perms = list(itertools.permutations(range(n))) if n <= (5 if ctx.tier == "thorough" else 4) else []
        rng.shuffle(perms)
        for perm in perms[:ctx.scale(6, 120)] or [tuple(range(n))]:
            header = ["#version gdc-1.0.0"] + ([] if typed else ["#annotation.spec my-spec"])
            if contigs and rng.random() < 0.5:
                header.append("#contigs " + ",".join(contigs))
            header.append("#sort.order " + order)
            if contigs and not any(h.startswith("#contigs") for h in header):
                header.append("#contigs " + ",".join(contigs))
            ops = []
            texts = []
            for k in perm:
                t, nn, c, s, d = specs[k]
                if typed:
                    line = str(SC.typed_record(rng, t, nn or None, c, s, s + d))
                    ops.append({"k": "write", "rec": {"parse": {"line": line, "scheme": "gdc-1.0.0"}}})
                else:
                    line = "\t".join(["G", c, str(s), str(s + d), t, nn])
                    ops.append({"k": "write", "rec": {"parse": {"line": line, "names": UNTYPED}}})
                texts += line.split("\t")
            ops.append({"k": "close"})
            mode = "Strict" if typed else "Silent"
            reqs.append({"op": "writer.run", "header_lines": header, "mode": mode, "assume_sorted": not sort, "ops": ops,
                         "floats": float_table(texts)})
            meta.append(([specs[k] for k in perm], order, contigs or [], typed, sort))
    big_file_case(ctx, out, rng)
    mo = ctx.driver.run(reqs)
    for r, m, (specs, order, contigs, typed, sort) in zip(reqs, mo, meta):
        out.evaluations += 1
        i = impl.run(r)
        if has_unmodelled(m):
            out.unmodelled += 1
        elif m != i:
            k = next((j for j, (a, b) in enumerate(zip(m.get("steps", []), i.get("steps", []))) if a != b), None)
            out.disagreements.append({"op": "writer.run", "header": r["header_lines"], "assume_sorted": r["assume_sorted"],
                                      "records": specs, "step": k,
                                      "model": None if k is None else {"exc": m["steps"][k]["exc"], "lines": m["steps"][k]["out"].split("\n")[-6:]},
                                      "impl": None if k is None else {"exc": i["steps"][k]["exc"], "lines": i["steps"][k]["out"].split("\n")[-6:]}})
        where = {"header": r["header_lines"], "records": specs, "sorting": sort, "typed": typed}
        if "init_exc" in i or any(s["exc"] for s in i["steps"]):
            out.failures.append(dict(where, what="writing well-formed records failed", kind="write-failed",
                                     got=i.get("init_exc") or [s["exc"] for s in i["steps"]]))
            continue
        text = i["steps"][-1]["out"]
        hdr, col, body = body_lines(text)
        if hdr != r["header_lines"] or (col is None and (typed or specs)):
            out.failures.append(dict(where, what="the file does not start with the header and the column line", kind="header"))
            continue
        wrote = [ln for ln in (o["rec"]["parse"]["line"] for o in r["ops"] if o["k"] == "write")]
        if sorted(body) != sorted(wrote):
            out.failures.append(dict(where, what="the file does not hold every record exactly once", kind="not-permutation",
                                     wrote=len(wrote), found=len(body)))
            continue
        if not sort:
            if body != wrote:
                out.failures.append(dict(where, what="with sorting off the records are not in the order they were written", kind="order-changed"))
        else:
            locs = [{"tumor": f[4] if not typed else None, "normal": f[5] if not typed else None, "chr": f[1], "start": f[2], "stop": f[3]} for f in (b.split("\t") for b in body)] if not typed else None
            if typed:
                names = impl.scheme_by_annotation("gdc-1.0.0").column_names()
                ix = {n: names.index(n) for n in ("Tumor_Sample_Barcode", "Matched_Norm_Sample_Barcode", "Chromosome", "Start_Position", "End_Position")}
                locs = []
                for b in body:
                    f = b.split("\t")
                    locs.append({"tumor": f[ix["Tumor_Sample_Barcode"]], "normal": f[ix["Matched_Norm_Sample_Barcode"]] or None,
                                 "chr": f[ix["Chromosome"]], "start": f[ix["Start_Position"]], "stop": f[ix["End_Position"]]})
            bad = [j for j in range(len(locs) - 1) if expected_cmp(locs[j], locs[j + 1], order, contigs) > 0]
            if bad:
                out.failures.append(dict(where, what="the file is not in the order declared by its own sort.order / contigs pragmas",
                                         kind="not-sorted", at=bad[0], body=[b.split("\t")[:6] for b in body][:6] if not typed else locs[:6]))
        # the library's own reader iterates the file to the end
        rd = impl.run({"op": "reader.run", "lines": text.split("\n")[:-1] if text.endswith("\n") else text.split("\n"), "mode": r["mode"]})
        if sort and (rd.get("init_exc") or rd.get("iter_exc") or len(rd.get("records", [])) != len(wrote)):
            out.failures.append(dict(where, what="the library's reader does not iterate the produced file to the end", kind="own-reader-rejects",
                                     got=rd.get("init_exc") or rd.get("iter_exc") or len(rd.get("records", []))))
        if sort and len(specs) >= 2:
            out.nontrivial.add(repr((r["header_lines"], specs)))
        if len(out.samples) < 3 and sort and len(specs) >= 3:
            out.sample({"header": r["header_lines"], "records_in": specs, "body_out": [b.split("\t")[:6] for b in body][:5] if not typed else "typed"})
    return out


def big_file_case(ctx, out, rng):
    """More records than the writer keeps in memory (10000): several spilled runs with interleaving key ranges are merged at close()."""
    from maflib.header import MafHeader
    from maflib.record import MafRecord
    from maflib.validation import ValidationStringency as VS
    from maflib.writer import MafWriter
    n = 20000 + rng.randrange(600, 5000)
    header = ["#version gdc-1.0.0", "#annotation.spec lab", "#sort.order Coordinate"]
    buf = impl.RecordingHandle()
    w = MafWriter.from_fd(buf, MafHeader.from_lines(header, validation_stringency=VS.Silent), validation_stringency=VS.Silent, assume_sorted=False)
    starts = list(range(n))
    # a deterministic interleaving: consecutive records fall into different residue classes, so the runs overlap
    starts.sort(key=lambda s: ((s * 7919) % 10007, s))
    out.evaluations += 1
    for s0 in starts:
        w += MafRecord.from_line("G\tchr1\t%d\t%d" % (s0, s0), column_names=["Hugo_Symbol", "Chromosome", "Start_Position", "End_Position"],
                                 validation_stringency=VS.Silent)
    w.close()
    body = [l for l in buf.text().split("\n")[4:] if l]
    got = [int(l.split("\t")[2]) for l in body]
    if sorted(got) != list(range(n)):
        out.failures.append({"what": "a %d-record sorting write lost or duplicated records" % n, "kind": "not-permutation", "n": n})
    elif got != sorted(got):
        k = next(i for i in range(len(got) - 1) if got[i] > got[i + 1])
        out.failures.append({"what": "a %d-record sorting write (3+ spilled runs) is out of order at body line %d" % (n, k + 1), "kind": "not-sorted",
                             "n": n, "around": got[k - 1:k + 3]})
    out.nontrivial.add(("big", n))
    out.distribution["big_file_records"] += n


def search(ctx):
    return run(ctx)

