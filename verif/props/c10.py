"""C10 - a sorting writer's output obeys the order and contigs its own header declares."""
import itertools

from .. import impl, sortcases as SC
from ..common import exc_name, float_table, has_unmodelled
from ..runner import Outcome
from .c08 import expected_cmp
from .c09 import UNTYPED

LEVEL = "proof"
ASSUMPTIONS = ["record multisets are smaller than the writer's in-memory capacity (10000): a single sorted run; the multi-run merge is C07's subject"]


def body_lines(text):
    lines = text.split("\n")
    if lines and lines[-1] == "":
        lines.pop()
    k = 0
    while k < len(lines) and lines[k].startswith("#"):
        k += 1
    return lines[:k], (lines[k] if k < len(lines) else None), lines[k + 1:]


def make_request(header, specs, typed, sort):
    """The writer.run request that offers `specs` (tumor, normal, chromosome, start, length), in that order."""
    ops = []
    texts = []
    for t, nn, c, s, d in specs:
        if typed:
            line = str(SC.typed_record(None, t, nn or None, c, s, s + d))
            ops.append({"k": "write", "rec": {"parse": {"line": line, "scheme": "gdc-1.0.0"}}})
        else:
            line = "\t".join(["G", c, str(s), str(s + d), t, nn])
            ops.append({"k": "write", "rec": {"parse": {"line": line, "names": UNTYPED}}})
        texts += line.split("\t")
    ops.append({"k": "close"})
    mode = "Strict" if typed else "Silent"
    return {"op": "writer.run", "header_lines": header, "mode": mode, "assume_sorted": not sort, "ops": ops,
            "floats": float_table(texts)}


def eval_write(r, specs, order, contigs, typed, sort):
    """Run one writer session on the implementation and apply the oracle (shared by run and replay_case).

    Returns (implementation's answer, where, failures, body lines or None when the oracle stopped early)."""
    i = impl.run(r)
    where = {"header": r["header_lines"], "records": [list(sp) for sp in specs], "sorting": sort, "typed": typed,
             "order": order, "contigs": contigs}
    fails = []
    if "init_exc" in i or any(s["exc"] for s in i["steps"]):
        fails.append(dict(where, what="writing well-formed records failed", kind="write-failed",
                          got=i.get("init_exc") or [s["exc"] for s in i["steps"]]))
        return i, where, fails, None
    text = i["steps"][-1]["out"]
    hdr, col, body = body_lines(text)
    if hdr != r["header_lines"] or (col is None and (typed or specs)):
        fails.append(dict(where, what="the file does not start with the header and the column line", kind="header"))
        return i, where, fails, None
    wrote = [ln for ln in (o["rec"]["parse"]["line"] for o in r["ops"] if o["k"] == "write")]
    if sorted(body) != sorted(wrote):
        fails.append(dict(where, what="the file does not hold every record exactly once", kind="not-permutation",
                          wrote=len(wrote), found=len(body)))
        return i, where, fails, None
    if not sort:
        if body != wrote:
            fails.append(dict(where, what="with sorting off the records are not in the order they were written", kind="order-changed"))
    else:
        locs = [{"tumor": f[4] if not typed else None, "normal": f[5] if not typed else None, "chr": f[1], "start": f[2], "stop": f[3]} for f in (b.split("\t") for b in body)] if not typed else None
        if typed:
            names = impl.scheme_by_annotation("gdc-1.0.0").column_names()
            ix = {n: names.index(n) for n in ("Tumor_Sample_Barcode", "Matched_Norm_Sample_Barcode", "Chromosome", "Start_Position", "End_Position")}
            locs = []
            for b in body:
                f = b.split("\t")
                locs.append({"tumor": f[ix["Tumor_Sample_Barcode"]], "normal": f[ix["Matched_Norm_Sample_Barcode"]] or None,
                             "chr": f[ix["Chromosome"]], "start": f[ix["Start_Position"]], "stop": f[ix["End_Position"]]})
        bad = [j for j in range(len(locs) - 1) if expected_cmp(locs[j], locs[j + 1], order, contigs) > 0]
        if bad:
            fails.append(dict(where, what="the file is not in the order declared by its own sort.order / contigs pragmas",
                              kind="not-sorted", at=bad[0], body=[b.split("\t")[:6] for b in body][:6] if not typed else locs[:6]))
    # the library's own reader iterates the file to the end
    rd = impl.run({"op": "reader.run", "lines": text.split("\n")[:-1] if text.endswith("\n") else text.split("\n"), "mode": r["mode"]})
    if sort and (rd.get("init_exc") or rd.get("iter_exc") or len(rd.get("records", [])) != len(wrote)):
        fails.append(dict(where, what="the library's reader does not iterate the produced file to the end", kind="own-reader-rejects",
                          got=rd.get("init_exc") or rd.get("iter_exc") or len(rd.get("records", []))))
    return i, where, fails, body


def model_differs(r, specs, m, i):
    k = next((j for j, (a, b) in enumerate(zip(m.get("steps", []), i.get("steps", []))) if a != b), None)
    return {"op": "writer.run", "header": r["header_lines"], "assume_sorted": r["assume_sorted"],
            "records": specs, "step": k,
            "model": None if k is None else {"exc": m["steps"][k]["exc"], "lines": m["steps"][k]["out"].split("\n")[-6:]},
            "impl": None if k is None else {"exc": i["steps"][k]["exc"], "lines": i["steps"][k]["out"].split("\n")[-6:]}}



# ---------------------------------------------------------------------------------------------------------------------
# Every way of making a writer (constructor, from_fd, from_path plain and .gz) with every way of making its header
# (from_lines with the pragmas in either order, from_defaults / from_reader with contigs= or fasta_index=, a reader's
# header): the file must obey the pragmas it carries itself.
WRITER_FACTORIES = ["ctor", "from_fd", "path", "path-gz"]


def spec_line(sp, typed):
    t, nn, c, s, d = sp
    if typed:
        return str(SC.typed_record(None, t, nn or None, c, s, s + d))
    return "\t".join(["G", c, str(s), str(s + d), t, nn])


def write_via(factory, header, lines, typed, sort, method, tmp, tag, positional=True):
    """One writer session through `factory`; {"init_exc"} or {"excs": [...], "text": the file after close, "path"}."""
    import gzip
    import os
    from maflib.writer import MafWriter
    mode = impl.MODES["Strict" if typed else "Silent"]
    buf, path = None, None
    # the flag as callers spell it: any false value asks for sorting (False, 0, None), any true one (True, 1) does not
    flag = [False, 0, None][tag % 3] if sort else [True, 1][tag % 2]
    # a clean-up path that closes the writer a second time (the recording handle stays writable after close(), like a
    # wrapper whose close() only flushes): nothing more is written
    closes = [None, None] if (factory in ("ctor", "from_fd") and tag % 3 == 1) else [None]
    with impl.LogCapture():
        try:
            if factory == "ctor":
                buf = impl.RecordingHandle()
                w = MafWriter(buf, header, mode, flag) if positional else MafWriter(handle=buf, header=header, validation_stringency=mode, assume_sorted=flag)
            elif factory == "from_fd":
                buf = impl.RecordingHandle()
                w = MafWriter.from_fd(buf, header, validation_stringency=mode, assume_sorted=flag)
            else:
                path = os.path.join(tmp, "w_%d.maf%s" % (tag, ".gz" if factory == "path-gz" else ""))
                w = MafWriter.from_path(path, header, validation_stringency=mode, assume_sorted=flag) if positional else \
                    MafWriter.from_path(path=path, header=header, validation_stringency=mode, assume_sorted=flag)
        except Exception as e:  # noqa
            return {"init_exc": exc_name(e)}
        excs = []
        for ln in lines + closes:
            try:
                if ln is None:
                    w.close()
                else:
                    rec = impl.mk_record({"parse": {"line": ln, "scheme": "gdc-1.0.0"} if typed else {"line": ln, "names": UNTYPED}})
                    if method == "write":
                        w.write(rec)
                    else:
                        w += rec
                excs.append(None)
            except Exception as e:  # noqa
                excs.append(exc_name(e))
        if path is None:
            text = buf.text()
        else:
            try:
                with (gzip.open(path, "rt") if factory == "path-gz" else open(path)) as h:
                    text = h.read()
            except Exception as e:  # noqa
                return {"excs": excs, "text": None, "path": path, "read_back": exc_name(e)}
    return {"excs": excs, "text": text, "path": path}


def own_reader(text, path, mode):
    """The library's reader over the produced file (through reader_from when it is a file on disk): (records, error)."""
    if path is None:
        rd = impl.run({"op": "reader.run", "lines": text.split("\n")[:-1] if text.endswith("\n") else text.split("\n"), "mode": mode})
        return len(rd.get("records", [])), rd.get("init_exc") or rd.get("iter_exc")
    from maflib.reader import MafReader
    n = 0
    with impl.LogCapture():
        try:
            reader = MafReader.reader_from(path, validation_stringency=impl.MODES[mode])
            try:
                for _rec in reader:
                    n += 1
            finally:
                reader.close()
        except Exception as e:  # noqa
            return n, exc_name(e)
    return n, None


def eval_write_route(hroute, factory, method, specs, order, contigs, typed, sort, tmp, tag=1, positional=True):
    """One writer session with the header built through `hroute` and the writer through `factory`, and the oracle's
    verdict (shared by run and replay_case).  The order and contig list the body is judged by are the ones declared by
    the pragma lines of the produced file itself.  Returns (result, where, failures, body or None, model request or None)."""
    where = {"case": "writer-route", "header_route": hroute, "factory": factory, "method": method, "records": [list(sp) for sp in specs],
             "sorting": sort, "typed": typed, "order": order, "contigs": contigs, "positional_args": positional, "tag": tag,
             "assume_sorted_given_as": repr([False, 0, None][tag % 3] if sort else [True, 1][tag % 2]),
             "closed_twice": factory in ("ctor", "from_fd") and tag % 3 == 1}
    fails = []
    try:
        header = SC.header_via(hroute, order, contigs, tmp, typed)
        hdr_lines = str(header).split("\n")
    except Exception as e:  # noqa
        fails.append(dict(where, what="building the header through route %r failed with %s" % (hroute, exc_name(e)), kind="route-failed"))
        return None, where, fails, None, None
    wrote = [spec_line(sp, typed) for sp in specs]
    res = write_via(factory, header, wrote, typed, sort, method, tmp, tag, positional)
    where["header"] = hdr_lines
    if "init_exc" in res or any(res["excs"]) or res["text"] is None:
        fails.append(dict(where, what="writing well-formed records failed", kind="write-failed",
                          got=res.get("init_exc") or res.get("read_back") or res["excs"]))
        return res, where, fails, None, None
    mode = "Strict" if typed else "Silent"
    req = dict(make_request(hdr_lines, specs, typed, sort))
    hdr, col, body = body_lines(res["text"])
    if hdr != hdr_lines or (col is None and (typed or specs)):
        fails.append(dict(where, what="the file does not start with the header and the column line", kind="header", got=hdr))
        return res, where, fails, None, req
    if sorted(body) != sorted(wrote):
        fails.append(dict(where, what="the file does not hold every record exactly once", kind="not-permutation", wrote=len(wrote), found=len(body)))
        return res, where, fails, None, req
    if not sort:
        if body != wrote:
            fails.append(dict(where, what="with sorting off the records are not in the order they were written", kind="order-changed"))
    else:
        forder, fcontigs = header_decl(hdr)          # what the file says about itself
        names = (col or "").split("\t")
        ix = [names.index(n) for n in ("Tumor_Sample_Barcode", "Matched_Norm_Sample_Barcode", "Chromosome", "Start_Position", "End_Position")] if body else []
        locs = []
        for b in body:
            f = b.split("\t")
            locs.append({"tumor": f[ix[0]], "normal": (f[ix[1]] or None) if typed else f[ix[1]], "chr": f[ix[2]], "start": f[ix[3]], "stop": f[ix[4]]})
        if forder in ("Coordinate", "BarcodesAndCoordinate"):
            bad = [j for j in range(len(locs) - 1) if expected_cmp(locs[j], locs[j + 1], forder, fcontigs) > 0]
            if bad:
                fails.append(dict(where, what="the file is not in the order declared by its own sort.order / contigs pragmas", kind="not-sorted",
                                  at=bad[0], declares=[forder, fcontigs], body=[[l["tumor"], l["normal"], l["chr"], l["start"], l["stop"]] for l in locs][:8]))
        n, err = own_reader(res["text"], res["path"], mode)
        if err or n != len(wrote):
            fails.append(dict(where, what="the library's reader does not iterate the produced file to the end", kind="own-reader-rejects", got=err or n))
    return res, where, fails, body, req


def route_cases(ctx, out):
    import tempfile
    rng = ctx.rng("c10-routes")
    contig_sets = [None, ["chr1", "chr10", "chr2", "chrX"], ["chr1", "chr2", "chr10", "chrX"], ["chrX", "chr10", "chr2", "chr1"], ["chr2", "chr10", "chr1", "chrX"], SC.LONG_CHR]
    reqs, meta = [], []
    with tempfile.TemporaryDirectory() as tmp:
        for tag in range(ctx.scale(90, 800)):
            typed = rng.random() < 0.4
            order = rng.choice(["Coordinate", "BarcodesAndCoordinate"])
            contigs = rng.choice(contig_sets) or []
            hroute = rng.choice(SC.routes_for(contigs, SC.HEADER_ROUTES, skip_pending=False))
            factory = rng.choice(WRITER_FACTORIES)
            method = rng.choice(["+=", "+=", "write"])
            sort = rng.random() < 0.85
            n = rng.choice([0, 1, 2, 3, 3, 4, 5])
            chroms = contigs or ["chr1", "chr2", "chr10", "chrX"]
            specs = [(rng.choice(SC.TUMORS if rng.random() < 0.3 else ["T1", "T2"]), rng.choice(["N1", "N2", ""]), rng.choice(chroms), rng.choice([5, 9, 10, 100]), rng.choice([0, 1, 7]))
                     for _ in range(n)]
            if n >= 2 and rng.random() < 0.3:
                specs[rng.randrange(n)] = specs[rng.randrange(n)]       # equal keys
            out.evaluations += 1
            res, where, fails, body, req = eval_write_route(hroute, factory, method, specs, order, contigs, typed, sort, tmp, tag, rng.random() < 0.5)
            out.failures += fails
            if req is not None and res is not None and res.get("text") is not None:
                reqs.append(req)
                meta.append((res["text"], where))
            if body is None:
                continue
            out.distribution["factory:" + factory] += 1
            out.distribution["header:" + hroute] += 1
            if sort and len(specs) >= 2:
                out.nontrivial.add(repr((where["header"], specs, factory, hroute)))
    for r, m, (text, where) in zip(reqs, ctx.driver.run(reqs), meta):
        if has_unmodelled(m):
            out.unmodelled += 1
        elif not m.get("steps") or m["steps"][-1]["out"] != text or any(st["exc"] for st in m["steps"]):
            out.disagreements.append({"op": "writer.run", "header": r["header_lines"], "assume_sorted": r["assume_sorted"], "records": where["records"],
                                      "factory": where["factory"], "header_route": where["header_route"],
                                      "model": None if not m.get("steps") else {"exc": [st["exc"] for st in m["steps"]], "lines": m["steps"][-1]["out"].split("\n")[-6:]},
                                      "impl": {"lines": text.split("\n")[-6:]}})


def _mk(typed, sp):
    t, nn, c, s_, e_ = sp
    return SC.typed_record(None, t, nn or None, c, s_, e_) if typed else SC.untyped_record(t, nn or "", c, str(s_), str(e_))


def _judge_file(where, text, snaps, order, contigs, sort, typed):
    """The property on one produced file: header, column line, every written state exactly once, in the order the
    file's own pragmas declare (or in write order when not sorting), and readable to the end by the library's reader."""
    fails = []
    _hdr, _cols, body = body_lines(text)
    if sorted(body) != sorted(snaps):
        fails.append(dict(where, what="the file does not hold every written record exactly once (%d written, %d lines; states written vs lines differ)" % (len(snaps), len(body)),
                          kind="live-not-permutation", got=[b.split("\t")[:8] for b in body][:6]))
        return fails
    if not sort and body != snaps:
        fails.append(dict(where, what="with sorting off the records do not appear in the order they were written", kind="live-order"))
    if sort:
        from maflib.record import MafRecord
        from maflib.validation import ValidationStringency as VS
        sch = impl.scheme_by_annotation("gdc-1.0.0") if typed else None
        names = None if typed else UNTYPED
        locs = [SC.loc_json(MafRecord.from_line(b, scheme=sch, column_names=names, validation_stringency=VS.Silent)) for b in body]
        bad = [i for i in range(len(locs) - 1) if expected_cmp(locs[i], locs[i + 1], order, contigs or []) > 0]
        if bad:
            fails.append(dict(where, what="the file is not in the order its own sort.order / contigs pragmas declare (body line %d)" % (bad[0] + 1), kind="live-unsorted", keys=locs[bad[0]:bad[0] + 2]))
    if sort:       # (with sorting off the caller is responsible for the order: the property only promises the write order)
        n, err = own_reader(text, None, "Strict" if typed else "Silent")
        if err or n != len(body):
            fails.append(dict(where, what="the library's reader does not iterate the produced file to the end", kind="live-own-reader", got=err or n))
    return fails


def _open_writer(order, contigs, typed, sort):
    import io
    from maflib.header import MafHeader
    from maflib.validation import ValidationStringency as VS
    from maflib.writer import MafWriter
    lines = (["#version gdc-1.0.0"] if typed else []) + ["#sort.order " + order] + (["#contigs " + ",".join(contigs)] if contigs else [])
    h = MafHeader.from_lines(lines, validation_stringency=VS.Silent)
    buf = io.StringIO()
    buf.close = lambda: None
    return MafWriter.from_fd(buf, h, validation_stringency=VS.Strict if typed else VS.Silent, assume_sorted=not sort), buf


def eval_live(case):
    """`reused`: ONE record object written several times, re-targeted in place between the writes.  `two`: two sorting
    writers alive at once whose headers rank the same contig names differently, written alternately."""
    order, typed, sort = case["order"], case["typed"], case["sort"]
    where = dict(case, kind="live")
    fails = []
    try:
        if case["family"] == "reused":
            w, buf = _open_writer(order, case["contigs"], typed, sort)
            rec = _mk(typed, case["specs"][0])
            snaps = []
            for sp in case["specs"]:
                snaps.append(SC.retarget(rec, _mk(typed, sp)))
                if case.get("touch"):
                    _ = (rec.chromosome, rec.start, rec.end)
                w += rec
            w.close()
            fails += _judge_file(where, buf.getvalue(), snaps, order, case["contigs"], sort, typed)
        else:
            wa, ba = _open_writer(order, case["contigs"], typed, True)
            wb, bb = _open_writer(case["order_b"], case["contigs_b"], typed, True)
            sa, sb = [], []
            for sp in case["specs"]:
                ra, rb = _mk(typed, sp), _mk(typed, sp)
                sa.append(str(ra))
                sb.append(str(rb))
                wa += ra
                wb += rb
            wa.close()
            wb.close()
            fails += _judge_file(dict(where, which="first writer"), ba.getvalue(), sa, order, case["contigs"], True, typed)
            fails += _judge_file(dict(where, which="second writer"), bb.getvalue(), sb, case["order_b"], case["contigs_b"], True, typed)
    except Exception as e:  # noqa
        fails.append(dict(where, what="writing well-formed records failed with %s" % exc_name(e), kind="live-exception"))
    return fails


def live_cases(ctx, out):
    rng = ctx.rng("c10-live")
    sets = [["chr1", "chr2", "chr10", "chrX"], ["chr1", "chr10", "chr2", "chrX"], ["chrX", "chr10", "chr2", "chr1"], SC.LONG_CHR]
    for _ in range(ctx.scale(60, 500)):
        typed = rng.random() < 0.4
        order = rng.choice(["Coordinate", "BarcodesAndCoordinate"])
        contigs = rng.choice(sets + [None])
        chroms = contigs or ["chr1", "chr2", "chr10", "chrX"]
        n = rng.choice([2, 3, 4, 5])
        specs = [(rng.choice(SC.TUMORS if rng.random() < 0.3 else ["T1", "T2"]), rng.choice(["N1", "N2", ""]), rng.choice(chroms), rng.choice([5, 9, 10, 100]), 0) for _ in range(n)]
        specs = [(t, nn, c, s_, s_ + rng.choice([0, 1, 7])) for (t, nn, c, s_, _e) in specs]
        if rng.random() < 0.55:
            case = {"family": "reused", "order": order, "contigs": contigs, "typed": typed, "sort": rng.random() < 0.8, "specs": specs, "touch": rng.random() < 0.5}
        else:
            cb = rng.choice([c for c in sets if c is not SC.LONG_CHR])
            ca = contigs if contigs and set(contigs) >= set(cb) else rng.choice([c for c in sets if c is not SC.LONG_CHR])
            common = [c for c in ca if c in cb]
            specs = [(t, nn, rng.choice(common), s_, e_) for (t, nn, _c, s_, e_) in specs]
            case = {"family": "two", "order": order, "contigs": ca, "order_b": rng.choice(["Coordinate", "BarcodesAndCoordinate"]), "contigs_b": cb, "typed": typed, "sort": True, "specs": specs}
        out.evaluations += 1
        out.failures += eval_live(case)
        out.distribution["live:" + case["family"]] += 1
        out.nontrivial.add(repr(sorted(case.items())))


def run(ctx):
    out = Outcome()
    out.rule = ("headers with both sortable orders, contig list absent / lexical / karyotypic (chr1,chr2,...,chr10) / reversed, typed (gdc-1.0.0) and scheme-less records; "
                "every permutation of small multisets (n <= 4, thorough n <= 5) plus random orders of larger ones; sorting on and off; the produced file is re-read by the library's reader; "
                "non-trivial = sorting on with >= 2 records; distinct (header, record order)")
    rng = ctx.rng("c10")
    contig_sets = [None, ["chr1", "chr10", "chr2", "chrX"], ["chr1", "chr2", "chr10", "chrX"], ["chrX", "chr10", "chr2", "chr1"], SC.LONG_CHR]
    reqs, meta = [], []
    for _ in range(ctx.scale(60, 500)):
        typed = rng.random() < 0.5
        order = rng.choice(["Coordinate", "BarcodesAndCoordinate"])
        contigs = rng.choice(contig_sets)
        sort = rng.random() < 0.8
        n = rng.choice([0, 1, 2, 3, 3, 4] + ([5] if ctx.tier == "thorough" else []))
        chroms = contigs or ["chr1", "chr2", "chr10", "chrX"]
        specs = [(rng.choice(SC.TUMORS if rng.random() < 0.3 else ["T1", "T2"]), rng.choice(["N1", "N2", ""]), rng.choice(chroms), rng.choice([5, 9, 10, 100]), rng.choice([0, 1, 7]))
                 for _ in range(n)]
        perms = list(itertools.permutations(range(n))) if n <= (5 if ctx.tier == "thorough" else 4) else []
        rng.shuffle(perms)
        for perm in perms[:ctx.scale(6, 120)] or [tuple(range(n))]:
            header = ["#version gdc-1.0.0"] + ([] if typed else ["#annotation.spec my-spec"])
            if contigs and rng.random() < 0.5:
                header.append("#contigs " + ",".join(contigs))
            header.append("#sort.order " + order)
            if contigs and not any(h.startswith("#contigs") for h in header):
                header.append("#contigs " + ",".join(contigs))
            reqs.append(make_request(header, [specs[k] for k in perm], typed, sort))
            meta.append(([specs[k] for k in perm], order, contigs or [], typed, sort))
    big_file_case(ctx, out, rng)
    mo = ctx.driver.run(reqs)
    for r, m, (specs, order, contigs, typed, sort) in zip(reqs, mo, meta):
        out.evaluations += 1
        i, where, fails, body = eval_write(r, specs, order, contigs, typed, sort)
        if has_unmodelled(m):
            out.unmodelled += 1
        elif m != i:
            out.disagreements.append(model_differs(r, specs, m, i))
        out.failures += fails
        if body is None:
            continue
        if sort and len(specs) >= 2:
            out.nontrivial.add(repr((r["header_lines"], specs)))
        if len(out.samples) < 3 and sort and len(specs) >= 3:
            out.sample({"header": r["header_lines"], "records_in": specs, "body_out": [b.split("\t")[:6] for b in body][:5] if not typed else "typed"})
    out.rule += ("; writers made by MafWriter(...), from_fd, from_path on a plain and on a .gz path, records handed over with += and write(), headers made by from_lines "
                 "(pragmas in either order), from_defaults and from_reader (contigs= / fasta_index= / a bound order), and taken from a reader: the body is judged by the "
                 "pragmas of the produced file, which is re-read with reader_from when it is on disk")
    route_cases(ctx, out)
    live_cases(ctx, out)
    return out


BIG_HEADER = ["#version gdc-1.0.0", "#annotation.spec lab", "#sort.order Coordinate"]
BIG_MULT, BIG_MOD = 7919, 10007


def big_starts(n, mult=BIG_MULT, mod=BIG_MOD):
    """The insertion order of the big-file case: a deterministic interleaving of 0..n-1 (consecutive records fall into
    different residue classes, so the spilled runs overlap)."""
    starts = list(range(n))
    starts.sort(key=lambda s: ((s * mult) % mod, s))
    return starts


def eval_big(n, mult=BIG_MULT, mod=BIG_MOD, div=1):
    """More records than the writer keeps in memory (10000): several spilled runs with interleaving key ranges are merged at close().
    Shared by run and replay_case; returns (start positions of the body, failures)."""
    from maflib.header import MafHeader
    from maflib.record import MafRecord
    from maflib.validation import ValidationStringency as VS
    from maflib.writer import MafWriter
    buf = impl.RecordingHandle()
    w = MafWriter.from_fd(buf, MafHeader.from_lines(BIG_HEADER, validation_stringency=VS.Silent), validation_stringency=VS.Silent, assume_sorted=False)
    # what rebuilds the input: records G/chr1/(s // div)/(s // div) for s in 0..n-1 (div > 1: equal keys, which meet at the
    # heads of different runs), added in the order sorted by ((s*mult) % mod, s)
    case = {"case": "big-file", "n": n, "interleave": {"mult": mult, "mod": mod}, "div": div}
    try:
        for s0 in big_starts(n, mult, mod):
            w += MafRecord.from_line("G\tchr1\t%d\t%d" % (s0 // div, s0 // div), column_names=["Hugo_Symbol", "Chromosome", "Start_Position", "End_Position"],
                                     validation_stringency=VS.Silent)
        w.close()
    except Exception as e:  # noqa
        return [], [dict(case, what="a %d-record sorting write of well-formed records failed with %s" % (n, exc_name(e)), kind="big-exception")]
    text = buf.text()
    body = text.split("\n")[4:]
    if body and body[-1] == "":
        body.pop()
    if any(l == "" for l in body):
        return [], [dict(case, what="after a %d-record sorting write the file holds %d lines after the column line (an empty line is no record that was written)" % (n, len(body)),
                         kind="big-extra-line")]
    got = [int(l.split("\t")[2]) for l in body]
    fails = []
    if sorted(got) != sorted(x // div for x in range(n)):
        fails.append(dict(case, what="a %d-record sorting write lost or duplicated records" % n, kind="not-permutation"))
    elif got != sorted(got):
        k = next(i for i in range(len(got) - 1) if got[i] > got[i + 1])
        fails.append(dict(case, what="a %d-record sorting write (3+ spilled runs) is out of order at body line %d" % (n, k + 1), kind="not-sorted",
                          around=got[k - 1:k + 3]))
    return got, fails


def big_file_case(ctx, out, rng):
    n = 20000 + rng.randrange(600, 5000)
    out.evaluations += 1
    got, fails = eval_big(n)
    out.failures += fails
    out.nontrivial.add(("big", n))
    out.distribution["big_file_records"] += n
    # equal keys that meet at the heads of different spilled runs
    n2 = 10000 + rng.randrange(300, 900)
    out.evaluations += 1
    got, fails = eval_big(n2, div=2)
    out.failures += fails
    out.nontrivial.add(("big-ties", n2))
    out.distribution["big_file_records"] += n2
    # round numbers of records (block sizes of a buffered implementation)
    for n3 in (499, 500, 501, 1000, 1024):
        out.evaluations += 1
        got, fails = eval_big(n3)
        out.failures += fails
        out.nontrivial.add(("round", n3))


def header_decl(header):
    """(sort order, contig list) declared by header lines."""
    order, contigs = None, []
    for h in header:
        if h.startswith("#sort.order "):
            order = h.split(" ", 1)[1]
        elif h.startswith("#contigs "):
            contigs = [c for c in h.split(" ", 1)[1].split(",") if c]
    return order, contigs


def replay_case(ctx, failure):
    if failure.get("kind", "").startswith("live") and "family" in failure:
        case = {k: failure[k] for k in ("family", "order", "contigs", "typed", "sort", "specs", "touch", "order_b", "contigs_b") if k in failure}
        fails = eval_live(case)
        print("replay C10: %s; %s records, header order %s contigs %s%s; specs %s" % (
            "one record object written %d times, re-targeted in place between the writes" % len(case["specs"]) if case["family"] == "reused" else
            "two sorting writers alive at once (second header: %s %s), written alternately" % (case.get("order_b"), case.get("contigs_b")),
            "typed" if case["typed"] else "scheme-less", case["order"], case["contigs"], "" if case["sort"] else " (sorting off)", case["specs"]))
        for x in fails:
            print("  oracle: %s" % x["what"])
        return fails
    """Re-evaluate the stored failing input on the current implementation; return the list of failure dicts it
    produces now (empty list = the property holds on that input)."""
    if failure.get("case") == "big-file" or ("n" in failure and "header" not in failure):
        n = int(failure["n"])
        il = failure.get("interleave") or {}
        mult, mod = il.get("mult", BIG_MULT), il.get("mod", BIG_MOD)
        div = int(failure.get("div", 1))
        print("sorting writer (Silent, header %s): %d scheme-less records G/chr1/p/p with p = s // %d, s in 0..%d, added in the order sorted by ((s*%d) %% %d, s); close()" % (
            BIG_HEADER, n, div, n - 1, mult, mod))
        try:
            got, fails = eval_big(n, mult, mod, div)
        except Exception as e:  # noqa
            print("implementation: raised %s" % exc_name(e))
            return [{"case": "big-file", "n": n, "interleave": {"mult": mult, "mod": mod}, "kind": "write-failed",
                     "what": "a %d-record sorting write failed with %s" % (n, exc_name(e))}]
        k = next((j for j in range(len(got) - 1) if got[j] > got[j + 1]), None)
        print("implementation: %d body lines, %s" % (len(got), "in non-decreasing start order" if k is None else
                                                     "first descent at body line %d: starts %s" % (k + 1, got[max(0, k - 1):k + 3])))
        print("model: the %d-record case is not run on the model (multi-run merging is C07's subject)" % n)
        for f in fails:
            print("oracle fails: %s" % f["what"])
        return fails
    if failure.get("case") == "writer-route":
        import tempfile
        hroute, factory, method = failure["header_route"], failure["factory"], failure.get("method", "+=")
        specs = [tuple(sp) for sp in failure["records"]]
        order, contigs, typed, sort = failure["order"], list(failure.get("contigs") or []), failure["typed"], failure["sorting"]
        print("%s writer made by %s, header made through route %r from (order=%s, contigs=%s); %s records handed over with %s:" % (
            "sorting" if sort else "direct", {"ctor": "MafWriter(...)", "from_fd": "MafWriter.from_fd", "path": "MafWriter.from_path(plain path)",
                                              "path-gz": "MafWriter.from_path(path ending in .gz)"}.get(factory, factory),
            hroute, order, contigs or "none", "gdc-1.0.0" if typed else "scheme-less", method))
        for sp in specs:
            print("    write tumor=%r normal=%r chr=%r start=%r end=%r" % (sp[0], sp[1], sp[2], sp[3], sp[3] + sp[4]))
        print("    close")
        with tempfile.TemporaryDirectory() as tmp:
            res, where, fails, body, req = eval_write_route(hroute, factory, method, specs, order, contigs, typed, sort, tmp, int(failure.get("tag", 1)), failure.get("positional_args", True))
        text = None if res is None else res.get("text")

        def parts(t):
            hdr, col, bd = body_lines(t)
            names = (col or "").split("\t")
            want = ["Tumor_Sample_Barcode", "Matched_Norm_Sample_Barcode", "Chromosome", "Start_Position", "End_Position"]
            if all(n in names for n in want):
                bd = [[b.split("\t")[names.index(n)] for n in want] for b in bd if len(b.split("\t")) == len(names)]
            return hdr, col, bd
        if text is not None:
            hdr, col, bd = parts(text)
            print("implementation: file has header %s, %s, body (tumor, normal, chr, start, end): %s" % (hdr, "a column line" if col is not None else "no column line", bd))
        elif res is not None:
            print("implementation: %s" % (res.get("init_exc") or res.get("excs")))
        if req is not None and text is not None:
            try:
                m = ctx.driver.run([req])[0]
                if has_unmodelled(m):
                    print("model: outside the model's domain")
                else:
                    mt = m["steps"][-1]["out"] if m.get("steps") else ""
                    print("model: body %s%s" % (parts(mt)[2], "" if mt == text else "   (the file differs from the implementation's)"))
            except Exception as e:  # noqa
                print("model: not available (%s)" % str(e)[:200])
        for f in fails:
            print("oracle fails: %s" % f["what"])
        return fails
    if any(k not in failure for k in ("header", "records", "sorting", "typed")):
        return None
    header, typed, sort = list(failure["header"]), failure["typed"], failure["sorting"]
    specs = [tuple(sp) for sp in failure["records"]]
    order, contigs = header_decl(header)
    order = failure.get("order", order)
    contigs = list(failure["contigs"]) if failure.get("contigs") is not None else contigs
    r = make_request(header, specs, typed, sort)
    print("%s writer (%s, %s records), header %s" % ("sorting" if sort else "direct", r["mode"], "gdc-1.0.0" if typed else "scheme-less", header))
    for sp in specs:
        print("    write tumor=%r normal=%r chr=%r start=%r end=%r" % (sp[0], sp[1], sp[2], sp[3], sp[3] + sp[4]))
    print("    close")
    i, where, fails, body = eval_write(r, specs, order, contigs, typed, sort)

    def show(who, a):
        if "init_exc" in a:
            print("%s: opening the writer failed with %s" % (who, a["init_exc"]))
            return
        excs = [s["exc"] for s in a["steps"]]
        if any(excs):
            print("%s: step results %s" % (who, excs))
        hdr, col, bd = body_lines(a["steps"][-1]["out"] if a["steps"] else a["init_out"])
        names = (col or "").split("\t")
        want = ["Tumor_Sample_Barcode", "Matched_Norm_Sample_Barcode", "Chromosome", "Start_Position", "End_Position"]
        if all(n in names for n in want):
            bd = [[b.split("\t")[names.index(n)] for n in want] for b in bd if len(b.split("\t")) == len(names)]
        print("%s: file has %d header lines, %s, body (tumor, normal, chr, start, end): %s" % (who, len(hdr), "a column line" if col is not None else "no column line", bd))
    show("implementation", i)
    try:
        m = ctx.driver.run([r])[0]
        if has_unmodelled(m):
            print("model: outside the model's domain")
        else:
            show("model", m)
            if m != i:
                print("model: differs from the implementation at step %s" % model_differs(r, specs, m, i)["step"])
    except Exception as e:  # noqa
        print("model: not available (%s)" % str(e)[:200])
    for f in fails:
        print("oracle fails: %s" % f["what"])
    return fails


def search(ctx):
    return run(ctx)

