"""C08 - sort keys form the documented total preorder and never fail on well-formed records."""
import itertools
import json

from .. import sortcases as SC
from ..common import exc_name, has_unmodelled
from ..runner import Outcome

LEVEL = "proof"
TRUSTED_EXTRA = ["translator verif/gen_bodies.py (Python ast -> PyIR terms, purely syntactic)", "PyIR interpreter (lean/MafModel/MafModel/PyIR/Interp.lean), validated on every run against the real SortOrderKey.compare (body.compare)"]
ASSUMPTIONS = ["well-formed coordinates: chromosome a name (text or integer-typed), start/end integers or integer texts, barcodes texts; anything may be missing (None)"]
OPS = ["lt", "le", "gt", "ge", "eq", "ne"]
BIG = [2 ** 53, 2 ** 53 + 1, 2 ** 63 - 2, 2 ** 63 - 1, 2 ** 63, 2 ** 64 + 1]


def expected_cmp(a, b, order, contigs):
    """The documented order, written directly: barcodes (barcode order only), chromosome by contig rank
    or by name, numeric start, numeric end; missing last."""
    def c(x, y):
        if x is None and y is None:
            return 0
        if x is None:
            return 1
        if y is None:
            return -1
        return (x > y) - (x < y)

    def num(v):
        return None if v is None else int(v)

    def chrom(v):
        if v is None:
            return None
        s = str(v)
        return contigs.index(s) if contigs else s
    parts = []
    if order == "BarcodesAndCoordinate":
        parts += [(a["tumor"], b["tumor"]), (a["normal"], b["normal"])]
    parts += [(chrom(a["chr"]), chrom(b["chr"])), (num(a["start"]), num(b["start"])), (num(a["stop"]), num(b["stop"]))]
    for x, y in parts:
        d = c(x, y)
        if d:
            return d
    return 0


def make_objs(rng, n):
    """Records (typed / untyped) and plain locatables over present/missing/equal/less/greater components."""
    objs = []
    chroms = ["1", "2", "10", "X", "chr1", "chr2", "chr10", "0", "3", "11", "12", "chr11"]
    for _ in range(n):
        kind = rng.choice(["typed", "typed", "untyped", "loc"])
        chrom = rng.choice(chroms)
        start = rng.choice([1, 2, 9, 10, 11, 100, 1000])
        if rng.random() < 0.12:
            # positions are numbers of any size (Python integers are unbounded): beyond 2**53 (not exact as a double) and
            # around the machine word
            start = rng.choice(BIG)
        end = start + rng.choice([0, 0, 1, 5, 90])
        tumor = rng.choice(["T1", "T2", "TA", "Zz-9"] + SC.TUMORS)
        # (names on both sides of the text 'None' and of the empty text: a missing barcode is last, not a name)
        normal = rng.choice(["N1", "N2", "TCGA-11", "b-12", None, None, "N1A", "N1|T", "N"])
        if kind == "typed":
            objs.append(("typed", SC.typed_record(rng, tumor, normal, chrom, start, end)))
        elif kind == "untyped":
            # the text of a position is what int() reads: an explicit sign is part of the number
            st = rng.choice(["%d", "%d", "%d", "+%d", "-%d"]) % start
            objs.append(("untyped", SC.untyped_record(tumor, normal or "", chrom, st, str(end) if not st.startswith("-") else st)))
        else:
            c = rng.choice([chrom, chrom, None, int(chrom) if chrom.isdigit() else chrom])
            s = rng.choice([start, start, None])
            e = rng.choice([end, end, None]) if s is not None else None
            objs.append(("loc", SC.Loc(c, s, e)))
    # ties on the leading components with one later component missing: a missing value is last, whatever precedes it
    for _ in range(max(2, n // 8)):
        chrom = rng.choice(chroms)
        start = rng.choice([1, 9, 10, 100])
        objs.append(("loc", SC.Loc(chrom, start, None)))
        objs.append(("loc", SC.Loc(chrom, start, start)))
        objs.append(("loc", SC.Loc(chrom, start, start + rng.choice([1, 5, 90]))))
        objs.append(("loc", SC.Loc(chrom, None, None)))
        big = rng.choice(BIG)
        objs.append(("loc", SC.Loc(chrom, start, big)))        # a huge end against a missing end: missing is still last
        objs.append(("loc", SC.Loc(chrom, big, big + 1)))
        objs.append(("untyped", SC.untyped_record("T1", "N1", chrom, str(big), str(big + 1))))
        objs.append(("untyped", SC.untyped_record("T1", "N1", chrom, str(big + 1), str(big + 1))))
        tumor = rng.choice(["T1", "TA"])
        for normal in (None, "N1", "TCGA-11", "b-12"):
            objs.append(("typed", SC.typed_record(rng, tumor, normal, chrom, start, start + 1)))
    return objs


def compare_impl(a, b, order, contigs, so=None):
    so = SC.order_obj(order, contigs) if so is None else so
    f = so.sort_key()
    try:
        ka, kb = f(a), f(b)
    except Exception as e:  # noqa
        return {"keyerr": exc_name(e)}
    res = {}
    import operator
    for name, op in [("lt", operator.lt), ("le", operator.le), ("gt", operator.gt), ("ge", operator.ge),
                     ("eq", operator.eq), ("ne", operator.ne)]:
        try:
            res[name] = bool(op(ka, kb))
        except Exception as e:  # noqa
            res[name] = exc_name(e)
    try:
        res["cmp"] = ka.__cmp__(kb)
    except Exception as e:  # noqa
        res["cmp"] = exc_name(e)
    return res


def eval_pair(ka, a, kb, b, order, cs, la=None, lb=None, so=None, route=None):
    """One comparison on the implementation and the oracle's verdict on it (shared by run and replay_case).

    `so` is the sort order object to take the keys from when (order, cs) reached the library through `route`
    (default: Coordinate(contigs=cs) / BarcodesAndCoordinate(contigs=cs)); the documented order is the same for all.
    Returns (implementation's answer, where, failures, tag); tag is "contig-missing", "key-failed" or the documented cmp."""
    la = SC.loc_json(a) if la is None else la
    lb = SC.loc_json(b) if lb is None else lb
    i = compare_impl(a, b, order, cs, so)
    where = {"order": order, "contigs": cs, "a": la, "b": lb, "kinds": [ka, kb]}
    if route is not None:
        where["route"] = route
    fails = []
    # oracle: well-formed inputs never fail, and agree with the documented order
    missing_contig = bool(cs) and any(x["chr"] is None or str(x["chr"]) not in cs for x in (la, lb))
    if missing_contig:
        if i.get("keyerr") != "ValueError":
            fails.append(dict(where, what="chromosome missing from the contig list is not reported as ValueError",
                              kind="contig-missing", got=i))
        return i, where, fails, "contig-missing"
    if "keyerr" in i:
        fails.append(dict(where, what="building a key failed on well-formed coordinates", kind="key-failed", got=i))
        return i, where, fails, "key-failed"
    want = expected_cmp(la, lb, order, cs)
    exp = {"lt": want < 0, "le": want <= 0, "gt": want > 0, "ge": want >= 0, "eq": want == 0, "ne": want != 0, "cmp": want}
    bad = [k for k in exp if i.get(k) != exp[k]]
    if bad:
        fails.append(dict(where, what="comparison disagrees with the documented order on %s" % bad,
                          kind="wrong-order" if not any(isinstance(i.get(k), str) for k in bad) else "compare-failed",
                          expected=exp, got=i))
    return i, where, fails, want



def build_order(route, order, cs, tmp):
    """(sort order object, None) or (None, failure text) for a route."""
    try:
        so = SC.order_via(route, order, cs, tmp)
        so.sort_key()
        return so, None
    except Exception as e:  # noqa
        return None, "supplying (order, contigs) through route %r failed with %s" % (route, exc_name(e))


def route_cases(ctx, out, objs, contig_sets):
    """Keys taken from sort orders that received (order, contigs) through every route the library offers: constructors
    (keyword, positional, FASTA index), SortOrder.find, header records, from_lines with the pragmas in either order,
    from_defaults, from_reader and the header of a reader.  They must all order like the documented order."""
    import tempfile
    rng = ctx.rng("routes")
    recs = [o for o in objs if o[0] != "loc"]
    reqs, meta = [], []
    with tempfile.TemporaryDirectory() as tmp:
        for _ in range(ctx.scale(150, 1500)):
            order = rng.choice(["Coordinate", "BarcodesAndCoordinate"])
            cs = rng.choice(contig_sets + contig_sets[1:])
            route = rng.choice(SC.routes_for(cs))
            so, err = build_order(route, order, cs, tmp)
            if err:
                out.evaluations += 1
                out.failures.append({"order": order, "contigs": cs, "route": route, "what": err, "kind": "route-failed"})
                continue
            pool = recs if order == "BarcodesAndCoordinate" else objs
            for _k in range(4):
                (ka, a), (kb, b) = rng.choice(pool), rng.choice(pool)
                la, lb = SC.loc_json(a), SC.loc_json(b)
                out.evaluations += 1
                i, where, fails, tag = eval_pair(ka, a, kb, b, order, cs, la, lb, so, route)
                out.failures += fails
                reqs.append({"op": "sortkey.cmp", "order": order, "contigs": cs, "a": la, "b": lb})
                meta.append((i, route))
                out.distribution["route:" + route] += 1
                if isinstance(tag, int) and (tag != 0 or ka != kb):
                    out.nontrivial.add(repr((la, lb, order, cs, route)))
    for r, m, (i, route) in zip(reqs, ctx.driver.run(reqs), meta):
        if has_unmodelled(m):
            out.unmodelled += 1
        elif m != i:
            out.disagreements.append({"op": "sortkey.cmp", "route": route, "request": r, "model": m, "impl": i})


# ---------------------------------------------------------------------------------------------------------------------
# Order checking uses the same keys: a sequence of records sent through SortOrderChecker / SortOrderEnforcingIterator
# is accepted up to the first descent, and a record on a chromosome that is missing from a supplied contig list is
# reported as an error (ValueError) - it is not skipped, accepted or ordered arbitrarily.
CHECKER_HOWS = ["add", "+=", "iterator"]


def checker_run(so, objs, how):
    """Send `objs` through the checker; (number accepted / yielded before the first error, error name or None)."""
    from maflib.sort_order import SortOrderChecker, SortOrderEnforcingIterator
    n = 0
    try:
        if how == "iterator":
            for _rec in SortOrderEnforcingIterator(iter(list(objs)), so):
                n += 1
        else:
            ch = SortOrderChecker(so)
            for o in objs:
                if how == "add":
                    ch.add(o)
                else:
                    ch += o
                n += 1
    except Exception as e:  # noqa
        return n, exc_name(e)
    return n, None


def expected_checker(locs, order, cs):
    """(records accepted, error or None) by the statement: stop at the first record whose chromosome is not in the
    supplied contig list or that descends below its predecessor, whichever comes first."""
    for k, l in enumerate(locs):
        if cs and (l["chr"] is None or str(l["chr"]) not in cs):
            return k, "ValueError", "contig-missing"
        if k and expected_cmp(l, locs[k - 1], order, cs) < 0:
            return k, "ValueError", "descent"
    return len(locs), None, "sorted"


def eval_checker(kinds, objs, order, cs, so, route, how):
    """One sequence through the checker and the oracle's verdict (shared by run and replay_case)."""
    locs = [SC.loc_json(o) for o in objs]
    n, err = checker_run(so, objs, how)
    want_n, want_err, why = expected_checker(locs, order, cs)
    where = {"case": "checker", "order": order, "contigs": cs, "route": route, "how": how, "kinds": list(kinds), "recs": locs}
    fails = []
    if (n, err) != (want_n, want_err):
        what = {"contig-missing": "record %d is on a chromosome missing from the contig list: expected %d records accepted, then ValueError" % (want_n, want_n),
                "descent": "first descent at record %d: expected exactly %d records accepted, then the ordering error" % (want_n, want_n),
                "sorted": "records in non-decreasing key order were not all accepted"}[why]
        fails.append(dict(where, what=what, kind="checker-" + why, got={"accepted": n, "exc": err}))
    return (n, err), where, fails, why


def checker_model_differs(r, m, got):
    if has_unmodelled(m):
        return None
    if (m.get("yielded"), m.get("err")) != tuple(got):
        return {"op": "checker.run", "request": r, "model": m, "impl": {"yielded": got[0], "err": got[1]}}
    return None


def checker_cases(ctx, out, objs, contig_sets):
    import functools
    import tempfile
    rng = ctx.rng("checker")
    listed = contig_sets[1]
    keyable = [o for o in objs if SC.loc_json(o[1])["hasCoords"]]
    # objects on chromosomes that no contig list names
    strangers = [("typed", SC.typed_record(rng, "T1", "N1", "3", 10, 12)), ("untyped", SC.untyped_record("T1", "N1", "chrY", "10", "12")),
                 ("typed", SC.typed_record(rng, "TA", None, "GL000192.1", 1, 1)), ("untyped", SC.untyped_record("T2", "", "11", "5", "5")),
                 ("loc", SC.Loc("chrUn", 7, 9)), ("loc", SC.Loc(None, 7, 9)),
                 # two defects at once: an unlisted chromosome AND a position text that is no number - the unlisted chromosome is
                 # what is reported (a record without a readable position is skipped only when its chromosome is known)
                 ("untyped", SC.untyped_record("T1", "N1", "chrY", "abc", "12")), ("untyped", SC.untyped_record("T1", "N1", "GL000192.1", "10", "n/a")),
                 ("untyped", SC.untyped_record("T2", "", "chrUn", "1e3", "."))]
    reqs, meta = [], []
    with tempfile.TemporaryDirectory() as tmp:
        for _ in range(ctx.scale(160, 1600)):
            order = rng.choice(["Coordinate", "BarcodesAndCoordinate"])
            cs = rng.choice(contig_sets + contig_sets[1:])
            route = rng.choice(SC.routes_for(cs))
            how = rng.choice(CHECKER_HOWS)
            so, err = build_order(route, order, cs, tmp)
            if err:
                out.evaluations += 1
                out.failures.append({"order": order, "contigs": cs, "route": route, "what": err, "kind": "route-failed"})
                continue
            pool = [o for o in keyable if order == "Coordinate" or o[0] != "loc"]
            pool = [o for o in pool if not cs or (SC.loc_json(o[1])["chr"] is not None and str(SC.loc_json(o[1])["chr"]) in cs)]
            seq = [rng.choice(pool) for _k in range(rng.choice([1, 2, 3, 4, 5]))]
            seq.sort(key=functools.cmp_to_key(lambda x, y: expected_cmp(SC.loc_json(x[1]), SC.loc_json(y[1]), order, cs)))
            shape = rng.choice(["sorted", "swap", "stranger", "stranger", "stranger+swap"])
            if "swap" in shape and len(seq) >= 2:
                i = rng.randrange(len(seq) - 1)
                j = rng.randrange(i + 1, len(seq))
                seq[i], seq[j] = seq[j], seq[i]
            if "stranger" in shape and cs:
                st = rng.choice([o for o in strangers if order == "Coordinate" or o[0] != "loc"])
                seq.insert(rng.randrange(len(seq) + 1), st)
            out.evaluations += 1
            got, where, fails, why = eval_checker([k for k, _o in seq], [o for _k, o in seq], order, cs, so, route, how)
            out.failures += fails
            out.distribution["checker:" + why] += 1
            out.distribution["checker-how:" + how] += 1
            if len(seq) >= 2:
                out.nontrivial.add(repr((where["recs"], order, cs, route, how)))
            reqs.append({"op": "checker.run", "order": order, "contigs": cs, "recs": where["recs"]})
            meta.append(got)
    for r, m, got in zip(reqs, ctx.driver.run(reqs), meta):
        d = checker_model_differs(r, m, got)
        if d:
            out.disagreements.append(d)


def eval_rekey(typed, order, cs, spec0, spec1, spec2):
    """A record is keyed once, its location / barcodes are then changed in place (column.value = ...), and it is keyed
    again: the key compares as the documented order says for what the record holds NOW."""
    mk = (lambda sp: SC.typed_record(None, *sp)) if typed else (lambda sp: SC.untyped_record(sp[0], sp[1] or "", sp[2], str(sp[3]), str(sp[4])))
    where = {"kind": "rekey", "typed": typed, "order": order, "contigs": cs, "specs": [list(spec0), list(spec1), list(spec2)]}
    try:
        a, b = mk(spec0), mk(spec2)
        so = SC.order_obj(order, cs)
        so.sort_key()(a)                       # keyed once (a checker, a sorter, the caller)
        SC.retarget(a, mk(spec1))              # ... then edited in place
        i, _w, fails, _t = eval_pair("typed" if typed else "untyped", a, "typed" if typed else "untyped", b, order, cs, so=so)
    except Exception as e:  # noqa
        return [dict(where, what="keying a record again after an in-place edit failed with %s" % exc_name(e))]
    return [dict(where, what="a record keyed, edited in place and keyed again: " + f["what"], got=f.get("got"), expected=f.get("expected")) for f in fails]


def rekey_cases(ctx, out):
    rng = ctx.rng("c08-rekey")
    chroms = ["1", "2", "10", "X"]
    for _ in range(ctx.scale(150, 1500)):
        sp = lambda: (rng.choice(["T1", "T2"]), rng.choice(["N1", "N2"]), rng.choice(chroms), rng.choice([1, 9, 10, 100]), 0)  # noqa: E731
        specs = [sp() for _k in range(3)]
        specs = [(t, n, c, s_, s_ + rng.choice([0, 1, 50])) for (t, n, c, s_, _e) in specs]
        out.evaluations += 1
        out.failures += eval_rekey(rng.random() < 0.5, rng.choice(["Coordinate", "BarcodesAndCoordinate"]), rng.choice([[], ["1", "2", "10", "X"], ["X", "10", "2", "1"]]), *specs)
        out.distribution["a record keyed, edited in place, keyed again"] += 1
        out.nontrivial.add(("rekey", repr(specs)))


def run(ctx):
    out = Outcome()
    out.rule = ("pairs and triples of typed records, scheme-less records and plain locatables over present/missing/equal/less/greater "
                "components x both orders x contig list absent/lexical/karyotypic; all six operators; non-trivial = keys differ in a "
                "non-leading component or involve a missing value or mixed typed/untyped; distinct (a,b,order,contigs)")
    rng = ctx.rng("keys")
    objs = make_objs(rng, ctx.scale(40, 140))
    contig_sets = [[], ["1", "2", "10", "X", "chr1", "chr2", "chr10"], ["10", "2", "1", "X", "chr10", "chr2", "chr1"],
                   SC.LONG + ["0"] + SC.LONG_CHR, ["0"] + SC.LONG_CHR + SC.LONG]
    reqs, meta = [], []
    pairs = [(a, b) for a in objs for b in objs]
    rng.shuffle(pairs)
    # pairs that tie on the leading components always run (they are what a "missing value is last" slip needs)
    ties = [(a, b) for (a, b) in pairs if a is not b and SC.loc_json(a[1])["chr"] == SC.loc_json(b[1])["chr"] and SC.loc_json(a[1])["start"] == SC.loc_json(b[1])["start"]]
    pairs = ties[:ctx.scale(400, 4000)] + pairs[:ctx.scale(900, 9000)]
    for (ka, a), (kb, b) in pairs:
        for order in ("Coordinate", "BarcodesAndCoordinate"):
            if order == "BarcodesAndCoordinate" and "loc" in (ka, kb):
                continue   # plain locatables have no barcodes (record.value is a MafRecord method)
            cs = rng.choice(contig_sets)
            la, lb = SC.loc_json(a), SC.loc_json(b)
            reqs.append({"op": "sortkey.cmp", "order": order, "contigs": cs, "a": la, "b": lb})
            meta.append((ka, kb, a, b, order, cs, la, lb))
    mo = ctx.driver.run(reqs)
    for r, m, (ka, kb, a, b, order, cs, la, lb) in zip(reqs, mo, meta):
        out.evaluations += 1
        i, where, fails, tag = eval_pair(ka, a, kb, b, order, cs, la, lb)
        if has_unmodelled(m):
            out.unmodelled += 1
        elif m != i:
            out.disagreements.append({"op": "sortkey.cmp", "request": r, "model": m, "impl": i})
        out.failures += fails
        if tag == "contig-missing":
            out.distribution["contig-missing"] += 1
            continue
        if tag == "key-failed":
            continue
        want = tag
        out.distribution["cmp:%d" % want] += 1
        if want != 0 or ka != kb:
            out.nontrivial.add(repr((la, lb, order, cs)))
        if len(out.samples) < 4 and ka != kb:
            out.sample(where)
    out.rule += ("; the same pairs with keys taken from orders that received (order, contigs) through every constructor / FASTA-index / header-record / from_lines / "
                 "from_defaults / from_reader / reader route; sequences of 1-6 records through SortOrderChecker.add, += and SortOrderEnforcingIterator: sorted, one swap, "
                 "and a record on a chromosome that the contig list does not name at every position")
    route_cases(ctx, out, objs, contig_sets)
    checker_cases(ctx, out, objs, contig_sets)
    rekey_cases(ctx, out)
    from .. import bodycases
    bodycases.compare_cases(ctx, out)
    bodycases.translation_report(ctx, out)
    return out


def rebuild(kind, l):
    """The object of a stored case from its kind and the components a sort order reads from it."""
    if kind == "typed":
        return SC.typed_record(None, l["tumor"], l["normal"], None if l["chr"] is None else str(l["chr"]), l["start"], l["stop"])
    if kind == "untyped":
        return SC.untyped_record(l["tumor"], l["normal"], l["chr"], l["start"], l["stop"])
    if kind == "loc":
        return SC.Loc(l["chr"], l["start"], l["stop"])
    return None


def replay_case(ctx, failure):
    if failure.get("kind") == "rekey" and "specs" in failure:
        s0, s1, s2 = [tuple(x) for x in failure["specs"]]
        fails = eval_rekey(failure["typed"], failure["order"], failure["contigs"], s0, s1, s2)
        print("replay C08: a %s record built as %s is keyed (%s, contigs %s), set in place to %s, keyed again and compared with a record %s" % (
            "typed" if failure["typed"] else "scheme-less", s0, failure["order"], failure["contigs"], s1, s2))
        for x in fails:
            print("  oracle: %s" % x["what"])
        return fails
    """Re-evaluate the stored failing input on the current implementation; return the list of failure dicts it
    produces now (empty list = the property holds on that input)."""
    import tempfile
    if failure.get("kind") == "route-failed" and "route" in failure:
        with tempfile.TemporaryDirectory() as tmp:
            so, err = build_order(failure["route"], failure["order"], list(failure["contigs"] or []), tmp)
        print("route %r with order=%s contigs=%s: %s" % (failure["route"], failure["order"], failure["contigs"], err or "a sort order is built"))
        return [dict(failure, what=err)] if err else []
    if failure.get("case") == "checker":
        order, cs, route, how = failure["order"], list(failure["contigs"] or []), failure["route"], failure["how"]
        objs = [rebuild(k, l) for k, l in zip(failure["kinds"], failure["recs"])]
        if any(o is None for o in objs):
            return None
        print("order checking: order=%s contigs=%s supplied through route %r; records sent through %s:" % (
            order, cs or "none", route, {"iterator": "SortOrderEnforcingIterator", "add": "SortOrderChecker.add", "+=": "SortOrderChecker +="}.get(how, how)))
        for k, o in zip(failure["kinds"], objs):
            print("    %s %s" % (k, json.dumps(SC.loc_json(o), sort_keys=True)))
        with tempfile.TemporaryDirectory() as tmp:
            so, err = build_order(route, order, cs, tmp)
            if err:
                print("implementation: %s" % err)
                return [dict(failure, what=err, kind="route-failed")]
            got, where, fails, why = eval_checker(failure["kinds"], objs, order, cs, so, route, how)
        print("implementation: %d records accepted, then %s" % (got[0], got[1] or "the end of the sequence"))
        want = expected_checker(where["recs"], order, cs)
        print("documented: %d records accepted, then %s (%s)" % (want[0], want[1] or "the end of the sequence", want[2]))
        try:
            r = {"op": "checker.run", "order": order, "contigs": cs, "recs": where["recs"]}
            m = ctx.driver.run([r])[0]
            print("model: %s%s" % (json.dumps(m, sort_keys=True), "   (differs from the implementation)" if checker_model_differs(r, m, got) else ""))
        except Exception as e:  # noqa
            print("model: not available (%s)" % str(e)[:200])
        for f in fails:
            print("oracle fails: %s" % f["what"])
        return fails
    need = ("a", "b", "kinds", "order", "contigs")
    if any(k not in failure for k in need) or len(failure["kinds"]) != 2:
        return None
    (ka, kb), order, cs = failure["kinds"], failure["order"], list(failure["contigs"] or [])
    route = failure.get("route")
    a, b = rebuild(ka, failure["a"]), rebuild(kb, failure["b"])
    if a is None or b is None:
        return None
    la, lb = SC.loc_json(a), SC.loc_json(b)
    print("case: %s(%s) vs %s(%s) under %s, contigs=%s" % (ka, json.dumps(la, sort_keys=True), kb, json.dumps(lb, sort_keys=True), order, cs or "none"))
    for name, now, then in (("a", la, failure["a"]), ("b", lb, failure["b"])):
        if now != then:
            print("note: rebuilt %s reads as %s on this tree (stored: %s)" % (name, json.dumps(now, sort_keys=True), json.dumps(then, sort_keys=True)))
    so = None
    if route is not None:
        print("keys taken from the sort order built through route %r" % route)
        with tempfile.TemporaryDirectory() as tmp:
            so, err = build_order(route, order, cs, tmp)
        if err:
            print("implementation: %s" % err)
            return [{"order": order, "contigs": cs, "route": route, "what": err, "kind": "route-failed"}]
    i, where, fails, tag = eval_pair(ka, a, kb, b, order, cs, la, lb, so, route)
    print("implementation: %s" % json.dumps(i, sort_keys=True))
    if isinstance(tag, int):
        print("documented order: cmp=%d" % tag)
    else:
        print("oracle: %s" % ("a chromosome is not in the contig list: ValueError expected" if tag == "contig-missing" else "building a key must not fail"))
    try:
        m = ctx.driver.run([{"op": "sortkey.cmp", "order": order, "contigs": cs, "a": la, "b": lb}])[0]
        print("model: %s%s" % (json.dumps(m, sort_keys=True), "" if m == i or has_unmodelled(m) else "   (differs from the implementation)"))
    except Exception as e:  # noqa
        print("model: not available (%s)" % str(e)[:200])
    for f in fails:
        print("oracle fails: %s" % f["what"])
    return fails


def search(ctx):
    return run(ctx)

