"""C08 - sort keys form the documented total preorder and never fail on well-formed records."""
import itertools
import json

from .. import sortcases as SC
from ..common import exc_name, has_unmodelled
from ..runner import Outcome

LEVEL = "proof"
ASSUMPTIONS = ["well-formed coordinates: chromosome a name (text or integer-typed), start/end integers or integer texts, barcodes texts; anything may be missing (None)"]
OPS = ["lt", "le", "gt", "ge", "eq", "ne"]


def expected_cmp(a, b, order, contigs):
    """The documented order, written directly: barcodes (barcode order only), chromosome by contig rank
    or by name, numeric start, numeric end; missing last."""
    def c(x, y):
        if x is None and y is None:
            return 0
        if x is None:
            return 1
        if y is None:
            return -1
        return (x > y) - (x < y)

    def num(v):
        return None if v is None else int(v)

    def chrom(v):
        if v is None:
            return None
        s = str(v)
        return contigs.index(s) if contigs else s
    parts = []
    if order == "BarcodesAndCoordinate":
        parts += [(a["tumor"], b["tumor"]), (a["normal"], b["normal"])]
    parts += [(chrom(a["chr"]), chrom(b["chr"])), (num(a["start"]), num(b["start"])), (num(a["stop"]), num(b["stop"]))]
    for x, y in parts:
        d = c(x, y)
        if d:
            return d
    return 0


def make_objs(rng, n):
    """Records (typed / untyped) and plain locatables over present/missing/equal/less/greater components."""
    objs = []
    chroms = ["1", "2", "10", "X", "chr1", "chr2", "chr10"]
    for _ in range(n):
        kind = rng.choice(["typed", "typed", "untyped", "loc"])
        chrom = rng.choice(chroms)
        start = rng.choice([1, 2, 9, 10, 11, 100, 1000])
        end = start + rng.choice([0, 0, 1, 5, 90])
        tumor = rng.choice(["T1", "T2", "TA"])
        normal = rng.choice(["N1", "N2", None, None])
        if kind == "typed":
            objs.append(("typed", SC.typed_record(rng, tumor, normal, chrom, start, end)))
        elif kind == "untyped":
            objs.append(("untyped", SC.untyped_record(tumor, normal or "", chrom, str(start), str(end))))
        else:
            c = rng.choice([chrom, chrom, None])
            s = rng.choice([start, start, None])
            e = rng.choice([end, end, None]) if s is not None else None
            objs.append(("loc", SC.Loc(c, s, e)))
    return objs


def compare_impl(a, b, order, contigs):
    so = SC.order_obj(order, contigs)
    f = so.sort_key()
    try:
        ka, kb = f(a), f(b)
    except Exception as e:  # noqa
        return {"keyerr": exc_name(e)}
    res = {}
    import operator
    for name, op in [("lt", operator.lt), ("le", operator.le), ("gt", operator.gt), ("ge", operator.ge),
                     ("eq", operator.eq), ("ne", operator.ne)]:
        try:
            res[name] = bool(op(ka, kb))
        except Exception as e:  # noqa
            res[name] = exc_name(e)
    try:
        res["cmp"] = ka.__cmp__(kb)
    except Exception as e:  # noqa
        res["cmp"] = exc_name(e)
    return res


def eval_pair(ka, a, kb, b, order, cs, la=None, lb=None):
    """One comparison on the implementation and the oracle's verdict on it (shared by run and replay_case).

    Returns (implementation's answer, where, failures, tag); tag is "contig-missing", "key-failed" or the documented cmp."""
    la = SC.loc_json(a) if la is None else la
    lb = SC.loc_json(b) if lb is None else lb
    i = compare_impl(a, b, order, cs)
    where = {"order": order, "contigs": cs, "a": la, "b": lb, "kinds": [ka, kb]}
    fails = []
    # oracle: well-formed inputs never fail, and agree with the documented order
    missing_contig = bool(cs) and any(x["chr"] is None or str(x["chr"]) not in cs for x in (la, lb))
    if missing_contig:
        if i.get("keyerr") != "ValueError":
            fails.append(dict(where, what="chromosome missing from the contig list is not reported as ValueError",
                              kind="contig-missing", got=i))
        return i, where, fails, "contig-missing"
    if "keyerr" in i:
        fails.append(dict(where, what="building a key failed on well-formed coordinates", kind="key-failed", got=i))
        return i, where, fails, "key-failed"
    want = expected_cmp(la, lb, order, cs)
    exp = {"lt": want < 0, "le": want <= 0, "gt": want > 0, "ge": want >= 0, "eq": want == 0, "ne": want != 0, "cmp": want}
    bad = [k for k in exp if i.get(k) != exp[k]]
    if bad:
        fails.append(dict(where, what="comparison disagrees with the documented order on %s" % bad,
                          kind="wrong-order" if not any(isinstance(i.get(k), str) for k in bad) else "compare-failed",
                          expected=exp, got=i))
    return i, where, fails, want


def run(ctx):
    out = Outcome()
    out.rule = ("pairs and triples of typed records, scheme-less records and plain locatables over present/missing/equal/less/greater "
                "components x both orders x contig list absent/lexical/karyotypic; all six operators; non-trivial = keys differ in a "
                "non-leading component or involve a missing value or mixed typed/untyped; distinct (a,b,order,contigs)")
    rng = ctx.rng("keys")
    objs = make_objs(rng, ctx.scale(40, 140))
    contig_sets = [[], ["1", "2", "10", "X", "chr1", "chr2", "chr10"], ["10", "2", "1", "X", "chr10", "chr2", "chr1"]]
    reqs, meta = [], []
    pairs = [(a, b) for a in objs for b in objs]
    rng.shuffle(pairs)
    pairs = pairs[:ctx.scale(900, 9000)]
    for (ka, a), (kb, b) in pairs:
        for order in ("Coordinate", "BarcodesAndCoordinate"):
            if order == "BarcodesAndCoordinate" and "loc" in (ka, kb):
                continue   # plain locatables have no barcodes (record.value is a MafRecord method)
            cs = rng.choice(contig_sets)
            la, lb = SC.loc_json(a), SC.loc_json(b)
            reqs.append({"op": "sortkey.cmp", "order": order, "contigs": cs, "a": la, "b": lb})
            meta.append((ka, kb, a, b, order, cs, la, lb))
    mo = ctx.driver.run(reqs)
    for r, m, (ka, kb, a, b, order, cs, la, lb) in zip(reqs, mo, meta):
        out.evaluations += 1
        i, where, fails, tag = eval_pair(ka, a, kb, b, order, cs, la, lb)
        if has_unmodelled(m):
            out.unmodelled += 1
        elif m != i:
            out.disagreements.append({"op": "sortkey.cmp", "request": r, "model": m, "impl": i})
        out.failures += fails
        if tag == "contig-missing":
            out.distribution["contig-missing"] += 1
            continue
        if tag == "key-failed":
            continue
        want = tag
        out.distribution["cmp:%d" % want] += 1
        if want != 0 or ka != kb:
            out.nontrivial.add(repr((la, lb, order, cs)))
        if len(out.samples) < 4 and ka != kb:
            out.sample(where)
    return out


def rebuild(kind, l):
    """The object of a stored case from its kind and the components a sort order reads from it."""
    if kind == "typed":
        return SC.typed_record(None, l["tumor"], l["normal"], None if l["chr"] is None else str(l["chr"]), l["start"], l["stop"])
    if kind == "untyped":
        return SC.untyped_record(l["tumor"], l["normal"], l["chr"], l["start"], l["stop"])
    if kind == "loc":
        return SC.Loc(l["chr"], l["start"], l["stop"])
    return None


def replay_case(ctx, failure):
    """Re-evaluate the stored failing input on the current implementation; return the list of failure dicts it
    produces now (empty list = the property holds on that input)."""
    need = ("a", "b", "kinds", "order", "contigs")
    if any(k not in failure for k in need) or len(failure["kinds"]) != 2:
        return None
    (ka, kb), order, cs = failure["kinds"], failure["order"], list(failure["contigs"] or [])
    a, b = rebuild(ka, failure["a"]), rebuild(kb, failure["b"])
    if a is None or b is None:
        return None
    la, lb = SC.loc_json(a), SC.loc_json(b)
    print("case: %s(%s) vs %s(%s) under %s, contigs=%s" % (ka, json.dumps(la, sort_keys=True), kb, json.dumps(lb, sort_keys=True), order, cs or "none"))
    for name, now, then in (("a", la, failure["a"]), ("b", lb, failure["b"])):
        if now != then:
            print("note: rebuilt %s reads as %s on this tree (stored: %s)" % (name, json.dumps(now, sort_keys=True), json.dumps(then, sort_keys=True)))
    i, where, fails, tag = eval_pair(ka, a, kb, b, order, cs, la, lb)
    print("implementation: %s" % json.dumps(i, sort_keys=True))
    if isinstance(tag, int):
        print("documented order: cmp=%d" % tag)
    else:
        print("oracle: %s" % ("a chromosome is not in the contig list: ValueError expected" if tag == "contig-missing" else "building a key must not fail"))
    try:
        m = ctx.driver.run([{"op": "sortkey.cmp", "order": order, "contigs": cs, "a": la, "b": lb}])[0]
        print("model: %s%s" % (json.dumps(m, sort_keys=True), "" if m == i or has_unmodelled(m) else "   (differs from the implementation)"))
    except Exception as e:  # noqa
        print("model: not available (%s)" % str(e)[:200])
    for f in fails:
        print("oracle fails: %s" % f["what"])
    return fails


def search(ctx):
    return run(ctx)

