"""C13 - header lines are parsed, diagnosed and printed faithfully."""
import copy

from .. import filecases, impl
from ..common import exc_name, has_unmodelled
from ..runner import Outcome

LEVEL = "proof"
ASSUMPTIONS = ["independence of a derived header (deepcopy) is an aliasing property of Python objects: checked by mutate-and-observe on the implementation, not modelled in Lean"]
ORDERS = ["Unknown", "Unsorted", "BarcodesAndCoordinate", "Coordinate"]
WS = " \t\n\r\x0b\x0c\x1c\x1d\x1e\x1f\x85\xa0                　"


def classify(line):
    """The pragma grammar, written directly: (error type | None, key, value)."""
    if not line.startswith("#"):
        return "HEADER_LINE_MISSING_START_SYMBOL", None, None
    rest = line[1:]
    if " " not in rest:
        return "HEADER_LINE_MISSING_SEPARATOR", None, None
    key, value = rest.split(" ", 1)
    value = value.rstrip(WS)
    if key == "":
        return "HEADER_LINE_EMPTY_KEY", None, None
    if value == "":
        return "HEADER_LINE_EMPTY_VALUE", None, None
    if key == "sort.order" and value not in ORDERS:
        return "HEADER_UNSUPPORTED_SORT_ORDER", None, None
    return None, key, value


def expected_parse(lines):
    kept, errors = [], []
    seen = set()
    for n, l in enumerate(lines, start=1):
        err, key, value = classify(l)
        if err:
            errors.append([err, n])
        elif key in seen:
            errors.append(["HEADER_DUPLICATE_KEYS", n])
        else:
            seen.add(key)
            kept.append((key, value))
    return kept, errors


def header_validation_rules(kept, scheme_found_basic, sv, sa):
    """The header-level checks as a decision table."""
    d = dict(kept)
    errs = []
    if "version" not in d:
        errs.append("HEADER_MISSING_VERSION")
    elif d["version"] not in sv:
        errs.append("HEADER_UNSUPPORTED_VERSION")
    if scheme_found_basic:
        if "annotation.spec" in d:
            errs.append("HEADER_UNSUPPORTED_ANNOTATION_SPEC")
    else:
        if "annotation.spec" not in d:
            errs.append("HEADER_MISSING_ANNOTATION_SPEC")
        elif d["annotation.spec"] not in sa:
            errs.append("HEADER_UNSUPPORTED_ANNOTATION_SPEC")
    return errs


def gen_lines(rng):
    lines = filecases.header_lines(rng, rng.randrange(0, 7))
    # extra grammar corners: inner / trailing blanks, the four special keys with odd values
    if rng.random() < 0.4:
        k = rng.choice(["version", "annotation.spec", "sort.order", "contigs", "k", "a.b"])
        v = rng.choice(["gdc-1.0.0", "gdc-1.0.0 ", " x", "a b  c", "Coordinate ", "coordinate", "1,2,,3", ",", "a, b", "x\t", "é"])
        lines.insert(rng.randrange(len(lines) + 1), "#%s %s" % (k, v))
    return lines


def supported():
    from maflib.scheme_factory import all_schemes
    return [s.version() for s in all_schemes()], [s.annotation_spec() for s in all_schemes()]


def eval_lines(lines, sv, sa):
    """One sequence of header lines on the implementation + the property's oracle (parse exactness, print->parse,
    accessors, header-level rules).  Returns a dict: failures, kept, errors (the grammar's answer), complete (False when
    an early failure ended the evaluation), and what the implementation returned (got_kept, got_errs, printed)."""
    from maflib.header import MafHeader
    from maflib.scheme_factory import find_scheme
    from maflib.validation import ValidationStringency as VS
    h = MafHeader.from_lines(lines, validation_stringency=VS.Silent)
    where = {"lines": lines}
    kept, errors = expected_parse(lines)
    got_kept = [(k, str(h[k])[len(k) + 2:]) for k in h]
    got_errs = [[e.tpe.name, e.line_number] for e in h.validation_errors if e.line_number is not None]
    res = {"failures": [], "kept": kept, "errors": errors, "complete": False, "got_kept": got_kept, "got_errs": got_errs,
           "got_header_errs": [e.tpe.name for e in h.validation_errors if e.line_number is None], "printed": None}
    failures = res["failures"]
    if got_kept != kept:
        failures.append(dict(where, what="kept pragmas differ from the grammar (key, value, position; first of duplicates)", kind="parse",
                             expected=kept, got=got_kept))
        return res
    if got_errs != errors:
        failures.append(dict(where, what="diagnosed lines differ (category / 1-based line number)", kind="diagnose", expected=errors, got=got_errs))
        return res
    # print -> parse identity
    text = str(h)
    lines2 = text.split("\n") if text else []
    res["printed"] = lines2
    h2 = MafHeader.from_lines(lines2, validation_stringency=VS.Silent)
    if [(k, str(h2[k])) for k in h2] != [(k, str(h[k])) for k in h] or [e for e in h2.validation_errors if e.line_number is not None]:
        failures.append(dict(where, what="printing the parsed header and parsing it again is not the identity", kind="print-parse",
                             printed=lines2, reparsed=[(k, str(h2[k])) for k in h2],
                             errors=[[e.tpe.name, e.line_number] for e in h2.validation_errors]))
        return res
    if str(h2) != text:
        failures.append(dict(where, what="printing is not stable", kind="print-parse"))
    # accessors
    d = dict(kept)
    acc_bad = []
    if h.version() != d.get("version"):
        acc_bad.append("version")
    if h.annotation() != d.get("annotation.spec"):
        acc_bad.append("annotation")
    if (h.contigs() or None) != (d["contigs"].split(",") if "contigs" in d else None):
        acc_bad.append("contigs")
    if h.sort_order().name() != d.get("sort.order", "Unsorted"):
        acc_bad.append("sort_order")
    so = h.sort_order()
    want_contigs = d["contigs"].split(",") if ("contigs" in d and d.get("sort.order") in ("Coordinate", "BarcodesAndCoordinate")) else []
    if list(getattr(so, "_contigs", []) or []) != want_contigs:
        acc_bad.append("sort_order contigs")
    if acc_bad:
        failures.append(dict(where, what="accessors do not reflect the pragmas: %s" % acc_bad, kind="accessor"))
    # header-level rules
    try:
        sch = find_scheme(version=d.get("version"), annotation=d.get("annotation.spec"))
    except ValueError:
        sch = None
    want = header_validation_rules(kept, sch is not None and sch.is_basic(), sv, sa)
    got = res["got_header_errs"]
    res["want_header_errs"] = want
    if got != want:
        failures.append(dict(where, what="header-level checks differ from the documented rules", kind="rules", expected=want, got=got))
    res["complete"] = True
    return res


def run(ctx):
    out = Outcome()
    out.rule = ("sequences of header lines over the pragma grammar (start symbol, key, single-space separator, values with inner/trailing blanks, the four special keys with "
                "recognised / unrecognised values, duplicates anywhere); parse exactness vs a direct grammar, print->parse identity, accessors, header-level rules, "
                "derived-header independence; every constructor / reader path (from_lines, from_line_reader over text handles with LF / CRLF and over a file, MafReader over lines, "
                "MafReader.reader_from on a plain and a gzip file, from_reader) must give the same header for the same lines in every validation mode; edit histories "
                "(set / update / setdefault / del / pop / popitem / clear / in-place value edits of version, annotation.spec, sort.order, contigs and ordinary keys, failing edits included) "
                "on headers from from_lines, a reader, from_reader (with overrides), from_defaults and from_line_reader, observed after random steps: the header must say what a header "
                "freshly parsed from its own printed lines says; non-trivial = at least one kept pragma and one diagnosed line or a special key; distinct line sequences / histories")
    rng = ctx.rng("hdr")
    sv, sa = supported()
    reqs = []
    for _ in range(ctx.scale(1200, 15000)):
        lines = gen_lines(rng)
        out.evaluations += 1
        reqs.append({"op": "hdr.lines", "lines": lines, "mode": "Silent"})
        res = eval_lines(lines, sv, sa)
        out.failures += res["failures"]
        if not res["complete"]:
            continue
        kept, errors = res["kept"], res["errors"]
        if kept and (errors or any(k in ("version", "annotation.spec", "sort.order", "contigs") for k, _ in kept)):
            out.nontrivial.add(repr(lines))
        if len(out.samples) < 4 and errors and kept:
            out.sample({"lines": lines, "kept": kept, "errors": errors})
    derived_header_cases(ctx, out, rng)
    for sym in ("@", "%", "!"):
        out.evaluations += 1
        out.failures += eval_start_symbol(sym)
        out.distribution["another header start symbol configured"] += 1
        out.nontrivial.add(("start-symbol", sym))
    out.evaluations += 1
    out.failures += eval_empty_basic_scheme()
    out.distribution["registered basic scheme without columns"] += 1
    out.nontrivial.add(("empty-basic-scheme",))
    out.evaluations += 1
    out.failures += eval_app_sort_order()
    out.distribution["header parsed before / after the application defines a sort order class"] += 1
    out.nontrivial.add(("app-sort-order",))
    reqs += constructor_cases(ctx, out)      # the same lines in their validation mode, for the model
    edit_reqs = edit_history_cases(ctx, out)
    mo = ctx.driver.run(reqs)
    for r, m in zip(reqs, mo):
        i = impl.run(r)
        if has_unmodelled(m):
            out.unmodelled += 1
        elif m != i:
            out.disagreements.append({"op": "hdr.lines", "lines": r["lines"], "mode": r.get("mode"),
                                      "differs": [k for k in sorted(set(m) | set(i)) if m.get(k) != i.get(k)]})
    # the model's header for the printed lines of an edited header against what the edited header itself says
    if edit_reqs:
        mo = ctx.driver.run([r for r, _i in edit_reqs])
        for (r, i), m in zip(edit_reqs, mo):
            if has_unmodelled(m):
                out.unmodelled += 1
                continue
            mh = m.get("header", {}) if isinstance(m, dict) else {}
            mine = {"records": mh.get("records"), "version": mh.get("version"), "annotation": mh.get("annotation"),
                    "sort_order": mh.get("sort_order"), "contigs": mh.get("contigs"), "scheme": m.get("scheme") if isinstance(m, dict) else None,
                    "checks": [e[0] for e in mh.get("errors", [])] if isinstance(mh.get("errors"), list) else None}
            if mine != i:
                out.disagreements.append({"op": "hdr.lines(printed lines of an edited header)", "lines": r["lines"],
                                          "differs": [k for k in sorted(mine) if mine.get(k) != i.get(k)], "model": mine, "impl": i})
    return out


def ranking(h):
    """How the header's sort order ranks the names of its contig list plus two strangers, observed through the keys it
    builds (None: the order builds no keys)."""
    from .. import sortcases as SC
    so = h.sort_order()
    try:
        keyf = so.sort_key()
    except NotImplementedError:
        return None
    names = [str(c) for c in (h.contigs() or [])] + ["chrZ", "chrQ", "chr1"]
    keyed, unknown = [], []
    for c in dict.fromkeys(names):
        try:
            keyed.append((keyf(SC.untyped_record("T", "N", c, "1", "1")), c))
        except ValueError:
            unknown.append(c)
    import functools
    keyed.sort(key=functools.cmp_to_key(lambda a, b: -1 if a[0] < b[0] else (1 if b[0] < a[0] else 0)))
    return {"order": [c for _k, c in keyed], "unknown": sorted(unknown)}


def snapshot(h):
    so = h.sort_order()
    return {"str": str(h), "keys": list(h), "errors": [(e.tpe.name, e.line_number) if hasattr(e, "tpe") else repr(e) for e in h.validation_errors],
            "version": h.version(), "annotation": h.annotation(), "contigs": copy.deepcopy(h.contigs()),
            "sort": so.name(), "sort_contigs": list(getattr(so, "_contigs", []) or []), "ranking": ranking(h)}


MUTATIONS = ["set", "del", "inplace-value", "inplace-key", "contigs-append", "errors", "sort-contigs"]
NEEDS_KEY = ("del", "inplace-value", "inplace-key")


def eval_derived(lines, args, next_step):
    """A header derived from a reader (MafHeader.from_reader with the overrides named in `args`) is mutated step by step;
    the reader's own header must not change.  `next_step(d)` is asked for the next mutation with the derived header in its
    current state and answers {"m": mutation, "key": pragma key it applies to (del / inplace-*) or None} or None when done
    (run draws the steps from its random stream, replay_case reads them from the stored failure).
    Returns (steps, failures)."""
    from maflib.header import MafHeader, MafHeaderRecord
    from maflib.reader import MafReader
    from maflib.sort_order import Coordinate
    reader = MafReader(lines=lines + ["a\tb"])
    if "keyed-before" in args:
        try:
            reader.header().sort_order().sort_key()        # the reader's order has been asked for its key function (iterating does that)
        except NotImplementedError:
            pass
    before = snapshot(reader.header())
    kw = {}
    if "version" in args:
        kw["version"] = "gdc-2.0.0"
    if "contigs" in args:
        kw["contigs"] = ["1", "2"]
    if "sort_order" in args:
        kw["sort_order"] = Coordinate()
    d = MafHeader.from_reader(reader, **kw)
    steps = []
    while True:
        st = next_step(d)
        if st is None:
            break
        steps.append(st)
        m, key = st["m"], st.get("key")
        try:
            if m == "set":
                d["center"] = MafHeaderRecord("center", "other")
            elif m == "del":
                if key is None:
                    raise IndexError("nothing to delete")
                del d[key]
            elif m == "inplace-value":
                if key is None:
                    raise IndexError("no pragma")
                if isinstance(d[key].value, str):
                    d[key].value = "changed"
            elif m == "inplace-key":
                if key is None:
                    raise IndexError("no pragma")
                d[key].key = "renamed"
            elif m == "contigs-append" and d.contigs() is not None:
                d.contigs().append("chrZ")
            elif m == "errors":
                d.validation_errors.append("x")
            elif m == "sort-contigs":
                so = d.sort_order()
                if getattr(so, "_contigs", None) is not None:
                    so._contigs.append("chrQ")
        except Exception:  # noqa
            pass
    after = snapshot(reader.header())
    failures = []
    # the derived header's accessors reflect the derived header's own pragmas: its order ranks by its own contig list
    try:
        dr, dc = ranking(d), d.contigs()
    except Exception:  # noqa
        dr, dc = None, None
    if dr is not None and dc and all(isinstance(c, str) for c in dc) and len(set(dc)) == len(dc):
        want = [c for c in dc]
        got = [c for c in dr["order"] if c in dc]
        if got != want and d.sort_order().name() in ("Coordinate", "BarcodesAndCoordinate") and list(getattr(d.sort_order(), "_contigs", []) or []) == list(dc):
            failures.append({"what": "the derived header's sort order does not rank chromosomes by the derived header's own contig list", "kind": "derived-ranking",
                             "lines": lines, "from_reader_args": sorted(kw), "args": list(args), "mutations": [st["m"] for st in steps], "steps": steps,
                             "contigs": list(dc), "ranked": dr["order"]})
    if after != before:
        failures.append({"what": "mutating a header derived from a reader changed the reader's own header", "kind": "derived-aliasing",
                         "lines": lines, "from_reader_args": sorted(kw), "args": list(args), "mutations": [st["m"] for st in steps], "steps": steps,
                         "changed": [k for k in before if before[k] != after[k]],
                         "before": {k: before[k] for k in before if before[k] != after[k]},
                         "after": {k: after[k] for k in before if before[k] != after[k]}})
    return steps, failures


_APP_ORDER = {}


def eval_app_sort_order():
    """What the header grammar recognises is the library's, not the application's: the same lines parse the same way before
    and after the application has defined a sort order of its own (a sub-class of Coordinate).  The first call in a
    process parses, defines the class, parses again; later calls compare with that first parse."""
    from maflib.header import MafHeader
    from maflib.sort_order import Coordinate
    from maflib.validation import ValidationStringency as VS
    lines = ["#version gdc-1.0.0", "#annotation.spec gdc-1.0.0", "#sort.order AppReverseCoordinate", "#sort.order Unknown"]

    def look():
        with impl.LogCapture():
            h = MafHeader.from_lines(list(lines), validation_stringency=VS.Silent)
        return {"errors": impl.errs_json(h.validation_errors), "printed": str(h), "sort_order": type(h.sort_order()).__name__}
    if "before" not in _APP_ORDER:
        _APP_ORDER["before"] = look()

        class AppReverseCoordinate(Coordinate):
            @classmethod
            def name(cls):
                return "AppReverseCoordinate"
        _APP_ORDER["cls"] = AppReverseCoordinate
    after = look()
    if after != _APP_ORDER["before"]:
        return [{"kind": "app-sort-order", "lines": lines, "before": _APP_ORDER["before"], "after": after,
                 "what": "the same header lines are parsed, diagnosed or printed differently once the application has defined a SortOrder sub-class of its own (differs on %s)" % (
                     [k for k in after if after[k] != _APP_ORDER["before"][k]])}]
    return []


def eval_start_symbol(sym):
    """The character that starts a header line is one class-level setting (MafHeader.HeaderLineStartSymbol): with another
    symbol configured, parsing and printing still invert each other for every kind of pragma."""
    from maflib.header import MafHeader
    from maflib.validation import ValidationStringency as VS
    lines = [sym + "version gdc-1.0.0", sym + "annotation.spec gdc-1.0.0-public", sym + "sort.order Coordinate", sym + "contigs chr1,chr2,chr10", sym + "center broad"]
    where = {"kind": "start-symbol", "symbol": sym, "lines": lines}
    saved = MafHeader.HeaderLineStartSymbol
    MafHeader.HeaderLineStartSymbol = sym
    try:
        with impl.LogCapture():
            h = MafHeader.from_lines(list(lines), validation_stringency=VS.Silent)
            errs = impl.errs_json(h.validation_errors)
            printed = str(h).split("\n")
            h2 = MafHeader.from_lines(list(printed), validation_stringency=VS.Silent)
            errs2 = impl.errs_json(h2.validation_errors)
        if errs:
            return [dict(where, what="with the start symbol %r configured, well-formed lines starting with it are diagnosed: %s" % (sym, errs))]
        if printed != lines:
            return [dict(where, what="with the start symbol %r configured, printing does not give back the parsed lines: %s" % (sym, [p for p in printed if p not in lines]))]
        if errs2 or h2.contigs() != h.contigs() or [(k, str(h2[k])) for k in h2] != [(k, str(h[k])) for k in h]:
            return [dict(where, what="with the start symbol %r configured, the printed header does not parse back to the same header (%s)" % (sym, errs2))]
    except Exception as e:  # noqa
        return [dict(where, what="with the start symbol %r configured, parsing / printing failed with %s" % (sym, exc_name(e)))]
    finally:
        MafHeader.HeaderLineStartSymbol = saved
    return []


def eval_empty_basic_scheme():
    """A registered basic scheme (annotation = version) that declares no columns of its own is a basic scheme like any
    other: a header naming it is diagnosed exactly as a header naming the built-in basic scheme (fresh interpreter)."""
    from . import c20
    base = {"version": "acme-1.0", "annotation": "acme-1.0", "extends": None, "filtered": None, "columns": []}
    full = {"version": "acme-1.0", "annotation": "acme-1.0-full", "extends": "acme-1.0", "filtered": None, "columns": [["note", "NullableStringColumn"]]}
    shapes = [["#version %s"], ["#version %s", "#annotation.spec %s"], ["#annotation.spec %s"]]
    ops = [{"k": "register", "defs": [base, full]}]
    for name in ("acme-1.0", "gdc-1.0.0"):
        for sh in shapes:
            ops.append({"k": "header", "lines": [l % name for l in sh], "mode": "Silent"})
    res = c20.run_history({"ops": ops, "late_import": False})
    where = {"kind": "empty-basic-scheme", "lines": []}
    if "crash" in res or res["steps"][0].get("exc") is not None:
        return []           # (the definition set is refused: nothing to compare)
    st = res["steps"][1:]
    for k, sh in enumerate(shapes):
        a, b = st[k].get("errors"), st[len(shapes) + k].get("errors")
        if a is None or b is None or [e[0] for e in a] != [e[0] for e in b]:
            return [dict(where, lines=[l % "acme-1.0" for l in sh],
                         what="a header naming the registered basic scheme acme-1.0 (no columns of its own) is diagnosed %s, the same header naming the built-in basic scheme %s" % (a, b))]
    return []


def derived_header_cases(ctx, out, rng):
    """A header derived from a reader is independent of the reader's own header."""
    for _ in range(ctx.scale(150, 1500)):
        lines = filecases.typical_header(rng, rng.choice(["gdc-1.0.0", "gdc-1.0.0-public"]),
                                         sort=rng.choice([None, "Coordinate", "BarcodesAndCoordinate"]),
                                         contigs=rng.choice([None, ["chr1", "chr2"]])) + ["#center x", "#note y z"]
        out.evaluations += 1
        args = []
        if rng.random() < 0.3:
            args.append("version")
        if rng.random() < 0.3:
            args.append("contigs")
        if rng.random() < 0.3:
            args.append("sort_order")
        if rng.random() < 0.5:
            args.append("keyed-before")
        left = [rng.randrange(1, 5)]

        def next_step(d):
            if left[0] == 0:
                return None
            left[0] -= 1
            m = rng.choice(MUTATIONS)
            key = None
            if m in NEEDS_KEY:
                try:
                    key = rng.choice(list(d))
                except IndexError:          # nothing left in the derived header
                    key = None
            return {"m": m, "key": key}
        steps, failures = eval_derived(lines, args, next_step)
        out.failures += failures
        out.nontrivial.add(("derived", repr(lines), tuple(st["m"] for st in steps)))


# ----------------------------------------------------------------- every constructor gives the same header
CTOR_PATHS = ["line_reader:lf", "line_reader:crlf", "line_reader:file", "reader", "reader:eol", "reader_from", "reader_from:gz", "from_reader"]
FILE_PATHS = ("line_reader:file", "reader_from", "reader_from:gz")
COLUMN_LINE = "c1\tc2"


def scheme_id(sch):
    return None if sch is None else [sch.version(), sch.annotation_spec()]


def full_snapshot(h):
    d = snapshot(h)
    d["errors"] = [list(e) if isinstance(e, tuple) else e for e in d["errors"]]
    d["records"] = [[k, str(h[k])] for k in h]
    try:
        d["scheme"] = scheme_id(h.scheme())
    except Exception as e:  # noqa
        d["scheme"] = "EXC:" + exc_name(e)
    return d


def header_part(lines):
    """The header of a file is its leading run of lines starting with the start symbol."""
    out = []
    for l in lines:
        if not l.startswith("#"):
            break
        out.append(l)
    return out


def build_by(path, lines, mode):
    """The header the constructor / reader path `path` gives for a file consisting of `lines`, a column line and one record."""
    import gzip
    import io
    import os
    import tempfile
    from maflib.header import MafHeader
    from maflib.reader import MafReader
    from maflib.util import LineReader
    vs = impl.MODES[mode]
    body = lines + [COLUMN_LINE, "a\tb"]
    tmp = None
    try:
        if path in FILE_PATHS:
            gz = path.endswith(":gz")
            fd, tmp = tempfile.mkstemp(suffix=".maf.gz" if gz else ".maf", prefix="verif_c13_")
            os.close(fd)
            text = "".join(l + "\n" for l in body)
            if gz:
                with gzip.open(tmp, "wt") as hd:
                    hd.write(text)
            else:
                with open(tmp, "w") as hd:
                    hd.write(text)
        if path == "from_lines":
            return MafHeader.from_lines(header_part(lines), validation_stringency=vs)
        if path.startswith("line_reader"):
            if path == "line_reader:file":
                handle = open(tmp, "r")
            else:
                eol = "\r\n" if path.endswith("crlf") else "\n"
                handle = io.StringIO("".join(l + eol for l in body), newline="")
            try:
                return MafHeader.from_line_reader(LineReader(handle), validation_stringency=vs)
            finally:
                handle.close()
        if path.startswith("reader_from"):
            rd = MafReader.reader_from(tmp, validation_stringency=vs)
            try:
                return rd.header()
            finally:
                rd.close()
        rd = MafReader(lines=[l + "\n" for l in body] if path == "reader:eol" else list(body), validation_stringency=vs)
        if path == "from_reader":
            return MafHeader.from_reader(rd)
        return rd.header()
    finally:
        if tmp is not None:
            try:
                os.unlink(tmp)
            except OSError:
                pass


def eval_ctors(lines, mode, paths):
    """The same lines through MafHeader.from_lines and through every other constructor / reader path in `paths`.
    In Strict mode a reader may raise on something after the header (its own checks): only the header is compared, and only
    when both sides produced one or both failed on the header.  Returns (reference, failures)."""
    def get(path):
        with impl.LogCapture():
            try:
                return full_snapshot(build_by(path, lines, mode))
            except UnicodeEncodeError:
                return None
            except Exception as e:  # noqa
                return {"exc": exc_name(e)}
    ref = get("from_lines")
    failures = []
    for path in paths:
        got = get(path)
        if got is None:
            continue
        if mode == "Strict" and ("exc" in got) != ("exc" in ref) and not path.startswith("line_reader"):
            # a Strict MafReader also raises for what follows the header (column names / scheme): not this property
            if "exc" in got and "exc" not in ref and not ref["errors"]:
                continue
        if got != ref:
            failures.append({"what": "%s gives a different header than MafHeader.from_lines for the same lines" % path, "kind": "constructors",
                             "lines": lines, "mode": mode, "path": path,
                             "differs": sorted(k for k in set(ref) | set(got) if ref.get(k) != got.get(k)),
                             "from_lines": {k: ref.get(k) for k in set(ref) | set(got) if ref.get(k) != got.get(k)},
                             "got": {k: got.get(k) for k in set(ref) | set(got) if ref.get(k) != got.get(k)}})
    return ref, failures


def constructor_cases(ctx, out):
    rng = ctx.rng("hdr", "constructors")
    reqs = []
    for n in range(ctx.scale(400, 6000)):
        lines = gen_lines(rng)
        if rng.random() < 0.15:
            # a line that does not start the header symbol ends the header for every reader
            lines.insert(rng.randrange(len(lines) + 1), rng.choice(["", "x y", "a\tb", " #k v"]))
        if any("\n" in l or "\r" in l for l in lines):
            continue
        mode = rng.choice(["Silent", "Silent", "Silent", "Lenient", "Strict", None])
        paths = [p for p in CTOR_PATHS if p not in FILE_PATHS or n % 4 == 0]
        if any(not l.startswith("#") for l in lines):
            paths = [p for p in paths if p.startswith("line_reader")]     # for a MafReader such a line is the column line
        out.evaluations += 1
        ref, failures = eval_ctors(lines, mode, paths)
        out.failures += failures
        if mode not in (None, "Silent"):
            reqs.append({"op": "hdr.lines", "lines": header_part(lines), "mode": mode})
        for p in paths:
            out.distribution["ctor:" + p] += 1
        if "exc" not in ref and ref["records"] and ref["errors"]:
            out.nontrivial.add(("ctor", repr(lines), mode))
    return reqs


# ----------------------------------------------------------------- edit histories: the header says what its pragmas say
SPECIAL = ["version", "annotation.spec", "sort.order", "contigs"]
VALUES = {"version": ["gdc-1.0.0", "gdc-2.0.0", "no-version", "v9"],
          "annotation.spec": ["gdc-1.0.0-public", "gdc-1.0.0-protected", "gdc-2.0.0-aliquot", "gdc-1.0.0", "no-annotation-specification", "nothing-known"],
          "sort.order": ORDERS,
          "contigs": ["chr1,chr2", "1,2,10,X", "a"],
          "center": ["x", "a b  c"], "note": ["y z", "n"]}
STARTS = ["from_lines", "reader", "from_reader", "from_defaults", "from_line_reader"]


def make_record(key, value, form):
    """A header record for `key` = `value` (text): parsed from its line, built with the key's own record class, or a plain
    MafHeaderRecord (version / annotation.spec / ordinary keys, whose value is the text itself)."""
    from maflib import header as H
    if form == "parsed":
        rec, err = H.MafHeaderRecord.from_line("#%s %s" % (key, value))
        assert err is None
        return rec
    if form == "class":
        if key == "version":
            return H.MafHeaderVersionRecord(value=value)
        if key == "annotation.spec":
            return H.MafHeaderAnnotationSpecRecord(value=value)
        if key == "sort.order":
            return H.MafHeaderSortOrderRecord(value=value)
        if key == "contigs":
            return H.MafHeaderContigRecord(value=value.split(","))
    if key in ("sort.order", "contigs"):
        return make_record(key, value, "parsed")
    return H.MafHeaderRecord(key, value)


def start_header(start):
    """The header an edit history starts from, and the reader it was derived from (or None)."""
    from maflib.header import MafHeader
    from maflib.reader import MafReader
    from maflib.sort_order import SortOrder
    ctor, lines, args = start["ctor"], list(start.get("lines", [])), start.get("args", {})
    kw = {k: v for k, v in args.items() if k in ("version", "annotation")}
    if args.get("contigs"):
        kw["contigs"] = list(args["contigs"])
    if args.get("sort_order"):
        cls = [so for so in SortOrder.all() if so.name() == args["sort_order"]][0]
        kw["sort_order"] = cls(contigs=list(args["sort_contigs"])) if args.get("sort_contigs") else cls()
    if ctor == "from_lines":
        return MafHeader.from_lines(lines), None
    if ctor == "from_line_reader":
        return build_by("line_reader:lf", lines, "Silent"), None
    if ctor == "from_defaults":
        return MafHeader.from_defaults(**kw), None
    reader = MafReader(lines=lines + [COLUMN_LINE, "a\tb"])
    if ctor == "reader":
        return reader.header(), None
    return MafHeader.from_reader(reader, **kw), reader


def says(h):
    """What a header says through its accessors and header-level checks (every call guarded: an accessor that raises is an answer too)."""
    from maflib.validation import ValidationStringency as VS
    out = {}

    def call(name, f):
        try:
            out[name] = f()
        except Exception as e:  # noqa
            out[name] = "EXC:" + exc_name(e)
    call("records", lambda: [[k, str(h[k])] for k in h])
    call("version", h.version)
    call("annotation", h.annotation)
    call("sort_order", lambda: h.sort_order().name())
    call("contigs", lambda: None if h.contigs() is None else list(h.contigs()))
    call("scheme", lambda: (lambda sc: None if sc is None else sc.annotation_spec())(h.scheme()))
    call("checks", lambda: [e.tpe.name for e in h.validate(validation_stringency=VS.Silent)])
    return out


def like_fresh(h):
    """The oracle for an edited / assembled header: it says what a header freshly parsed from its own printed lines says
    (and those lines parse back to the same pragmas without a diagnosed line).  Returns (said, fresh, problem | None)."""
    from maflib.header import MafHeader
    said = says(h)
    try:
        text = str(h)
    except Exception as e:  # noqa
        return said, None, "printing the header raises %s" % exc_name(e)
    lines = text.split("\n") if text else []
    fresh_h = MafHeader.from_lines(lines)
    line_errs = [[e.tpe.name, e.line_number] for e in fresh_h.validation_errors if e.line_number is not None]
    fresh = says(fresh_h)
    if line_errs:
        return said, fresh, "the printed header does not parse back: %s" % line_errs
    if said != fresh:
        return said, fresh, "the header differs from a header parsed from its own printed lines on %s" % sorted(k for k in said if said[k] != fresh.get(k))
    return said, fresh, None


def apply_edit(h, st):
    """One edit through the mapping interface or on a stored record; the exception name when it fails."""
    op, key = st["op"], st.get("key")
    try:
        if op == "set":
            rec = make_record(key, st["value"], st.get("form", "parsed"))
            how = st.get("how", "setitem")
            if how == "update":
                h.update({key: rec})
            elif how == "setdefault":
                h.setdefault(key, rec)
            else:
                h[key] = rec
        elif op == "del":
            how = st.get("how", "del")
            if how == "pop":
                h.pop(key)
            else:
                del h[key]
        elif op == "popitem":
            h.popitem()
        elif op == "clear":
            h.clear()
        elif op == "inplace":
            v = st["value"]
            if key == "contigs":
                v = v.split(",")
            elif key == "sort.order":
                v = make_record(key, v, "class").value
            h[key].value = v
        else:
            raise ValueError("unknown edit %r" % (op,))
    except Exception as e:  # noqa
        return exc_name(e)
    return None


def gen_start(rng):
    ctor = rng.choice(STARTS)
    start = {"ctor": ctor}
    if ctor != "from_defaults":
        if rng.random() < 0.7:
            start["lines"] = filecases.typical_header(rng, rng.choice(["gdc-1.0.0", "gdc-1.0.0-public", "gdc-1.0.0-protected", "nothing-known"]),
                                                      sort=rng.choice([None, "Coordinate", "BarcodesAndCoordinate", "Unsorted"]),
                                                      contigs=rng.choice([None, ["chr1", "chr2"]])) + rng.choice([[], ["#center x"], ["#center x", "#note y z"]])
        else:
            start["lines"] = [l for l in gen_lines(rng) if "\n" not in l and "\r" not in l]
    if ctor in ("from_defaults", "from_reader"):
        args = {}
        p = 0.7 if ctor == "from_defaults" else 0.3
        if rng.random() < p:
            args["version"] = rng.choice(VALUES["version"])
        if rng.random() < p * 0.7:
            args["annotation"] = rng.choice(VALUES["annotation.spec"])
        if rng.random() < 0.3:
            args["contigs"] = rng.choice([["1", "2"], ["chr1"]])
        if rng.random() < 0.4:
            args["sort_order"] = rng.choice(ORDERS)
            if args["sort_order"] in ("Coordinate", "BarcodesAndCoordinate") and rng.random() < 0.3:
                args["sort_contigs"] = ["chrA", "chrB"]
        start["args"] = args
    return start


def gen_edit(rng, h):
    present = list(h)
    k = rng.random()
    if k < 0.42:
        key = rng.choice(SPECIAL + SPECIAL + ["center", "note"])
        return {"op": "set", "key": key, "value": rng.choice(VALUES[key]), "form": rng.choice(["parsed", "class", "plain"]),
                "how": rng.choice(["setitem", "setitem", "setitem", "update", "setdefault"])}
    if k < 0.75:
        special = [x for x in present if x in SPECIAL]
        key = rng.choice(special) if special and rng.random() < 0.7 else rng.choice(present) if present and rng.random() < 0.9 else rng.choice(SPECIAL)
        return {"op": "del", "key": key, "how": rng.choice(["del", "del", "pop"])}
    if k < 0.93:
        cand = [x for x in present if x in VALUES]
        if cand:
            key = rng.choice(cand)
            return {"op": "inplace", "key": key, "value": rng.choice(VALUES[key])}
        return {"op": "inplace", "key": "version", "value": "gdc-1.0.0"}
    return {"op": rng.choice(["popitem", "popitem", "clear"])}


def eval_edits(start, next_step, sv=None, sa=None):
    """An edit history on a header built as `start` says.  `next_step(h)` answers the next edit (with "observe": whether the
    header is questioned right after it) or None; the header is always questioned at the end, and its printed lines are then
    judged by the grammar and the header-level rules directly (eval_lines).  Returns a dict: steps (with the exception each
    edit raised), failures, final (what the header says at the end), printed (its lines), fresh (what a fresh parse says)."""
    h, reader = start_header(start)
    before = snapshot(reader.header()) if reader is not None else None
    steps, failures = [], []
    said, fresh, problem = like_fresh(h) if start.get("observe_first", True) else (None, None, None)
    while problem is None:
        st = next_step(h)
        if st is None:
            break
        st = dict(st)
        st["exc"] = apply_edit(h, st)
        steps.append(st)
        if st.get("observe"):
            said, fresh, problem = like_fresh(h)
    if problem is None:
        said, fresh, problem = like_fresh(h)
    base = {"kind": "edited-header", "start": start, "lines": start.get("lines", []), "steps": steps}
    if problem is not None:
        failures.append(dict(base, what=problem,
                             header_says={k: said[k] for k in said if fresh is None or said[k] != fresh.get(k)},
                             fresh_parse_says=None if fresh is None else {k: fresh.get(k) for k in said if said[k] != fresh.get(k)}))
    if before is not None:
        after = snapshot(reader.header())
        if after != before:
            failures.append(dict(base, what="editing a header derived from a reader changed the reader's own header",
                                 changed=[k for k in before if before[k] != after[k]]))
    printed = None
    try:
        text = str(h)
        printed = text.split("\n") if text else []
    except Exception:  # noqa
        pass
    judged = False
    if not failures and printed is not None and all(is_plain_line(l) for l in printed):
        if sv is None:
            sv, sa = supported()
        judged = True
        for f in eval_lines(printed, sv, sa)["failures"]:
            failures.append(dict(base, what="printed lines of the edited header: " + f["what"], printed=printed, inner={k: v for k, v in f.items() if k != "lines"}))
    return {"steps": steps, "failures": failures, "final": said, "fresh": fresh, "printed": printed, "judged": judged}


def edit_history_cases(ctx, out):
    """Headers from every constructor, edited through the mapping interface and in place, must keep saying what their pragmas say."""
    rng = ctx.rng("hdr", "edits")
    sv, sa = supported()
    reqs = []
    for _ in range(ctx.scale(400, 6000)):
        start = gen_start(rng)
        start["observe_first"] = rng.random() < 0.5
        left = [rng.randrange(0, 6)]

        def next_step(h):
            if left[0] == 0:
                return None
            left[0] -= 1
            st = gen_edit(rng, h)
            st["observe"] = rng.random() < 0.4
            return st
        out.evaluations += 1
        res = eval_edits(start, next_step, sv, sa)
        out.failures += res["failures"]
        out.distribution["start:" + start["ctor"]] += 1
        for st in res["steps"]:
            out.distribution["edit:%s%s" % (st["op"], ":failed" if st["exc"] else "")] += 1
        if len([st for st in res["steps"] if st["exc"] is None]) >= 2:
            out.nontrivial.add(("edits", repr(start), repr(res["steps"])))
        if res["judged"] and not res["failures"]:
            reqs.append(({"op": "hdr.lines", "lines": res["printed"], "mode": "Silent"}, res["final"]))
    return reqs


def show_edit(st):
    op, key = st["op"], st.get("key")
    if op == "set":
        rec = {"parsed": "MafHeaderRecord.from_line(%r)" % ("#%s %s" % (key, st["value"])), "class": "<record class of %s>(value=%r)" % (key, st["value"]),
               "plain": "MafHeaderRecord(%r, %r)" % (key, st["value"])}[st.get("form", "parsed")]
        how = st.get("how", "setitem")
        text = "header[%r] = %s" % (key, rec) if how == "setitem" else "header.%s(%s)" % (how, "{%r: %s}" % (key, rec) if how == "update" else "%r, %s" % (key, rec))
    elif op == "del":
        text = "header.pop(%r)" % key if st.get("how") == "pop" else "del header[%r]" % key
    elif op == "inplace":
        text = "header[%r].value = <%r>" % (key, st["value"])
    else:
        text = "header.%s()" % op
    return text + ("   (then questioned)" if st.get("observe") else "")


def is_plain_line(l):
    return "\n" not in l and "\r" not in l


def replay_case(ctx, failure):
    """Re-evaluate the stored lines (and, for a derived header, the stored mutation steps) on the current implementation;
    the failures they produce now ([] = property holds)."""
    lines = failure.get("lines")
    if not isinstance(lines, list):
        return None
    if failure.get("kind") == "start-symbol" and failure.get("symbol"):
        fails = eval_start_symbol(failure["symbol"])
        print("replay C13: MafHeader.HeaderLineStartSymbol = %r; MafHeader.from_lines(%s, Silent); str(header) parsed again" % (failure["symbol"], lines))
        for x in fails:
            print("  oracle: %s" % x["what"])
        return fails
    if failure.get("kind") == "empty-basic-scheme":
        fails = eval_empty_basic_scheme()
        print("replay C13: fresh interpreter; register acme-1.0 (basic, no columns) and acme-1.0-full extending it; headers naming acme-1.0 and gdc-1.0.0 in three shapes compared")
        for x in fails:
            print("  oracle: %s" % x["what"])
        return fails
    if failure.get("kind") == "app-sort-order":
        fails = eval_app_sort_order()
        print("replay C13: MafHeader.from_lines(%s, Silent); then the application defines class AppReverseCoordinate(Coordinate); then the same lines are parsed again" % lines)
        for x in fails:
            print("  oracle: %s\n    before: %s\n    after:  %s" % (x["what"], x["before"], x["after"]))
        return fails
    if failure.get("kind") in ("derived-aliasing", "derived-ranking"):
        steps = failure.get("steps")
        if steps is None or "from_reader_args" not in failure:
            return None                     # written before the mutation steps were stored
        todo = [dict(st) for st in steps]
        got, failures = eval_derived(list(lines), list(failure.get("args") or failure["from_reader_args"]), lambda d: todo.pop(0) if todo else None)
        print("replay C13: MafReader over %r (+ one data line); MafHeader.from_reader(reader%s); mutations of the derived header:" % (
            lines, "".join(", %s=..." % a for a in failure["from_reader_args"])))
        for st in got:
            print("  %s%s" % (st["m"], "" if st.get("key") is None else " %r" % st["key"]))
        if failures:
            for k in failures[0]["changed"]:
                print("  reader's own header, %s: before %r, after %r" % (k, failures[0]["before"][k], failures[0]["after"][k]))
        else:
            print("  implementation: the reader's own header is unchanged")
        for f in failures:
            print("  oracle: %s" % f["what"])
        return failures
    if failure.get("kind") == "constructors":
        path, mode = failure.get("path"), failure.get("mode")
        if path not in CTOR_PATHS or mode not in impl.MODES:
            return None
        ref, failures = eval_ctors(list(lines), mode, [path])
        print("replay C13: a file made of the lines %r (+ a column line and a record), validation mode %s" % (lines, mode))
        print("  MafHeader.from_lines on its header lines: %s" % ({k: ref[k] for k in ("records", "errors", "scheme")} if "exc" not in ref else "raises " + ref["exc"]))
        if failures:
            print("  %s: differs on %s: %s" % (path, failures[0]["differs"], failures[0]["got"]))
        else:
            print("  %s: the same header" % path)
        for f in failures:
            print("  oracle: %s" % f["what"])
        return failures
    if failure.get("kind") == "edited-header":
        start, steps = failure.get("start"), failure.get("steps")
        if not isinstance(start, dict) or not isinstance(steps, list):
            return None
        todo = [{k: v for k, v in st.items() if k != "exc"} for st in steps]
        res = eval_edits(start, lambda h: todo.pop(0) if todo else None)
        print("replay C13: header built by %s%s%s; edits:" % (start["ctor"], " over %r" % (start["lines"],) if "lines" in start else "",
                                                              " with %r" % (start["args"],) if start.get("args") else ""))
        for st in res["steps"]:
            print("  %s%s" % (show_edit(st), "  -> raised %s" % st["exc"] if st["exc"] else ""))
        print("  the header now says:         %s" % (res["final"],))
        print("  printed lines: %r" % (res["printed"],))
        print("  a fresh parse of them says:  %s" % (res["fresh"],))
        for f in res["failures"]:
            print("  oracle: %s" % f["what"])
        return res["failures"]
    sv, sa = supported()
    res = eval_lines(list(lines), sv, sa)
    print("replay C13: MafHeader.from_lines(%r, Silent)" % (lines,))
    print("  implementation: kept %s; diagnosed lines %s; header-level errors %s" % (res["got_kept"], res["got_errs"], res["got_header_errs"]))
    print("  grammar:        kept %s; diagnosed lines %s%s" % (res["kept"], res["errors"],
                                                               "; header-level errors %s" % res["want_header_errs"] if "want_header_errs" in res else ""))
    if res["printed"] is not None:
        print("  printed: %r" % (res["printed"],))
    if getattr(ctx, "driver_ok", True) and ctx.driver.available():
        r = {"op": "hdr.lines", "lines": list(lines), "mode": "Silent"}
        m = ctx.driver.run([r])[0]
        i = impl.run(r)
        if has_unmodelled(m):
            verdict = "outside the model"
        elif m == i:
            verdict = "same as the implementation"
        else:
            verdict = "DIFFERS from the implementation on %s" % [k for k in sorted(set(m) | set(i)) if m.get(k) != i.get(k)]
        mh = m.get("header", {}) if isinstance(m, dict) else {}
        print("  model: records %s; errors %s (%s)" % (mh.get("records", m.get("exc") if isinstance(m, dict) else m), mh.get("errors"), verdict))
    for f in res["failures"]:
        print("  oracle: %s" % f["what"])
    return res["failures"]


def shrink(ctx, f):
    """An edit history is cut down to the edits that matter (every stored step is absolute, so any sub-sequence can be re-run)."""
    if f.get("kind") != "edited-header" or not isinstance(f.get("steps"), list):
        return f
    start = dict(f["start"])
    steps = [{k: v for k, v in st.items() if k != "exc"} for st in f["steps"]]

    def failing(start, steps):
        todo = [dict(st) for st in steps]
        try:
            return eval_edits(start, lambda h: todo.pop(0) if todo else None)["failures"]
        except Exception:  # noqa
            return []
    if not failing(start, steps):
        return f
    changed = True
    while changed:
        changed = False
        for i in range(len(steps)):
            cand = steps[:i] + steps[i + 1:]
            if failing(start, cand):
                steps, changed = cand, True
                break
    for i in range(len(steps)):
        if steps[i].get("observe"):
            cand = [dict(st, observe=False) if j == i else st for j, st in enumerate(steps)]
            if failing(start, cand):
                steps = cand
    if start.get("observe_first", True) and failing(dict(start, observe_first=False), steps):
        start = dict(start, observe_first=False)
    again = failing(start, steps)
    if not again or len(steps) >= len(f["steps"]) and start == f["start"]:
        return f
    return dict(again[0], shrunk_from=len(f["steps"]))


def search(ctx):
    return run(ctx)

