"""C13 - header lines are parsed, diagnosed and printed faithfully."""
import copy

from .. import filecases, impl
from ..common import exc_name, has_unmodelled
from ..runner import Outcome

LEVEL = "proof"
ASSUMPTIONS = ["independence of a derived header (deepcopy) is an aliasing property of Python objects: checked by mutate-and-observe on the implementation, not modelled in Lean"]
ORDERS = ["Unknown", "Unsorted", "BarcodesAndCoordinate", "Coordinate"]
WS = " \t\n\r\x0b\x0c\x1c\x1d\x1e\x1f\x85\xa0                　"


def classify(line):
    """The pragma grammar, written directly: (error type | None, key, value)."""
    if not line.startswith("#"):
        return "HEADER_LINE_MISSING_START_SYMBOL", None, None
    rest = line[1:]
    if " " not in rest:
        return "HEADER_LINE_MISSING_SEPARATOR", None, None
    key, value = rest.split(" ", 1)
    value = value.rstrip(WS)
    if key == "":
        return "HEADER_LINE_EMPTY_KEY", None, None
    if value == "":
        return "HEADER_LINE_EMPTY_VALUE", None, None
    if key == "sort.order" and value not in ORDERS:
        return "HEADER_UNSUPPORTED_SORT_ORDER", None, None
    return None, key, value


def expected_parse(lines):
    kept, errors = [], []
    seen = set()
    for n, l in enumerate(lines, start=1):
        err, key, value = classify(l)
        if err:
            errors.append([err, n])
        elif key in seen:
            errors.append(["HEADER_DUPLICATE_KEYS", n])
        else:
            seen.add(key)
            kept.append((key, value))
    return kept, errors


def header_validation_rules(kept, scheme_found_basic, sv, sa):
    """The header-level checks as a decision table."""
    d = dict(kept)
    errs = []
    if "version" not in d:
        errs.append("HEADER_MISSING_VERSION")
    elif d["version"] not in sv:
        errs.append("HEADER_UNSUPPORTED_VERSION")
    if scheme_found_basic:
        if "annotation.spec" in d:
            errs.append("HEADER_UNSUPPORTED_ANNOTATION_SPEC")
    else:
        if "annotation.spec" not in d:
            errs.append("HEADER_MISSING_ANNOTATION_SPEC")
        elif d["annotation.spec"] not in sa:
            errs.append("HEADER_UNSUPPORTED_ANNOTATION_SPEC")
    return errs


def gen_lines(rng):
    lines = filecases.header_lines(rng, rng.randrange(0, 7))
    # extra grammar corners: inner / trailing blanks, the four special keys with odd values
    if rng.random() < 0.4:
        k = rng.choice(["version", "annotation.spec", "sort.order", "contigs", "k", "a.b"])
        v = rng.choice(["gdc-1.0.0", "gdc-1.0.0 ", " x", "a b  c", "Coordinate ", "coordinate", "1,2,,3", ",", "a, b", "x\t", "é"])
        lines.insert(rng.randrange(len(lines) + 1), "#%s %s" % (k, v))
    return lines


def supported():
    from maflib.scheme_factory import all_schemes
    return [s.version() for s in all_schemes()], [s.annotation_spec() for s in all_schemes()]


def eval_lines(lines, sv, sa):
    """One sequence of header lines on the implementation + the property's oracle (parse exactness, print->parse,
    accessors, header-level rules).  Returns a dict: failures, kept, errors (the grammar's answer), complete (False when
    an early failure ended the evaluation), and what the implementation returned (got_kept, got_errs, printed)."""
    from maflib.header import MafHeader
    from maflib.scheme_factory import find_scheme
    from maflib.validation import ValidationStringency as VS
    h = MafHeader.from_lines(lines, validation_stringency=VS.Silent)
    where = {"lines": lines}
    kept, errors = expected_parse(lines)
    got_kept = [(k, str(h[k])[len(k) + 2:]) for k in h]
    got_errs = [[e.tpe.name, e.line_number] for e in h.validation_errors if e.line_number is not None]
    res = {"failures": [], "kept": kept, "errors": errors, "complete": False, "got_kept": got_kept, "got_errs": got_errs,
           "got_header_errs": [e.tpe.name for e in h.validation_errors if e.line_number is None], "printed": None}
    failures = res["failures"]
    if got_kept != kept:
        failures.append(dict(where, what="kept pragmas differ from the grammar (key, value, position; first of duplicates)", kind="parse",
                             expected=kept, got=got_kept))
        return res
    if got_errs != errors:
        failures.append(dict(where, what="diagnosed lines differ (category / 1-based line number)", kind="diagnose", expected=errors, got=got_errs))
        return res
    # print -> parse identity
    text = str(h)
    lines2 = text.split("\n") if text else []
    res["printed"] = lines2
    h2 = MafHeader.from_lines(lines2, validation_stringency=VS.Silent)
    if [(k, str(h2[k])) for k in h2] != [(k, str(h[k])) for k in h] or [e for e in h2.validation_errors if e.line_number is not None]:
        failures.append(dict(where, what="printing the parsed header and parsing it again is not the identity", kind="print-parse",
                             printed=lines2, reparsed=[(k, str(h2[k])) for k in h2],
                             errors=[[e.tpe.name, e.line_number] for e in h2.validation_errors]))
        return res
    if str(h2) != text:
        failures.append(dict(where, what="printing is not stable", kind="print-parse"))
    # accessors
    d = dict(kept)
    acc_bad = []
    if h.version() != d.get("version"):
        acc_bad.append("version")
    if h.annotation() != d.get("annotation.spec"):
        acc_bad.append("annotation")
    if (h.contigs() or None) != (d["contigs"].split(",") if "contigs" in d else None):
        acc_bad.append("contigs")
    if h.sort_order().name() != d.get("sort.order", "Unsorted"):
        acc_bad.append("sort_order")
    so = h.sort_order()
    want_contigs = d["contigs"].split(",") if ("contigs" in d and d.get("sort.order") in ("Coordinate", "BarcodesAndCoordinate")) else []
    if list(getattr(so, "_contigs", []) or []) != want_contigs:
        acc_bad.append("sort_order contigs")
    if acc_bad:
        failures.append(dict(where, what="accessors do not reflect the pragmas: %s" % acc_bad, kind="accessor"))
    # header-level rules
    try:
        sch = find_scheme(version=d.get("version"), annotation=d.get("annotation.spec"))
    except ValueError:
        sch = None
    want = header_validation_rules(kept, sch is not None and sch.is_basic(), sv, sa)
    got = res["got_header_errs"]
    res["want_header_errs"] = want
    if got != want:
        failures.append(dict(where, what="header-level checks differ from the documented rules", kind="rules", expected=want, got=got))
    res["complete"] = True
    return res


def run(ctx):
    out = Outcome()
    out.rule = ("sequences of header lines over the pragma grammar (start symbol, key, single-space separator, values with inner/trailing blanks, the four special keys with "
                "recognised / unrecognised values, duplicates anywhere); parse exactness vs a direct grammar, print->parse identity, accessors, header-level rules, "
                "derived-header independence; non-trivial = at least one kept pragma and one diagnosed line or a special key; distinct line sequences")
    rng = ctx.rng("hdr")
    sv, sa = supported()
    reqs = []
    for _ in range(ctx.scale(1200, 15000)):
        lines = gen_lines(rng)
        out.evaluations += 1
        reqs.append({"op": "hdr.lines", "lines": lines, "mode": "Silent"})
        res = eval_lines(lines, sv, sa)
        out.failures += res["failures"]
        if not res["complete"]:
            continue
        kept, errors = res["kept"], res["errors"]
        if kept and (errors or any(k in ("version", "annotation.spec", "sort.order", "contigs") for k, _ in kept)):
            out.nontrivial.add(repr(lines))
        if len(out.samples) < 4 and errors and kept:
            out.sample({"lines": lines, "kept": kept, "errors": errors})
    derived_header_cases(ctx, out, rng)
    mo = ctx.driver.run(reqs)
    for r, m in zip(reqs, mo):
        i = impl.run(r)
        if has_unmodelled(m):
            out.unmodelled += 1
        elif m != i:
            out.disagreements.append({"op": "hdr.lines", "lines": r["lines"],
                                      "differs": [k for k in sorted(set(m) | set(i)) if m.get(k) != i.get(k)]})
    return out


def snapshot(h):
    so = h.sort_order()
    return {"str": str(h), "keys": list(h), "errors": [(e.tpe.name, e.line_number) if hasattr(e, "tpe") else repr(e) for e in h.validation_errors],
            "version": h.version(), "annotation": h.annotation(), "contigs": copy.deepcopy(h.contigs()),
            "sort": so.name(), "sort_contigs": list(getattr(so, "_contigs", []) or [])}


MUTATIONS = ["set", "del", "inplace-value", "inplace-key", "contigs-append", "errors", "sort-contigs"]
NEEDS_KEY = ("del", "inplace-value", "inplace-key")


def eval_derived(lines, args, next_step):
    """A header derived from a reader (MafHeader.from_reader with the overrides named in `args`) is mutated step by step;
    the reader's own header must not change.  `next_step(d)` is asked for the next mutation with the derived header in its
    current state and answers {"m": mutation, "key": pragma key it applies to (del / inplace-*) or None} or None when done
    (run draws the steps from its random stream, replay_case reads them from the stored failure).
    Returns (steps, failures)."""
    from maflib.header import MafHeader, MafHeaderRecord
    from maflib.reader import MafReader
    from maflib.sort_order import Coordinate
    reader = MafReader(lines=lines + ["a\tb"])
    before = snapshot(reader.header())
    kw = {}
    if "version" in args:
        kw["version"] = "gdc-2.0.0"
    if "contigs" in args:
        kw["contigs"] = ["1", "2"]
    if "sort_order" in args:
        kw["sort_order"] = Coordinate()
    d = MafHeader.from_reader(reader, **kw)
    steps = []
    while True:
        st = next_step(d)
        if st is None:
            break
        steps.append(st)
        m, key = st["m"], st.get("key")
        try:
            if m == "set":
                d["center"] = MafHeaderRecord("center", "other")
            elif m == "del":
                if key is None:
                    raise IndexError("nothing to delete")
                del d[key]
            elif m == "inplace-value":
                if key is None:
                    raise IndexError("no pragma")
                if isinstance(d[key].value, str):
                    d[key].value = "changed"
            elif m == "inplace-key":
                if key is None:
                    raise IndexError("no pragma")
                d[key].key = "renamed"
            elif m == "contigs-append" and d.contigs() is not None:
                d.contigs().append("chrZ")
            elif m == "errors":
                d.validation_errors.append("x")
            elif m == "sort-contigs":
                so = d.sort_order()
                if getattr(so, "_contigs", None) is not None:
                    so._contigs.append("chrQ")
        except Exception:  # noqa
            pass
    after = snapshot(reader.header())
    failures = []
    if after != before:
        failures.append({"what": "mutating a header derived from a reader changed the reader's own header", "kind": "derived-aliasing",
                         "lines": lines, "from_reader_args": sorted(kw), "mutations": [st["m"] for st in steps], "steps": steps,
                         "changed": [k for k in before if before[k] != after[k]],
                         "before": {k: before[k] for k in before if before[k] != after[k]},
                         "after": {k: after[k] for k in before if before[k] != after[k]}})
    return steps, failures


def derived_header_cases(ctx, out, rng):
    """A header derived from a reader is independent of the reader's own header."""
    for _ in range(ctx.scale(150, 1500)):
        lines = filecases.typical_header(rng, rng.choice(["gdc-1.0.0", "gdc-1.0.0-public"]),
                                         sort=rng.choice([None, "Coordinate", "BarcodesAndCoordinate"]),
                                         contigs=rng.choice([None, ["chr1", "chr2"]])) + ["#center x", "#note y z"]
        out.evaluations += 1
        args = []
        if rng.random() < 0.3:
            args.append("version")
        if rng.random() < 0.3:
            args.append("contigs")
        if rng.random() < 0.3:
            args.append("sort_order")
        left = [rng.randrange(1, 5)]

        def next_step(d):
            if left[0] == 0:
                return None
            left[0] -= 1
            m = rng.choice(MUTATIONS)
            key = None
            if m in NEEDS_KEY:
                try:
                    key = rng.choice(list(d))
                except IndexError:          # nothing left in the derived header
                    key = None
            return {"m": m, "key": key}
        steps, failures = eval_derived(lines, args, next_step)
        out.failures += failures
        out.nontrivial.add(("derived", repr(lines), tuple(st["m"] for st in steps)))


def replay_case(ctx, failure):
    """Re-evaluate the stored lines (and, for a derived header, the stored mutation steps) on the current implementation;
    the failures they produce now ([] = property holds)."""
    lines = failure.get("lines")
    if not isinstance(lines, list):
        return None
    if failure.get("kind") == "derived-aliasing":
        steps = failure.get("steps")
        if steps is None or "from_reader_args" not in failure:
            return None                     # written before the mutation steps were stored
        todo = [dict(st) for st in steps]
        got, failures = eval_derived(list(lines), list(failure["from_reader_args"]), lambda d: todo.pop(0) if todo else None)
        print("replay C13: MafReader over %r (+ one data line); MafHeader.from_reader(reader%s); mutations of the derived header:" % (
            lines, "".join(", %s=..." % a for a in failure["from_reader_args"])))
        for st in got:
            print("  %s%s" % (st["m"], "" if st.get("key") is None else " %r" % st["key"]))
        if failures:
            for k in failures[0]["changed"]:
                print("  reader's own header, %s: before %r, after %r" % (k, failures[0]["before"][k], failures[0]["after"][k]))
        else:
            print("  implementation: the reader's own header is unchanged")
        for f in failures:
            print("  oracle: %s" % f["what"])
        return failures
    sv, sa = supported()
    res = eval_lines(list(lines), sv, sa)
    print("replay C13: MafHeader.from_lines(%r, Silent)" % (lines,))
    print("  implementation: kept %s; diagnosed lines %s; header-level errors %s" % (res["got_kept"], res["got_errs"], res["got_header_errs"]))
    print("  grammar:        kept %s; diagnosed lines %s%s" % (res["kept"], res["errors"],
                                                               "; header-level errors %s" % res["want_header_errs"] if "want_header_errs" in res else ""))
    if res["printed"] is not None:
        print("  printed: %r" % (res["printed"],))
    if getattr(ctx, "driver_ok", True) and ctx.driver.available():
        r = {"op": "hdr.lines", "lines": list(lines), "mode": "Silent"}
        m = ctx.driver.run([r])[0]
        i = impl.run(r)
        if has_unmodelled(m):
            verdict = "outside the model"
        elif m == i:
            verdict = "same as the implementation"
        else:
            verdict = "DIFFERS from the implementation on %s" % [k for k in sorted(set(m) | set(i)) if m.get(k) != i.get(k)]
        mh = m.get("header", {}) if isinstance(m, dict) else {}
        print("  model: records %s; errors %s (%s)" % (mh.get("records", m.get("exc") if isinstance(m, dict) else m), mh.get("errors"), verdict))
    for f in res["failures"]:
        print("  oracle: %s" % f["what"])
    return res["failures"]


def search(ctx):
    return run(ctx)

