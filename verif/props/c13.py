"""C13 - header lines are parsed, diagnosed and printed faithfully."""
import copy

from .. import filecases, impl
from ..common import exc_name, has_unmodelled
from ..runner import Outcome

LEVEL = "proof"
ASSUMPTIONS = ["independence of a derived header (deepcopy) is an aliasing property of Python objects: checked by mutate-and-observe on the implementation, not modelled in Lean"]
ORDERS = ["Unknown", "Unsorted", "BarcodesAndCoordinate", "Coordinate"]
WS = " \t\n\r\x0b\x0c\x1c\x1d\x1e\x1f\x85\xa0                　"


def classify(line):
    """The pragma grammar, written directly: (error type | None, key, value)."""
    if not line.startswith("#"):
        return "HEADER_LINE_MISSING_START_SYMBOL", None, None
    rest = line[1:]
    if " " not in rest:
        return "HEADER_LINE_MISSING_SEPARATOR", None, None
    key, value = rest.split(" ", 1)
    value = value.rstrip(WS)
    if key == "":
        return "HEADER_LINE_EMPTY_KEY", None, None
    if value == "":
        return "HEADER_LINE_EMPTY_VALUE", None, None
    if key == "sort.order" and value not in ORDERS:
        return "HEADER_UNSUPPORTED_SORT_ORDER", None, None
    return None, key, value


def expected_parse(lines):
    kept, errors = [], []
    seen = set()
    for n, l in enumerate(lines, start=1):
        err, key, value = classify(l)
        if err:
            errors.append([err, n])
        elif key in seen:
            errors.append(["HEADER_DUPLICATE_KEYS", n])
        else:
            seen.add(key)
            kept.append((key, value))
    return kept, errors


def header_validation_rules(kept, scheme_found_basic, sv, sa):
    """The header-level checks as a decision table."""
    d = dict(kept)
    errs = []
    if "version" not in d:
        errs.append("HEADER_MISSING_VERSION")
    elif d["version"] not in sv:
        errs.append("HEADER_UNSUPPORTED_VERSION")
    if scheme_found_basic:
        if "annotation.spec" in d:
            errs.append("HEADER_UNSUPPORTED_ANNOTATION_SPEC")
    else:
        if "annotation.spec" not in d:
            errs.append("HEADER_MISSING_ANNOTATION_SPEC")
        elif d["annotation.spec"] not in sa:
            errs.append("HEADER_UNSUPPORTED_ANNOTATION_SPEC")
    return errs


def gen_lines(rng):
    lines = filecases.header_lines(rng, rng.randrange(0, 7))
    # extra grammar corners: inner / trailing blanks, the four special keys with odd values
    if rng.random() < 0.4:
        k = rng.choice(["version", "annotation.spec", "sort.order", "contigs", "k", "a.b"])
        v = rng.choice(["gdc-1.0.0", "gdc-1.0.0 ", " x", "a b  c", "Coordinate ", "coordinate", "1,2,,3", ",", "a, b", "x\t", "é"])
        lines.insert(rng.randrange(len(lines) + 1), "#%s %s" % (k, v))
    return lines


def run(ctx):
    from maflib.header import MafHeader
    from maflib.scheme_factory import all_schemes, find_scheme
    from maflib.validation import ValidationStringency as VS
    out = Outcome()
    out.rule = ("sequences of header lines over the pragma grammar (start symbol, key, single-space separator, values with inner/trailing blanks, the four special keys with "
                "recognised / unrecognised values, duplicates anywhere); parse exactness vs a direct grammar, print->parse identity, accessors, header-level rules, "
                "derived-header independence; non-trivial = at least one kept pragma and one diagnosed line or a special key; distinct line sequences")
    rng = ctx.rng("hdr")
    sv = [s.version() for s in all_schemes()]
    sa = [s.annotation_spec() for s in all_schemes()]
    reqs = []
    for _ in range(ctx.scale(1200, 15000)):
        lines = gen_lines(rng)
        out.evaluations += 1
        reqs.append({"op": "hdr.lines", "lines": lines, "mode": "Silent"})
        h = MafHeader.from_lines(lines, validation_stringency=VS.Silent)
        where = {"lines": lines}
        kept, errors = expected_parse(lines)
        got_kept = [(k, str(h[k])[len(k) + 2:]) for k in h]
        got_errs = [[e.tpe.name, e.line_number] for e in h.validation_errors if e.line_number is not None]
        if got_kept != kept:
            out.failures.append(dict(where, what="kept pragmas differ from the grammar (key, value, position; first of duplicates)", kind="parse",
                                     expected=kept, got=got_kept))
            continue
        if got_errs != errors:
            out.failures.append(dict(where, what="diagnosed lines differ (category / 1-based line number)", kind="diagnose", expected=errors, got=got_errs))
            continue
        # print -> parse identity
        text = str(h)
        lines2 = text.split("\n") if text else []
        h2 = MafHeader.from_lines(lines2, validation_stringency=VS.Silent)
        if [(k, str(h2[k])) for k in h2] != [(k, str(h[k])) for k in h] or [e for e in h2.validation_errors if e.line_number is not None]:
            out.failures.append(dict(where, what="printing the parsed header and parsing it again is not the identity", kind="print-parse",
                                     printed=lines2, reparsed=[(k, str(h2[k])) for k in h2],
                                     errors=[[e.tpe.name, e.line_number] for e in h2.validation_errors]))
            continue
        if str(h2) != text:
            out.failures.append(dict(where, what="printing is not stable", kind="print-parse"))
        # accessors
        d = dict(kept)
        acc_bad = []
        if h.version() != d.get("version"):
            acc_bad.append("version")
        if h.annotation() != d.get("annotation.spec"):
            acc_bad.append("annotation")
        if (h.contigs() or None) != (d["contigs"].split(",") if "contigs" in d else None):
            acc_bad.append("contigs")
        if h.sort_order().name() != d.get("sort.order", "Unsorted"):
            acc_bad.append("sort_order")
        so = h.sort_order()
        want_contigs = d["contigs"].split(",") if ("contigs" in d and d.get("sort.order") in ("Coordinate", "BarcodesAndCoordinate")) else []
        if list(getattr(so, "_contigs", []) or []) != want_contigs:
            acc_bad.append("sort_order contigs")
        if acc_bad:
            out.failures.append(dict(where, what="accessors do not reflect the pragmas: %s" % acc_bad, kind="accessor"))
        # header-level rules
        try:
            sch = find_scheme(version=d.get("version"), annotation=d.get("annotation.spec"))
        except ValueError:
            sch = None
        want = header_validation_rules(kept, sch is not None and sch.is_basic(), sv, sa)
        got = [e.tpe.name for e in h.validation_errors if e.line_number is None]
        if got != want:
            out.failures.append(dict(where, what="header-level checks differ from the documented rules", kind="rules", expected=want, got=got))
        if kept and (errors or any(k in ("version", "annotation.spec", "sort.order", "contigs") for k, _ in kept)):
            out.nontrivial.add(repr(lines))
        if len(out.samples) < 4 and errors and kept:
            out.sample({"lines": lines, "kept": kept, "errors": errors})
    derived_header_cases(ctx, out, rng)
    mo = ctx.driver.run(reqs)
    for r, m in zip(reqs, mo):
        i = impl.run(r)
        if has_unmodelled(m):
            out.unmodelled += 1
        elif m != i:
            out.disagreements.append({"op": "hdr.lines", "lines": r["lines"],
                                      "differs": [k for k in sorted(set(m) | set(i)) if m.get(k) != i.get(k)]})
    return out


def snapshot(h):
    so = h.sort_order()
    return {"str": str(h), "keys": list(h), "errors": [(e.tpe.name, e.line_number) for e in h.validation_errors],
            "version": h.version(), "annotation": h.annotation(), "contigs": copy.deepcopy(h.contigs()),
            "sort": so.name(), "sort_contigs": list(getattr(so, "_contigs", []) or [])}


def derived_header_cases(ctx, out, rng):
    """A header derived from a reader is independent of the reader's own header."""
    from maflib.header import MafHeader, MafHeaderRecord, MafHeaderVersionRecord
    from maflib.reader import MafReader
    from maflib.sort_order import Coordinate
    for _ in range(ctx.scale(150, 1500)):
        lines = filecases.typical_header(rng, rng.choice(["gdc-1.0.0", "gdc-1.0.0-public"]),
                                         sort=rng.choice([None, "Coordinate", "BarcodesAndCoordinate"]),
                                         contigs=rng.choice([None, ["chr1", "chr2"]])) + ["#center x", "#note y z"]
        out.evaluations += 1
        reader = MafReader(lines=lines + ["a\tb"])
        before = snapshot(reader.header())
        kw = {}
        if rng.random() < 0.3:
            kw["version"] = "gdc-2.0.0"
        if rng.random() < 0.3:
            kw["contigs"] = ["1", "2"]
        if rng.random() < 0.3:
            kw["sort_order"] = Coordinate()
        d = MafHeader.from_reader(reader, **kw)
        muts = []
        for _k in range(rng.randrange(1, 5)):
            m = rng.choice(["set", "del", "inplace-value", "inplace-key", "contigs-append", "errors", "sort-contigs"])
            muts.append(m)
            try:
                if m == "set":
                    d["center"] = MafHeaderRecord("center", "other")
                elif m == "del":
                    del d[rng.choice(list(d))]
                elif m == "inplace-value":
                    k = rng.choice(list(d))
                    if isinstance(d[k].value, str):
                        d[k].value = "changed"
                elif m == "inplace-key":
                    d[rng.choice(list(d))].key = "renamed"
                elif m == "contigs-append" and d.contigs() is not None:
                    d.contigs().append("chrZ")
                elif m == "errors":
                    d.validation_errors.append("x")
                elif m == "sort-contigs":
                    so = d.sort_order()
                    if getattr(so, "_contigs", None) is not None:
                        so._contigs.append("chrQ")
            except Exception:  # noqa
                pass
        after = snapshot(reader.header())
        if after != before:
            out.failures.append({"what": "mutating a header derived from a reader changed the reader's own header", "kind": "derived-aliasing",
                                 "lines": lines, "from_reader_args": sorted(kw), "mutations": muts,
                                 "changed": [k for k in before if before[k] != after[k]]})
        out.nontrivial.add(("derived", repr(lines), tuple(muts)))


def search(ctx):
    return run(ctx)

