"""C18 - the sorter leaves no spill files or descriptors behind, even when I/O fails."""
import json
import os
import tempfile

from .. import impl
from ..common import exc_name
from ..faults import Injector, PlanInjector
from ..runner import Outcome
from .c07 import JsonCodec

LEVEL = "proof"
ASSUMPTIONS = ["a failed close() still releases the descriptor (Linux semantics); a failed remove leaves the file in place and a later close() may retry",
               "os.close really closes and os.remove really removes (observed through fstat / the directory, not proved)",
               "prompt finalisation of an abandoned generator relies on CPython reference counting (observed)",
               "fault-plan cases on a sorting MafWriter build its MafSorter with a small max_objects_in_ram (maflib.writer.MafSorter is wrapped), so that spills happen during write()"]


def scenario(n, cap, always_spill, abandon, fail_at, tmp, reiterate=False):
    """One sort with a fault at I/O call number `fail_at` (None = fault-free).  Returns observations."""
    from maflib.sorter import Sorter
    inj = Injector(fail_at=fail_at)
    inj.install()
    obs = {"raised": [], "phase": None, "output": None}
    try:
        s = Sorter(cap, JsonCodec(), lambda x: x[0], tmp_dir=tmp, always_spill=always_spill)
        try:
            obs["phase"] = "add"
            for k in range(n):
                s += (n - k, "v%d" % k)
            obs["phase"] = "iterate"
            outp = []
            it = iter(s)
            for x in it:
                outp.append(x)
                if abandon is not None and len(outp) >= abandon:
                    break
            if abandon is not None:
                del it
            obs["output"] = outp
            if reiterate:
                obs["output2"] = list(s)
            obs["phase"] = "close"
        except Exception as e:  # noqa
            obs["raised"].append((obs["phase"], exc_name(e)))
        # the caller closes the sorter, as it must; when close() itself reports a failure the caller closes again
        # (the injected fault is transient: it fires once)
        for attempt in range(3):
            try:
                s.close()
                break
            except Exception as e:  # noqa
                obs["raised"].append(("close#%d" % attempt, exc_name(e)))
        obs["calls"] = list(inj.calls)
        obs["fired"] = inj.fired
        obs["leaked_files"] = len(inj.leaked_files())
        obs["leaked_fds"] = len(inj.leaked_fds())
        obs["open_handles"] = inj.open_handles()
    finally:
        inj.uninstall()
        inj.cleanup()
    return obs


def writer_scenario(n, fail_at, tmp):
    """A sorting MafWriter: if close() returns normally the output holds every record."""
    import maflib.sorter as S
    from maflib.header import MafHeader
    from maflib.writer import MafWriter
    from maflib.validation import ValidationStringency as VS
    from .. import sortcases as SC
    inj = Injector(fail_at=fail_at)
    old_tmp = tempfile.tempdir
    tempfile.tempdir = tmp
    inj.install()
    obs = {"raised": None}
    try:
        buf = impl.RecordingHandle()
        h = MafHeader.from_lines(["#version gdc-1.0.0", "#annotation.spec lab", "#sort.order Coordinate"], validation_stringency=VS.Silent)
        w = MafWriter.from_fd(buf, h, validation_stringency=VS.Silent, assume_sorted=False)
        try:
            for k in range(n):
                w += SC.untyped_record("T", "N", "chr1", str(100 - k), str(100 - k))
            w.close()
        except Exception as e:  # noqa
            obs["raised"] = exc_name(e)
        obs["lines"] = len([l for l in buf.text().split("\n")[4:] if l])
        obs["calls"] = list(inj.calls)
        obs["fired"] = inj.fired
        if w._sorter is not None:
            try:
                w._sorter.close()
            except Exception:  # noqa
                pass
        obs["leaked_files"] = len(inj.leaked_files())
        obs["leaked_fds"] = len(inj.leaked_fds())
    finally:
        inj.uninstall()
        inj.cleanup()
        tempfile.tempdir = old_tmp
    return obs


LEFT = ("raised", "leaked_files", "leaked_fds", "open_handles")


# ---- one eval_* per kind of case, shared by run and replay_case; each returns (observation, failures[, stop])
def eval_many_clean(n, cap, tmp):
    """Fault-free sort with n // cap spill files."""
    base = scenario(n, cap, True, None, None, tmp)
    failures = []
    if base["raised"] or base["leaked_files"] or base["leaked_fds"] or base["open_handles"] or len(base["output"]) != n:
        failures.append({"what": "fault-free sort with %d spill files leaves resources behind or fails" % (n // cap), "kind": "clean-run",
                         "n": n, "capacity": cap, "got": {k: base[k] for k in LEFT}, "scenario": "many-files"})
    return base, failures


def eval_many_fault(n, cap, k, call, tmp):
    """The many-files sort with a fault at I/O call k (`call` is the name of that call in the fault-free run)."""
    obs = scenario(n, cap, True, None, k, tmp)
    failures = []
    if obs["fired"] is not None and (obs["leaked_files"] or obs["leaked_fds"] or obs["open_handles"] or not obs["raised"]):
        failures.append({"what": "fault at call %d (%s) of a %d-file sort: leak or swallowed failure" % (k, call, n // cap),
                         "kind": "leak", "n": n, "capacity": cap, "got": {kk: obs[kk] for kk in LEFT},
                         "scenario": "many-files", "fault_at": k, "call": call})
    return obs, failures


def eval_workload_clean(n, cap, sp, ab, tmp):
    """Fault-free run of a workload (iterated twice unless abandoned).  stop = the workload is not explored further."""
    base = scenario(n, cap, sp, ab, None, tmp, reiterate=(ab is None))
    where = {"n": n, "capacity": cap, "always_spill": sp, "abandon_after": ab}
    if base["raised"] or base["leaked_files"] or base["leaked_fds"] or base["open_handles"]:
        return base, [dict(where, what="fault-free sort leaves resources behind or fails", kind="clean-run",
                           got={k: base[k] for k in LEFT}, scenario="workload")], True
    failures = []
    if ab is None and (base["output"] != sorted(base["output"]) or len(base["output"]) != n or base.get("output2") != base["output"]):
        failures.append(dict(where, what="fault-free sort is wrong", kind="clean-run", scenario="workload"))
    return base, failures, False


def eval_workload_fault(n, cap, sp, ab, k, call, tmp):
    """A workload with a fault at I/O call k (`call` is the name of that call in the fault-free run)."""
    obs = scenario(n, cap, sp, ab, k, tmp)
    w2 = {"n": n, "capacity": cap, "always_spill": sp, "abandon_after": ab, "fault_at": k, "call": call}
    failures = []
    if obs["fired"] is None:
        return obs, failures
    if not obs["raised"]:
        failures.append(dict(w2, what="the injected I/O failure never reached the caller", kind="swallowed", phase=obs["phase"], scenario="workload"))
    elif any(not r[1].startswith("OSError") for r in obs["raised"]):
        failures.append(dict(w2, what="a failure other than the I/O error escaped", kind="other-exception", got=obs["raised"], scenario="workload"))
    if obs["leaked_files"] or obs["leaked_fds"] or obs["open_handles"]:
        failures.append(dict(w2, what="after close(): %d spill file(s), %d descriptor(s), %d open gzip handle(s) left behind" % (
            obs["leaked_files"], obs["leaked_fds"], len(obs["open_handles"])), kind="leak", raised=obs["raised"], scenario="workload"))
    return obs, failures


def eval_writer_clean(n, tmp):
    """Fault-free sorting writer over n records."""
    base = writer_scenario(n, None, tmp)
    failures = []
    if base["raised"] or base["lines"] != n:
        failures.append({"what": "fault-free sorting writer is wrong", "kind": "clean-run", "got": base, "scenario": "writer", "n": n})
    return base, failures


def eval_writer_fault(n, k, call, tmp):
    """The sorting writer with a fault at I/O call k."""
    obs = writer_scenario(n, k, tmp)
    failures = []
    if obs["fired"] is not None and obs["raised"] is None and obs["lines"] != n:
        failures.append({"what": "writer.close() returned normally but the output holds %d of %d records" % (obs["lines"], n),
                         "kind": "writer-incomplete", "n": n, "fault_at": k, "call": call, "scenario": "writer"})
    return obs, failures


# ---- fault plans beyond "one transient OSError, the caller gives up": carrying on after a reported failure, faults that
# ---- last, several faults in one call, EOFError on reads, spill files cut short on disk.  The effect model
# ---- (`sorter.faults`) takes one transient OSError and a caller that gives up: these cases run on the implementation only.
PENDING_DEFECTS = ()      # case families skipped because the unchanged library violates the property there (none)

KINDS = ("mkstemp", "gzip.open(w)", "gzip.open(r)", "write", "read", "handle.close(w)", "handle.close(r)", "os.close", "os.remove")


def _cut(path, cut):
    """Cut a spill file short: int > 0 = bytes kept, int < 0 = bytes dropped, float = fraction kept; at least one byte is
    kept and at least one dropped (an empty file is an empty run, not a failed read)."""
    import os
    size = os.path.getsize(path)
    if size < 2:
        return None
    keep = int(size * cut) if isinstance(cut, float) else (cut if cut > 0 else size + cut)
    keep = max(1, min(size - 1, keep))
    os.truncate(path, keep)
    return [size, keep]


def _flip(path, at):
    """Damage a spill file: invert the byte at fraction `at` of its length."""
    import os
    size = os.path.getsize(path)
    if size < 1:
        return None
    k = min(size - 1, int(size * at))
    with open(path, "r+b") as h:
        h.seek(k)
        b = h.read(1)
        h.seek(k)
        h.write(bytes([b[0] ^ 0xFF]))
    return [size, "byte %d inverted" % k]


def _truncate(inj, tr):
    import os
    live = [p for p in inj.paths if os.path.exists(p)]
    if not live:
        return None
    path = live[tr["file"] % len(live)]
    return _flip(path, tr["flip"]) if "flip" in tr else _cut(path, tr["cut"])


def _close_protocol(close, inj, obs, attempts):
    """close() as the caller must; when it reports a failure the caller closes again.  Faults that last 'until the first
    close() has returned or raised' heal after the first attempt.  obs["judge_leaks"]: the last attempt met no fault."""
    for attempt in range(attempts):
        before = len(inj.fired_all)
        try:
            close()
            obs["closes"].append(None)
        except Exception as e:  # noqa
            obs["closes"].append(exc_name(e))
            obs["raised"].append(("close#%d" % attempt, exc_name(e)))
        inj.event("close")
        obs["judge_leaks"] = len(inj.fired_all) == before
        if obs["closes"][-1] is None:
            break


def plan_scenario(sc, tmp):
    """A bare Sorter under a fault plan.  sc: n, capacity, always_spill, iters (per iteration: None = to the end, j = abandoned
    after j items), carry_on (the caller catches what add / iteration report and carries on: keeps adding, iterates once
    more), plan (faults.PlanInjector rules), truncate ({"file", "cut"}: a spill file is cut short between add and iteration;
    {"file", "flip"}: one of its bytes is inverted)."""
    from maflib.sorter import Sorter
    inj = PlanInjector(sc.get("plan") or [])
    inj.install()
    obs = {"raised": [], "added": [], "iterations": [], "closes": [], "truncated": None, "judge_leaks": False}
    carry = bool(sc.get("carry_on"))
    n = sc["n"]
    try:
        s = Sorter(sc["capacity"], JsonCodec(), lambda x: x[0], tmp_dir=tmp, always_spill=sc["always_spill"])
        gave_up = False
        for k in range(n):
            item = (n - k, "v%d" % k)
            try:
                if k % 2:
                    s.add(item)
                else:
                    s += item
                obs["added"].append(n - k)
            except Exception as e:  # noqa
                obs["raised"].append(("add#%d" % k, exc_name(e)))
                if not carry:
                    gave_up = True
                    break
        if not gave_up and sc.get("truncate"):
            obs["truncated"] = _truncate(inj, sc["truncate"])
        for i, j in enumerate([] if gave_up else sc.get("iters", [None])):
            ok = False
            for attempt in range(2 if carry else 1):
                outp = []
                it = iter(s)
                try:
                    for x in it:
                        outp.append(x[0])
                        if j is not None and len(outp) >= j:
                            break
                    ok = True
                except Exception as e:  # noqa
                    obs["raised"].append(("iterate#%d.%d" % (i, attempt), exc_name(e)))
                del it
                obs["iterations"].append({"limit": j, "keys": outp, "returned": ok})
                if ok:
                    break
            if not ok and not carry:
                break
        _close_protocol(s.close, inj, obs, 4)
        obs["calls"] = list(inj.calls)
        obs["fired"] = [list(x) for x in inj.fired_all]
        obs["leaked_files"] = len(inj.leaked_files())
        obs["leaked_fds"] = len(inj.leaked_fds())
        obs["open_handles"] = inj.open_handles()
    finally:
        inj.uninstall()
        inj.cleanup()
    return obs


def plan_writer_scenario(sc, tmp):
    """A sorting MafWriter (assume_sorted=False, Coordinate) under a fault plan.  sc as for plan_scenario; `capacity` is the
    max_objects_in_ram the writer's MafSorter is built with (None: the library's default, 10000).  A caller that does not
    carry on stops writing at the first reported failure and closes once; one that does keeps writing and closes again."""
    import maflib.writer as W
    from maflib.header import MafHeader
    from maflib.writer import MafWriter
    from maflib.validation import ValidationStringency as VS
    from .. import sortcases as SC
    inj = PlanInjector(sc.get("plan") or [])
    old_tmp = tempfile.tempdir
    tempfile.tempdir = tmp
    real_sorter = W.MafSorter
    cap = sc.get("capacity")
    if cap is not None:
        def small_sorter(*a, **kw):
            kw["max_objects_in_ram"] = cap
            return real_sorter(*a, **kw)
        W.MafSorter = small_sorter
    inj.install()
    obs = {"raised": [], "added": [], "closes": [], "truncated": None, "judge_leaks": False, "lines": None}
    carry = bool(sc.get("carry_on"))
    n = sc["n"]
    try:
        buf = impl.RecordingHandle()
        h = MafHeader.from_lines(["#version gdc-1.0.0", "#annotation.spec lab", "#sort.order Coordinate"], validation_stringency=VS.Silent)
        w = MafWriter.from_fd(buf, h, validation_stringency=VS.Silent, assume_sorted=False)
        for k in range(n):
            pos = 100 + n - k
            rec = SC.untyped_record("T", "N", "chr1", str(pos), str(pos))
            try:
                if k % 2:
                    w.write(rec)
                else:
                    w += rec
                obs["added"].append(pos)
            except Exception as e:  # noqa
                obs["raised"].append(("write#%d" % k, exc_name(e)))
                if not carry:
                    break
        if sc.get("truncate"):
            obs["truncated"] = _truncate(inj, sc["truncate"])
        _close_protocol(w.close, inj, obs, 2 if carry else 1)
        obs["closed_normally"] = obs["closes"][-1] is None
        body = [l for l in buf.text().split("\n") if l and not l.startswith("#")][1:]
        obs["lines"] = [int(l.split("\t")[2]) for l in body if len(l.split("\t")) > 2 and l.split("\t")[2].isdigit()]
        obs["calls"] = list(inj.calls)
        obs["fired"] = [list(x) for x in inj.fired_all]
        obs["leaked_files"] = len(inj.leaked_files())
        obs["leaked_fds"] = len(inj.leaked_fds())
        obs["open_handles"] = inj.open_handles()
        if w._sorter is not None:
            try:
                w._sorter.close()
            except Exception:  # noqa
                pass
    finally:
        inj.uninstall()
        inj.cleanup()
        W.MafSorter = real_sorter
        tempfile.tempdir = old_tmp
    return obs


def _io_error(name, sc):
    return name.startswith("OSError") or any((name, r.get("exc")) in (("EOFError", "EOFError"), ("error", "zlib.error")) for r in sc.get("plan") or [])


def eval_plan(sc, tmp):
    """One fault-plan case (shared by run and replay_case): the property's clauses on what the implementation did.
       reported   some call failed (injected, or a read of a file cut short) => something was raised to the caller
       other      a caller that gives up at the first failure only ever sees the I/O errors (not judged for one that
                  carries on: the statement leaves open what add/iterate do after a reported failure, as long as they raise)
       complete   an iteration run to the end that returned normally / a writer whose close() returned normally holds every
                  record whose add()/write() returned normally
       leaks      after the last close() (one that met no fault): no spill file, descriptor or gzip handle"""
    writer = sc.get("target") == "writer"
    obs = (plan_writer_scenario if writer else plan_scenario)(sc, tmp)
    failures = []
    base = {"scenario": "plan", "case": sc}
    added = set(obs["added"])
    if obs["fired"] and not obs["raised"]:
        failures.append(dict(base, kind="plan-swallowed", what="%d injected I/O failure(s) (first: %s at call %d), nothing reached the caller" % (
            len(obs["fired"]), obs["fired"][0][1], obs["fired"][0][0])))
    # (a writer's close() after a reported write failure is already "carrying on": only the first report is judged there)
    if not sc.get("carry_on") and not sc.get("truncate") and any(not _io_error(r[1], sc) for r in (obs["raised"][:1] if writer else obs["raised"])):
        failures.append(dict(base, kind="plan-other-exception", what="a failure other than the I/O error escaped", got=[list(r) for r in obs["raised"]]))
    if writer:
        if obs["closed_normally"]:
            missing = sorted(added - set(obs["lines"]))
            if missing:
                failures.append(dict(base, kind="plan-incomplete", what="writer.close() returned normally but %d of the %d records whose write() returned normally are missing from the output" % (
                    len(missing), len(added)), missing=missing[:10], raised=[list(r) for r in obs["raised"]]))
            if obs["leaked_files"] or obs["leaked_fds"] or obs["open_handles"]:
                failures.append(dict(base, kind="plan-leak", what="writer.close() returned normally: %d spill file(s), %d descriptor(s), %d open gzip handle(s) left behind" % (
                    obs["leaked_files"], obs["leaked_fds"], len(obs["open_handles"])), raised=[list(r) for r in obs["raised"]]))
    else:
        for i, itn in enumerate(obs["iterations"]):
            if itn["returned"] and itn["limit"] is None:
                missing = sorted(added - set(itn["keys"]))
                if missing:
                    failures.append(dict(base, kind="plan-incomplete", what="iteration %d returned normally without %d of the %d records whose add() returned normally" % (
                        i, len(missing), len(added)), missing=missing[:10], raised=[list(r) for r in obs["raised"]]))
                    break
        if obs["judge_leaks"] and (obs["leaked_files"] or obs["leaked_fds"] or obs["open_handles"]):
            failures.append(dict(base, kind="plan-leak", what="after the last close() (%s): %d spill file(s), %d descriptor(s), %d open gzip handle(s) left behind" % (
                "returned normally" if obs["closes"][-1] is None else "raised " + obs["closes"][-1],
                obs["leaked_files"], obs["leaked_fds"], len(obs["open_handles"])), raised=[list(r) for r in obs["raised"]], closes=obs["closes"]))
    return obs, failures


def _one(k, exc=None):
    r = {"kind": "*", "by": "pos", "from": k, "count": 1}
    if exc:
        r["exc"] = exc
    return r


def plan_cases(ctx, rng, tmp):
    """The fault-plan case families: yields (family, case).  Positions come from the fault-free run of the same case."""
    thorough = ctx.tier == "thorough"

    def calls_of(sc):
        return (plan_writer_scenario if sc.get("target") == "writer" else plan_scenario)(dict(sc, plan=[], truncate=None), tmp)["calls"]

    def some(xs, q):
        xs = list(xs)
        m = ctx.scale(q, len(xs))
        return xs if len(xs) <= m else sorted(rng.sample(xs, m))

    shapes = [(4, 2, True), (5, 2, True), (6, 3, True), (5, 2, False), (7, 3, False), (2, 1, True)]
    if thorough:
        shapes += [(n, c, sp) for n in range(1, 9) for c in (1, 2, 3, 4) for sp in (True, False) if (n, c, sp) not in shapes]
    wshapes = [(5, 2), (6, 3), (3, None)] + ([(4, 1), (7, 2), (9, 4)] if thorough else [])
    # 1. the caller carries on after a reported failure (every single position)
    for (n, cap, sp) in shapes:
        sc = {"target": "sorter", "n": n, "capacity": cap, "always_spill": sp, "iters": [None], "carry_on": True}
        yield "clean", dict(sc, plan=[])
        for k in some(range(len(calls_of(sc))), 60):
            yield "carry-on", dict(sc, plan=[_one(k)])
    for (n, cap) in wshapes:
        sc = {"target": "writer", "n": n, "capacity": cap}
        yield "clean", dict(sc, plan=[], carry_on=False)
        for k in some(range(len(calls_of(sc))), 60):
            yield "writer-carry-on", dict(sc, plan=[_one(k)], carry_on=True)
            yield "writer-gives-up", dict(sc, plan=[_one(k)], carry_on=False)
    # 2. more than one iteration (to the end twice; abandoned, then to the end): one transient fault, the caller gives up
    for (n, cap, sp, iters) in [(5, 2, True, [None, None]), (6, 2, True, [2, None]), (6, 3, False, [1, 1, None])] + (
            [(n, c, sp, its) for n in (3, 6) for c in (1, 2) for sp in (True, False) for its in ([None, None], [1, None], [1, 2])] if thorough else []):
        sc = {"target": "sorter", "n": n, "capacity": cap, "always_spill": sp, "iters": iters, "carry_on": False}
        yield "clean", dict(sc, plan=[])
        for k in some(range(len(calls_of(sc))), 30):
            yield "re-iterate", dict(sc, plan=[_one(k)])
    # 3. a read fails with EOFError (what gzip raises when a spill file ends early); a spill file really cut short
    for (n, cap, sp) in shapes[:4] + shapes[6:]:
        for carry in (False, True):
            sc = {"target": "sorter", "n": n, "capacity": cap, "always_spill": sp, "iters": [None], "carry_on": carry}
            reads = calls_of(sc).count("read")
            for i in some(range(reads), 12):
                yield "eof-read", dict(sc, plan=[{"kind": "read", "by": "kind", "from": i, "count": 1, "exc": "EOFError"}])
                yield "zlib-read", dict(sc, plan=[{"kind": "read", "by": "kind", "from": i, "count": 1, "exc": "zlib.error"}])
    # (runs long enough for a cut to leave some, but not all, of their records readable)
    for (n, cap, sp) in [(4, 2, True), (40, 20, True), (36, 12, False)] + ([(n, c, sp) for n in (7, 60) for c in (3, 25) for sp in (True, False)] if thorough else []):
        sc = {"target": "sorter", "n": n, "capacity": cap, "always_spill": sp, "iters": [None], "carry_on": False, "plan": []}
        for f in range(n // cap):
            for cut in (1, 0.4, 0.6, 0.8, -24, -14, -9, -1):
                yield "truncate", dict(sc, truncate={"file": f, "cut": cut})
            for at in (0.0, 0.5, 0.7, 0.9, 0.99):
                yield "damage", dict(sc, truncate={"file": f, "flip": at})
    for (n, cap) in wshapes[:2] + wshapes[3:]:
        sc = {"target": "writer", "n": n, "capacity": cap, "carry_on": False}
        for i in some(range(calls_of(sc).count("read")), 8):
            yield "writer-eof-read", dict(sc, plan=[{"kind": "read", "by": "kind", "from": i, "count": 1, "exc": rng.choice(["EOFError", "EOFError", "zlib.error"])}])
    for (n, cap) in [(5, 2), (30, 10)] + ([(45, 20)] if thorough else []):
        sc = {"target": "writer", "n": n, "capacity": cap, "carry_on": False}
        for f in range(n // cap):
            for cut in (1, 0.5, 0.8, -20, -9, -1):
                yield "writer-truncate", dict(sc, plan=[], truncate={"file": f, "cut": cut})
    # 4. faults that last until the first close() has returned or raised, then a retried close(); several faults in one run
    for (n, cap, sp, iters) in [(6, 2, True, [None]), (9, 3, True, [None]), (5, 2, False, [None]), (6, 2, True, [2])] + (
            [(n, c, sp, its) for n in (4, 8) for c in (1, 3) for sp in (True, False) for its in ([None], [1])] if thorough else []):
        sc = {"target": "sorter", "n": n, "capacity": cap, "always_spill": sp, "iters": iters, "carry_on": False}
        calls = calls_of(sc)
        for kind in KINDS:
            occ = calls.count(kind)
            for i in sorted({0, 1, occ - 1} & set(range(occ))):
                yield "lasting", dict(sc, plan=[{"kind": kind, "by": "kind", "from": i, "count": None, "heal": "close"}])
        for k in some(range(len(calls)), 16):
            yield "blackout", dict(sc, plan=[{"kind": "*", "by": "pos", "from": k, "count": None, "heal": "close"}])
        for _ in range(ctx.scale(12, 60)):
            plan = []
            for _r in range(rng.choice([2, 2, 3])):
                kind = rng.choice([c for c in KINDS if c in calls])
                plan.append({"kind": kind, "by": "kind", "from": rng.randrange(calls.count(kind)), "count": rng.choice([1, 1, 2])})
            yield "multi", dict(sc, plan=plan)
    sc = {"target": "writer", "n": 6, "capacity": 2, "carry_on": True}
    for kind in KINDS:
        yield "writer-lasting", dict(sc, plan=[{"kind": kind, "by": "kind", "from": rng.randrange(2), "count": None, "heal": "close"}])


# ---- correspondence with the Lean effect model
def model_request(n, cap, sp, ab, k):
    r = {"op": "sorter.faults", "n": n, "cap": cap, "always_spill": sp}
    if ab is not None:
        r["abandon"] = ab
    if k is not None:
        r["fail_at"] = k
    return r


def impl_view(obs):
    """The observation of one scenario in the vocabulary of the effect model."""
    return {"calls": obs["calls"], "raised": [list(x) for x in obs["raised"]],
            "output": [x[0] for x in obs["output"]] if obs["output"] is not None else None,
            "fired": obs["fired"] is not None, "leaked_files": obs["leaked_files"], "leaked_fds": obs["leaked_fds"],
            "open_handles": len(obs["open_handles"])}


def compare_model(m, i, wl):
    """None when the model's answer equals the implementation's view, else the disagreement dict."""
    if m == i:
        return None
    keys = [k for k in m if m[k] != i.get(k)]
    d = {"op": "sorter.faults", "workload": wl, "differs": keys}
    if "calls" in keys:
        j = next((x for x in range(min(len(m["calls"]), len(i["calls"]))) if m["calls"][x] != i["calls"][x]), min(len(m["calls"]), len(i["calls"])))
        d["calls_differ_at"] = j
        d["model_calls"] = m["calls"][j:j + 5]
        d["impl_calls"] = i["calls"][j:j + 5]
    for k in keys:
        if k != "calls":
            d["model_" + k], d["impl_" + k] = m[k], i.get(k)
    return d


def eval_lenient_writer(mode, records):
    """A sorting writer created with a non-strict stringency under gdc-1.0.0 is offered records some of which carry a
    value the scheme cannot build (scheme-less text records).  Whatever it does with them: if close() returns normally the
    output contains every record whose write returned normally, exactly as it was written.
    `records`: list of {"pos": int, "bad": None | [column, text]}."""
    import io
    from maflib.header import MafHeader
    from maflib.writer import MafWriter
    from maflib.record import MafRecord
    from maflib.column import MafColumnRecord
    from maflib.validation import ValidationStringency as VS
    from .. import impl as _impl, sortcases as SC
    sch = _impl.scheme_by_annotation("gdc-1.0.0")
    names = sch.column_names()
    base = list(SC._base_fields("gdc-1.0.0", None))
    where = {"kind": "lenient-writer", "mode": mode, "records": records}
    h = MafHeader.from_lines(["#version gdc-1.0.0", "#sort.order Coordinate"], validation_stringency=VS.Silent)
    buf = io.StringIO()
    buf.close = lambda: None
    with _impl.LogCapture():
        try:
            w = MafWriter.from_fd(buf, h, validation_stringency=_impl.MODES[mode], assume_sorted=False)
        except Exception as e:  # noqa
            return [dict(where, what="opening the writer failed with %s" % exc_name(e))]
        accepted = []
        for r in records:
            fields = dict(zip(names, base))
            fields["Chromosome"], fields["Start_Position"], fields["End_Position"] = "1", str(r["pos"]), str(r["pos"])
            if r.get("bad"):
                fields[r["bad"][0]] = r["bad"][1]
            rec = MafRecord()
            for k, n in enumerate(names):
                rec.add(MafColumnRecord(n, fields[n], column_index=k))      # a text record from a scheme-less source
            text = str(rec)
            try:
                w += rec
                accepted.append(text)
            except Exception:  # noqa
                pass
        try:
            w.close()
        except Exception:  # noqa
            return []                      # close() reported a failure: the property speaks about a close() that returns normally
    body = [l for l in buf.getvalue().split("\n") if l and not l.startswith("#")][1:]
    missing = [t for t in accepted if t not in body]
    if missing:
        return [dict(where, what="close() of a %s sorting writer returned normally but %d of the %d records whose write returned normally are not in the output as written" % (
            mode, len(missing), len(accepted)), missing=[m.split("\t")[:8] for m in missing][:3])]
    return []


def eval_writer_handle_closed_first(n, typed):
    """The caller owns the handle and closes it BEFORE the sorting writer (with open(...) as fh: w = from_fd(fh, ...);
    w += ...  -- then w.close() after the block).  Whatever close() does about the closed handle: if it returns normally
    the file holds every record whose write returned normally, and afterwards nothing of the sorter is left behind."""
    import glob
    from maflib.header import MafHeader
    from maflib.writer import MafWriter
    from maflib.validation import ValidationStringency as VS
    from .. import impl as _impl, sortcases as SC
    where = {"kind": "handle-closed-first", "records": n, "typed": typed}
    fails = []
    with tempfile.TemporaryDirectory() as tmp, _impl.LogCapture():
        saved = tempfile.tempdir
        spill = os.path.join(tmp, "spill")
        os.mkdir(spill)
        tempfile.tempdir = spill
        try:
            path = os.path.join(tmp, "out.maf")
            h = MafHeader.from_lines(["#version gdc-1.0.0"] + ([] if typed else ["#annotation.spec lab"]) + ["#sort.order Coordinate"], validation_stringency=VS.Silent)
            with open(path, "w") as fh:
                w = MafWriter.from_fd(fh, h, validation_stringency=VS.Silent, assume_sorted=False)
                for k in range(n):
                    w += (SC.typed_record(None, "T", "N", "1", n - k, n - k) if typed else SC.untyped_record("T", "N", "1", str(n - k), str(n - k)))
            returned = False
            for _attempt in range(2):
                try:
                    w.close()
                    returned = True
                    break
                except Exception:  # noqa
                    continue
            if returned:
                with open(path) as fh2:
                    body = [l for l in fh2.read().split("\n") if l and not l.startswith("#")][1:]
                if len(body) != n:
                    fails.append(dict(where, what="the caller closed its handle before the sorting writer: close() returned normally but the file holds %d of the %d records whose write returned normally" % (len(body), n)))
                left = glob.glob(spill + "/*")
                if left:
                    fails.append(dict(where, what="the caller closed its handle before the sorting writer: close() returned normally and left %d spill file(s) behind" % len(left)))
        finally:
            tempfile.tempdir = saved
    return fails[:1]


STDIN_CLOSED_SCRIPT = r"""
import json, os, sys, tempfile
sys.path.insert(0, sys.argv[1])
from maflib.sorter import Sorter
import struct
class Codec:
    def encode(self, o): return bytearray(json.dumps(o).encode())
    def decode(self, d, s, l): return json.loads(bytes(d[s:s + l]).decode())
tmp = tempfile.mkdtemp()
s = Sorter(2, Codec(), lambda x: x, tmp_dir=tmp, always_spill=True)
for k in (5, 3, 9, 1, 7):
    s += k
out = list(s)
s.close()
left = []
for fd in os.listdir('/proc/self/fd'):
    try:
        t = os.readlink('/proc/self/fd/' + fd)
    except OSError:
        continue
    if tmp in t:
        left.append([int(fd), t])
print(json.dumps({"sorted": out, "files": os.listdir(tmp), "fds": left}))
"""


def eval_stdin_closed():
    """The same clean-up in a process that runs without standard input (a daemon, a cron job: descriptor 0 is free, so
    the first spill file may get it): after close() no spill file and no descriptor on one is left."""
    import subprocess
    import sys
    from ..common import REPO
    where = {"kind": "stdin-closed"}
    p = subprocess.run([sys.executable, "-c", STDIN_CLOSED_SCRIPT, REPO], stdout=subprocess.PIPE, stderr=subprocess.PIPE, text=True, timeout=120,
                       preexec_fn=lambda: os.close(0))
    try:
        res = json.loads(p.stdout.strip().splitlines()[-1])
    except Exception:  # noqa
        return [dict(where, what="a sort in a process without standard input failed: %s" % (p.stderr.strip().splitlines() or ["no output"])[-1][:200])]
    if res["sorted"] != [1, 3, 5, 7, 9]:
        return [dict(where, what="a sort in a process without standard input returned %s" % res["sorted"])]
    if res["files"] or res["fds"]:
        return [dict(where, what="in a process without standard input, after close(): %d spill file(s) and %d descriptor(s) on spill files left behind (%s)" % (
            len(res["files"]), len(res["fds"]), res["fds"][:2]))]
    return []


def handle_closed_first_cases(ctx, out):
    out.evaluations += 1
    out.failures += eval_stdin_closed()
    out.distribution["sort in a process without standard input"] += 1
    out.nontrivial.add(("stdin-closed",))
    for n in ([1, 5] if ctx.tier == "quick" else [1, 5, 10003]):
        for typed in (False, True):
            out.evaluations += 1
            out.failures += eval_writer_handle_closed_first(n, typed)
            out.distribution["sorting writer whose handle the caller closed first"] += 1
            out.nontrivial.add(("handle-closed-first", n, typed))


def lenient_writer_cases(ctx, out):
    rng = ctx.rng("c18-lenient")
    bads = [["Strand", "?"], ["Entrez_Gene_Id", "n/a"], ["Variant_Type", "weird"], ["Reference_Allele", "acgu"], ["Tumor_Sample_UUID", "not-a-uuid"]]
    for _ in range(ctx.scale(12, 100)):
        n = rng.randrange(1, 6)
        records = [{"pos": rng.choice([5, 9, 10, 100, 1000]), "bad": rng.choice(bads) if rng.random() < 0.4 else None} for _k in range(n)]
        if not any(r["bad"] for r in records):
            records[rng.randrange(n)]["bad"] = rng.choice(bads)
        mode = rng.choice(["Lenient", "Silent"])
        out.evaluations += 1
        out.failures += eval_lenient_writer(mode, records)
        out.distribution["non-strict sorting writer offered records the scheme cannot build"] += 1
        out.nontrivial.add(("lenient-writer", mode, json.dumps(records, sort_keys=True)))


def run(ctx):
    out = Outcome()
    out.rule = ("workloads (n records, capacity, spill policy, optional early abandonment after j items, optional second iteration); a fault-free run fixes the sequence of I/O calls "
                "(mkstemp, gzip.open, write, read, handle.close, os.close, os.remove); then one run per call position with OSError injected there; after close() (twice) the temp directory, "
                "the mkstemp descriptors and the gzip handles are inspected; every injected run is non-trivial; distinct (workload, position).  Fault plans (implementation only): "
                "a caller that carries on after a reported failure (keeps adding / writing, iterates or closes again; what returned normally must be complete), several iterations, "
                "reads failing with EOFError / zlib.error, spill files cut short or damaged on disk between spill and merge, faults of one call kind (or of every call) that last until "
                "the first close() has ended followed by a retried close(), 2-3 faults in one run; Sorter and sorting MafWriter (small sorter capacity)")
    rng = ctx.rng("c18")
    workloads = [(0, 2, True, None), (1, 2, True, None), (3, 2, True, None), (4, 2, True, None), (5, 2, False, None), (2, 3, False, None),
                 (5, 1, True, None), (6, 2, True, 2), (5, 2, True, 3), (4, 3, True, 1)]
    if ctx.tier == "thorough":
        workloads += [(n, c, sp, ab) for n in range(0, 9) for c in (1, 2, 3, 4) for sp in (True, False) for ab in (None, 1)]
    fault_positions = []
    corr = []      # (workload, observation) pairs compared with the Lean effect model
    with tempfile.TemporaryDirectory() as tmp:
        # many spill files (more than any plausible per-process descriptor budget heuristics): fault-free and a few faults
        for (n, cap) in [(300, 2), (450, 3)]:
            out.evaluations += 1
            base, failures = eval_many_clean(n, cap, tmp)
            out.failures += failures
            for k in sorted(rng.sample(range(len(base["calls"])), min(6, len(base["calls"])))):
                out.evaluations += 1
                obs, failures = eval_many_fault(n, cap, k, base["calls"][k], tmp)
                out.failures += failures
                out.nontrivial.add(("many-files", n, cap, k))
        for (n, cap, sp, ab) in workloads:
            out.evaluations += 1
            base, failures, stop = eval_workload_clean(n, cap, sp, ab, tmp)
            out.failures += failures
            if stop:
                continue
            where = {"n": n, "capacity": cap, "always_spill": sp, "abandon_after": ab}
            ncalls = len(base["calls"])
            out.distribution["io_calls"] += ncalls
            corr.append(((n, cap, sp, ab, None), scenario(n, cap, sp, ab, None, tmp)))
            positions = range(ncalls) if (ctx.tier == "thorough" or ncalls <= 60) else sorted(rng.sample(range(ncalls), 60))
            for k in positions:
                out.evaluations += 1
                obs, failures = eval_workload_fault(n, cap, sp, ab, k, base["calls"][k], tmp)
                corr.append(((n, cap, sp, ab, k), obs))
                w2 = dict(where, fault_at=k, call=base["calls"][k])
                fault_positions.append((n, cap, sp, ab, k, base["calls"][k]))
                out.nontrivial.add(repr(w2))
                if obs["fired"] is None:
                    out.distribution["fault-not-reached"] += 1
                    continue
                out.failures += failures
                out.distribution["fault:" + base["calls"][k].split("(")[0]] += 1
            if len(out.samples) < 2 and ncalls > 10:
                out.sample(dict(where, io_calls=base["calls"][:14], n_calls=ncalls))
        # a sorting writer: close() returning normally means every record is in the output
        for n in (3, 5):
            base, failures = eval_writer_clean(n, tmp)
            out.failures += failures
            if failures:
                continue
            for k in range(len(base["calls"])):
                out.evaluations += 1
                obs, failures = eval_writer_fault(n, k, base["calls"][k], tmp)
                if obs["fired"] is None:
                    continue
                out.failures += failures
                out.nontrivial.add(("writer", n, k))
        # fault plans the effect model cannot express (implementation side only)
        prng = ctx.rng("c18-plans")
        sampled = set()
        for fam, sc in plan_cases(ctx, prng, tmp):
            if fam in PENDING_DEFECTS:
                continue
            out.evaluations += 1
            obs, failures = eval_plan(sc, tmp)
            out.failures += [dict(g, family=fam) for g in failures]
            out.distribution["plan:" + fam] += 1
            if obs["fired"] or obs["truncated"]:
                out.nontrivial.add(json.dumps(sc, sort_keys=True))
            elif fam != "clean":
                out.distribution["plan:fault-not-reached"] += 1
            if fam in ("lasting", "truncate") and (obs["fired"] or obs["truncated"]) and fam not in sampled:
                sampled.add(fam)
                out.sample({"family": fam, "case": sc, "raised": obs["raised"][:4]}, limit=4)
    out.notes.append("fault plans of the families carry-on, re-iterate, eof-read, zlib-read, truncate, damage, lasting, blackout, multi (and their writer variants) are run on the "
                     "implementation only: the effect model (driver op sorter.faults) takes one transient OSError and a caller that gives up at the first failure")
    # correspondence: the effect model predicts the exact I/O call sequence, what is raised in which phase, and what is left
    reqs = [model_request(*wl) for wl, _obs in corr]
    mo = ctx.driver.run(reqs)
    for r, m, (wl, obs) in zip(reqs, mo, corr):
        d = compare_model(m, impl_view(obs), wl)
        if d is not None:
            out.disagreements.append(d)
    out.extra["traces_compared_with_model"] = len(reqs)
    out.extra["fault_positions"] = len(fault_positions)
    out.extra["fault_position_samples"] = fault_positions[:8]
    lenient_writer_cases(ctx, out)
    handle_closed_first_cases(ctx, out)
    return out


def _show(tag, v):
    print("%s raised=%s leaked_files=%s leaked_fds=%s open_handles=%s fault_fired=%s; %d I/O call(s)" % (
        tag, v.get("raised"), v.get("leaked_files"), v.get("leaked_fds"), v.get("open_handles"), v.get("fired"), len(v.get("calls") or [])))


def _calls_around(calls, k):
    lo = max(0, (k or 0) - 3)
    return "calls[%d:%d] = %s" % (lo, lo + 8, calls[lo:lo + 8])


def _plan_text(sc):
    rules = []
    for r in sc.get("plan") or []:
        if r.get("kind", "*") == "*" and r.get("by") == "pos" and r.get("count") == 1:
            rules.append("I/O call %d of the run fails with %s" % (r["from"], r.get("exc") or "OSError"))
            continue
        what = "every call" if r.get("kind", "*") == "*" else r["kind"]
        where = "from call %d of the run" % r["from"] if r.get("by") == "pos" else "from its occurrence %d" % r["from"]
        rules.append("%s %s fails with %s (%s%s)" % (what, where, r.get("exc") or "OSError", "once" if r.get("count") == 1 else "%s time(s)" % r["count"] if r.get("count") else "every time",
                                                  ", until the first close() has returned or raised" if r.get("heal") == "close" else ""))
    tr = sc.get("truncate")
    if tr and "flip" in tr:
        rules.append("spill file %d is damaged (the byte at %d%% of its length is inverted) before the merge" % (tr["file"], int(tr["flip"] * 100)))
    elif tr:
        rules.append("spill file %d is cut short (%s) before the merge" % (tr["file"], "%d byte(s) kept" % tr["cut"] if isinstance(tr["cut"], int) and tr["cut"] > 0
                                                                             else "%d byte(s) dropped" % -tr["cut"] if isinstance(tr["cut"], int) else "fraction %s kept" % tr["cut"]))
    return "; ".join(rules) or "no fault"


def _replay_plan(f):
    sc = f.get("case")
    if not isinstance(sc, dict) or not isinstance(sc.get("n"), int):
        return None
    if sc.get("target") == "writer":
        print("executed: sorting MafWriter (assume_sorted=False, Coordinate; sorter capacity %s) over %d records; the caller %s; faults: %s" % (
            sc.get("capacity") or "default", sc["n"], "carries on after a reported failure (keeps writing, closes twice)" if sc.get("carry_on") else "stops writing at the first failure and closes once",
            _plan_text(sc)))
    else:
        print("executed: Sorter(capacity %s, always_spill=%s), %d records added, iterations %s, close() (retried on failure); the caller %s; faults: %s" % (
            sc.get("capacity"), sc.get("always_spill"), sc["n"], ["to the end" if j is None else "abandoned after %d" % j for j in sc.get("iters", [None])],
            "carries on after a reported failure" if sc.get("carry_on") else "goes straight to close() at the first failure", _plan_text(sc)))
    with tempfile.TemporaryDirectory() as tmp:
        obs, failures = eval_plan(sc, tmp)
    print("implementation: %d I/O call(s), injected %s, file cut %s" % (len(obs["calls"]), obs["fired"][:6], obs["truncated"]))
    print("implementation: raised=%s" % obs["raised"][:8])
    if sc.get("target") == "writer":
        print("implementation: close() %s; %d write(s) returned normally, %d record line(s) in the output" % (
            "returned normally" if obs["closed_normally"] else "raised", len(obs["added"]), len(obs["lines"])))
    else:
        print("implementation: %d add(s) returned normally; iterations %s; close attempts %s" % (
            len(obs["added"]), [("returned" if i["returned"] else "raised", i["keys"]) for i in obs["iterations"]], obs["closes"]))
    print("implementation: leaked_files=%s leaked_fds=%s open_handles=%s" % (obs["leaked_files"], obs["leaked_fds"], obs["open_handles"]))
    print("model: not consulted (the effect model takes one transient OSError and a caller that gives up)")
    for g in failures:
        print("oracle: [%s] %s" % (g["kind"], g["what"]))
    if not failures:
        print("oracle: satisfied (every failure reported, nothing added successfully is missing, nothing left behind)")
    return failures


def replay_case(ctx, failure):
    if failure.get("kind") == "stdin-closed":
        fails = eval_stdin_closed()
        print("replay C18: child interpreter started with descriptor 0 closed; Sorter(2, always_spill=True) += 5 items; list(sorter); close(); /proc/self/fd and the temp directory inspected")
        for x in fails:
            print("  oracle: %s" % x["what"])
        return fails
    if failure.get("kind") == "handle-closed-first" and "records" in failure:
        fails = eval_writer_handle_closed_first(int(failure["records"]), bool(failure.get("typed")))
        print("replay C18: with open(path, 'w') as fh: w = MafWriter.from_fd(fh, header declaring Coordinate, Silent, assume_sorted=False); %d records written; after the block w.close() (twice at most)" % int(failure["records"]))
        for x in fails:
            print("  oracle: %s" % x["what"])
        return fails
    if failure.get("kind") == "lenient-writer" and "records" in failure:
        fails = eval_lenient_writer(failure["mode"], failure["records"])
        print("replay C18: a %s sorting MafWriter (gdc-1.0.0, sort.order Coordinate) offered %d scheme-less text record(s): %s" % (failure["mode"], len(failure["records"]), failure["records"]))
        for x in fails:
            print("  oracle: %s" % x["what"])
        return fails
    """Re-evaluate the stored failing input on the current implementation; return the list of failure dicts it
    produces now (empty list = the property holds on that input)."""
    f = failure
    kind = f.get("kind")
    sc = f.get("scenario")
    if sc == "plan":
        return _replay_plan(f)
    if sc is None:                       # files written before the field existed
        if "always_spill" in f:
            sc = "workload"
        elif kind == "writer-incomplete":
            sc = "writer"
        elif "capacity" in f:
            sc = "many-files"
    n, cap, k = f.get("n"), f.get("capacity"), f.get("fault_at")
    if not isinstance(n, int):
        return None
    with tempfile.TemporaryDirectory() as tmp:
        if sc == "many-files" and isinstance(cap, int):
            if kind == "clean-run":
                print("executed: fault-free sort of %d records, capacity %d, always_spill (%d spill files), then close()" % (n, cap, n // cap))
                obs, failures = eval_many_clean(n, cap, tmp)
                print("implementation: %d item(s) returned" % len(obs["output"] or []))
            elif kind == "leak" and isinstance(k, int):
                print("executed: sort of %d records, capacity %d, always_spill (%d spill files), OSError injected at I/O call %d (%s in the fault-free run), then close() (retried on failure)" % (
                    n, cap, n // cap, k, f.get("call")))
                obs, failures = eval_many_fault(n, cap, k, f.get("call"), tmp)
                print("implementation: %s" % _calls_around(obs["calls"], k))
            else:
                return None
            _show("implementation:", dict(obs, open_handles=len(obs["open_handles"])))
        elif sc == "workload" and isinstance(cap, int) and "always_spill" in f:
            sp, ab = f["always_spill"], f.get("abandon_after")
            desc = "%d records, capacity %d, always_spill=%s, %s" % (n, cap, sp, "iteration abandoned after %d item(s)" % ab if ab is not None else "iterated to the end")
            if kind == "clean-run":
                print("executed: fault-free sort (%s%s), then close()" % (desc, ", iterated a second time" if ab is None else ""))
                obs, failures, _stop = eval_workload_clean(n, cap, sp, ab, tmp)
                print("implementation: output keys %s%s" % ([x[0] for x in obs["output"]] if obs["output"] is not None else None,
                                                            "; second iteration %s" % ("equal" if obs.get("output2") == obs["output"] else "differs") if ab is None else ""))
                mobs, k = scenario(n, cap, sp, ab, None, tmp), None      # the trace compared with the model is that of a single iteration
            elif kind in ("swallowed", "other-exception", "leak") and isinstance(k, int):
                print("executed: sort (%s) with OSError injected at I/O call %d (%s in the fault-free run), then close() (retried on failure)" % (desc, k, f.get("call")))
                obs, failures = eval_workload_fault(n, cap, sp, ab, k, f.get("call"), tmp)
                print("implementation: %s" % _calls_around(obs["calls"], k))
                mobs = obs
            else:
                return None
            _show("implementation:", dict(obs, open_handles=len(obs["open_handles"])))
            if ctx.driver.available():
                try:
                    m = ctx.driver.run([model_request(n, cap, sp, ab, k)])[0]
                    _show("model:         ", m)
                    d = compare_model(m, impl_view(mobs), (n, cap, sp, ab, k))
                    if d is None:
                        print("model vs implementation: the I/O trace, what is raised and what is left behind agree exactly")
                    else:
                        print("model vs implementation: differ in %s %s" % (d["differs"], {x: d[x] for x in d if x.startswith("model_") or x.startswith("impl_") or x == "calls_differ_at"}))
                except Exception as e:  # noqa
                    print("model: driver failed (%s)" % str(e)[:200])
        elif sc == "writer":
            if kind == "clean-run":
                print("executed: fault-free sorting MafWriter (assume_sorted=False, Coordinate) over %d records, then close()" % n)
                obs, failures = eval_writer_clean(n, tmp)
            elif kind == "writer-incomplete" and isinstance(k, int):
                print("executed: sorting MafWriter over %d records with OSError injected at I/O call %d (%s in the fault-free run), then close()" % (n, k, f.get("call")))
                obs, failures = eval_writer_fault(n, k, f.get("call"), tmp)
            else:
                return None
            print("implementation: raised=%s, %d of %d record line(s) in the output, fault_fired=%s, leaked_files=%s leaked_fds=%s" % (
                obs["raised"], obs["lines"], n, obs["fired"], obs["leaked_files"], obs["leaked_fds"]))
        else:
            return None
    for g in failures:
        print("oracle: [%s] %s" % (g["kind"], g["what"]))
    if not failures:
        print("oracle: satisfied (%s)" % ("the fault did not fire on this tree" if isinstance(k, int) and obs.get("fired") is None else "failure reported to the caller, nothing left behind"
                                          if isinstance(k, int) and sc != "writer" else "nothing left behind, output complete"))
    return failures


def search(ctx):
    return run(ctx)

