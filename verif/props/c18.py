"""C18 - the sorter leaves no spill files or descriptors behind, even when I/O fails."""
import json
import tempfile

from .. import impl
from ..common import exc_name
from ..faults import Injector
from ..runner import Outcome
from .c07 import JsonCodec

LEVEL = "fault_enumeration"
ASSUMPTIONS = ["a failed close() still releases the descriptor (Linux semantics); a failed remove leaves the file in place and a later close() may retry",
               "os.close really closes and os.remove really removes (observed through fstat / the directory, not proved)",
               "prompt finalisation of an abandoned generator relies on CPython reference counting (observed)"]


def scenario(n, cap, always_spill, abandon, fail_at, tmp, reiterate=False):
    """One sort with a fault at I/O call number `fail_at` (None = fault-free).  Returns observations."""
    from maflib.sorter import Sorter
    inj = Injector(fail_at=fail_at)
    inj.install()
    obs = {"raised": [], "phase": None, "output": None}
    try:
        s = Sorter(cap, JsonCodec(), lambda x: x[0], tmp_dir=tmp, always_spill=always_spill)
        try:
            obs["phase"] = "add"
            for k in range(n):
                s += (n - k, "v%d" % k)
            obs["phase"] = "iterate"
            outp = []
            it = iter(s)
            for x in it:
                outp.append(x)
                if abandon is not None and len(outp) >= abandon:
                    break
            if abandon is not None:
                del it
            obs["output"] = outp
            if reiterate:
                obs["output2"] = list(s)
            obs["phase"] = "close"
        except Exception as e:  # noqa
            obs["raised"].append((obs["phase"], exc_name(e)))
        # the caller closes the sorter, as it must; when close() itself reports a failure the caller closes again
        # (the injected fault is transient: it fires once)
        for attempt in range(3):
            try:
                s.close()
                break
            except Exception as e:  # noqa
                obs["raised"].append(("close#%d" % attempt, exc_name(e)))
        obs["calls"] = list(inj.calls)
        obs["fired"] = inj.fired
        obs["leaked_files"] = len(inj.leaked_files())
        obs["leaked_fds"] = len(inj.leaked_fds())
        obs["open_handles"] = inj.open_handles()
    finally:
        inj.uninstall()
        inj.cleanup()
    return obs


def writer_scenario(n, fail_at, tmp):
    """A sorting MafWriter: if close() returns normally the output holds every record."""
    import maflib.sorter as S
    from maflib.header import MafHeader
    from maflib.writer import MafWriter
    from maflib.validation import ValidationStringency as VS
    from .. import sortcases as SC
    inj = Injector(fail_at=fail_at)
    old_tmp = tempfile.tempdir
    tempfile.tempdir = tmp
    inj.install()
    obs = {"raised": None}
    try:
        buf = impl.RecordingHandle()
        h = MafHeader.from_lines(["#version gdc-1.0.0", "#annotation.spec lab", "#sort.order Coordinate"], validation_stringency=VS.Silent)
        w = MafWriter.from_fd(buf, h, validation_stringency=VS.Silent, assume_sorted=False)
        try:
            for k in range(n):
                w += SC.untyped_record("T", "N", "chr1", str(100 - k), str(100 - k))
            w.close()
        except Exception as e:  # noqa
            obs["raised"] = exc_name(e)
        obs["lines"] = len([l for l in buf.text().split("\n")[4:] if l])
        obs["calls"] = list(inj.calls)
        obs["fired"] = inj.fired
        if w._sorter is not None:
            try:
                w._sorter.close()
            except Exception:  # noqa
                pass
        obs["leaked_files"] = len(inj.leaked_files())
        obs["leaked_fds"] = len(inj.leaked_fds())
    finally:
        inj.uninstall()
        inj.cleanup()
        tempfile.tempdir = old_tmp
    return obs


def run(ctx):
    out = Outcome()
    out.rule = ("workloads (n records, capacity, spill policy, optional early abandonment after j items, optional second iteration); a fault-free run fixes the sequence of I/O calls "
                "(mkstemp, gzip.open, write, read, handle.close, os.close, os.remove); then one run per call position with OSError injected there; after close() (twice) the temp directory, "
                "the mkstemp descriptors and the gzip handles are inspected; every injected run is non-trivial; distinct (workload, position)")
    rng = ctx.rng("c18")
    workloads = [(0, 2, True, None), (1, 2, True, None), (3, 2, True, None), (4, 2, True, None), (5, 2, False, None), (2, 3, False, None),
                 (5, 1, True, None), (6, 2, True, 2), (5, 2, True, 3), (4, 3, True, 1)]
    if ctx.tier == "thorough":
        workloads += [(n, c, sp, ab) for n in range(0, 9) for c in (1, 2, 3, 4) for sp in (True, False) for ab in (None, 1)]
    fault_positions = []
    corr = []      # (workload, observation) pairs compared with the Lean effect model
    with tempfile.TemporaryDirectory() as tmp:
        # many spill files (more than any plausible per-process descriptor budget heuristics): fault-free and a few faults
        for (n, cap) in [(300, 2), (450, 3)]:
            out.evaluations += 1
            base = scenario(n, cap, True, None, None, tmp)
            if base["raised"] or base["leaked_files"] or base["leaked_fds"] or base["open_handles"] or len(base["output"]) != n:
                out.failures.append({"what": "fault-free sort with %d spill files leaves resources behind or fails" % (n // cap), "kind": "clean-run",
                                     "n": n, "capacity": cap, "got": {k: base[k] for k in ("raised", "leaked_files", "leaked_fds", "open_handles")}})
            for k in sorted(rng.sample(range(len(base["calls"])), 6)):
                out.evaluations += 1
                obs = scenario(n, cap, True, None, k, tmp)
                if obs["fired"] is not None and (obs["leaked_files"] or obs["leaked_fds"] or obs["open_handles"] or not obs["raised"]):
                    out.failures.append({"what": "fault at call %d (%s) of a %d-file sort: leak or swallowed failure" % (k, base["calls"][k], n // cap),
                                         "kind": "leak", "n": n, "capacity": cap, "got": {kk: obs[kk] for kk in ("raised", "leaked_files", "leaked_fds", "open_handles")}})
                out.nontrivial.add(("many-files", n, cap, k))
        for (n, cap, sp, ab) in workloads:
            out.evaluations += 1
            base = scenario(n, cap, sp, ab, None, tmp, reiterate=(ab is None))
            where = {"n": n, "capacity": cap, "always_spill": sp, "abandon_after": ab}
            if base["raised"] or base["leaked_files"] or base["leaked_fds"] or base["open_handles"]:
                out.failures.append(dict(where, what="fault-free sort leaves resources behind or fails", kind="clean-run",
                                         got={k: base[k] for k in ("raised", "leaked_files", "leaked_fds", "open_handles")}))
                continue
            if ab is None and (base["output"] != sorted(base["output"]) or len(base["output"]) != n or base.get("output2") != base["output"]):
                out.failures.append(dict(where, what="fault-free sort is wrong", kind="clean-run"))
            ncalls = len(base["calls"])
            out.distribution["io_calls"] += ncalls
            corr.append(((n, cap, sp, ab, None), scenario(n, cap, sp, ab, None, tmp)))
            positions = range(ncalls) if (ctx.tier == "thorough" or ncalls <= 60) else sorted(rng.sample(range(ncalls), 60))
            for k in positions:
                out.evaluations += 1
                obs = scenario(n, cap, sp, ab, k, tmp)
                corr.append(((n, cap, sp, ab, k), obs))
                w2 = dict(where, fault_at=k, call=base["calls"][k])
                fault_positions.append((n, cap, sp, ab, k, base["calls"][k]))
                out.nontrivial.add(repr(w2))
                if obs["fired"] is None:
                    out.distribution["fault-not-reached"] += 1
                    continue
                if not obs["raised"]:
                    out.failures.append(dict(w2, what="the injected I/O failure never reached the caller", kind="swallowed", phase=obs["phase"]))
                elif any(not r[1].startswith("OSError") for r in obs["raised"]):
                    out.failures.append(dict(w2, what="a failure other than the I/O error escaped", kind="other-exception", got=obs["raised"]))
                if obs["leaked_files"] or obs["leaked_fds"] or obs["open_handles"]:
                    out.failures.append(dict(w2, what="after close(): %d spill file(s), %d descriptor(s), %d open gzip handle(s) left behind" % (
                        obs["leaked_files"], obs["leaked_fds"], len(obs["open_handles"])), kind="leak", raised=obs["raised"]))
                out.distribution["fault:" + base["calls"][k].split("(")[0]] += 1
            if len(out.samples) < 2 and ncalls > 10:
                out.sample(dict(where, io_calls=base["calls"][:14], n_calls=ncalls))
        # a sorting writer: close() returning normally means every record is in the output
        for n in (3, 5):
            base = writer_scenario(n, None, tmp)
            if base["raised"] or base["lines"] != n:
                out.failures.append({"what": "fault-free sorting writer is wrong", "kind": "clean-run", "got": base})
                continue
            for k in range(len(base["calls"])):
                out.evaluations += 1
                obs = writer_scenario(n, k, tmp)
                if obs["fired"] is None:
                    continue
                if obs["raised"] is None and obs["lines"] != n:
                    out.failures.append({"what": "writer.close() returned normally but the output holds %d of %d records" % (obs["lines"], n),
                                         "kind": "writer-incomplete", "n": n, "fault_at": k, "call": base["calls"][k]})
                out.nontrivial.add(("writer", n, k))
    # correspondence: the effect model predicts the exact I/O call sequence, what is raised in which phase, and what is left
    reqs = []
    for (n, cap, sp, ab, k), obs in corr:
        r = {"op": "sorter.faults", "n": n, "cap": cap, "always_spill": sp}
        if ab is not None:
            r["abandon"] = ab
        if k is not None:
            r["fail_at"] = k
        reqs.append(r)
    mo = ctx.driver.run(reqs)
    for r, m, (wl, obs) in zip(reqs, mo, corr):
        i = {"calls": obs["calls"], "raised": [list(x) for x in obs["raised"]],
             "output": [x[0] for x in obs["output"]] if obs["output"] is not None else None,
             "fired": obs["fired"] is not None, "leaked_files": obs["leaked_files"], "leaked_fds": obs["leaked_fds"],
             "open_handles": len(obs["open_handles"])}
        if m != i:
            keys = [k for k in m if m[k] != i.get(k)]
            d = {"op": "sorter.faults", "workload": wl, "differs": keys}
            if "calls" in keys:
                j = next((x for x in range(min(len(m["calls"]), len(i["calls"]))) if m["calls"][x] != i["calls"][x]), min(len(m["calls"]), len(i["calls"])))
                d["calls_differ_at"] = j
                d["model_calls"] = m["calls"][j:j + 5]
                d["impl_calls"] = i["calls"][j:j + 5]
            for k in keys:
                if k != "calls":
                    d["model_" + k], d["impl_" + k] = m[k], i.get(k)
            out.disagreements.append(d)
    out.extra["traces_compared_with_model"] = len(reqs)
    out.extra["fault_positions"] = len(fault_positions)
    out.extra["fault_position_samples"] = fault_positions[:8]
    return out


def search(ctx):
    return run(ctx)

