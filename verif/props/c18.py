"""C18 - the sorter leaves no spill files or descriptors behind, even when I/O fails."""
import json
import tempfile

from .. import impl
from ..common import exc_name
from ..faults import Injector
from ..runner import Outcome
from .c07 import JsonCodec

LEVEL = "fault_enumeration"
ASSUMPTIONS = ["a failed close() still releases the descriptor (Linux semantics); a failed remove leaves the file in place and a later close() may retry",
               "os.close really closes and os.remove really removes (observed through fstat / the directory, not proved)",
               "prompt finalisation of an abandoned generator relies on CPython reference counting (observed)"]


def scenario(n, cap, always_spill, abandon, fail_at, tmp, reiterate=False):
    """One sort with a fault at I/O call number `fail_at` (None = fault-free).  Returns observations."""
    from maflib.sorter import Sorter
    inj = Injector(fail_at=fail_at)
    inj.install()
    obs = {"raised": [], "phase": None, "output": None}
    try:
        s = Sorter(cap, JsonCodec(), lambda x: x[0], tmp_dir=tmp, always_spill=always_spill)
        try:
            obs["phase"] = "add"
            for k in range(n):
                s += (n - k, "v%d" % k)
            obs["phase"] = "iterate"
            outp = []
            it = iter(s)
            for x in it:
                outp.append(x)
                if abandon is not None and len(outp) >= abandon:
                    break
            if abandon is not None:
                del it
            obs["output"] = outp
            if reiterate:
                obs["output2"] = list(s)
            obs["phase"] = "close"
        except Exception as e:  # noqa
            obs["raised"].append((obs["phase"], exc_name(e)))
        # the caller closes the sorter, as it must; when close() itself reports a failure the caller closes again
        # (the injected fault is transient: it fires once)
        for attempt in range(3):
            try:
                s.close()
                break
            except Exception as e:  # noqa
                obs["raised"].append(("close#%d" % attempt, exc_name(e)))
        obs["calls"] = list(inj.calls)
        obs["fired"] = inj.fired
        obs["leaked_files"] = len(inj.leaked_files())
        obs["leaked_fds"] = len(inj.leaked_fds())
        obs["open_handles"] = inj.open_handles()
    finally:
        inj.uninstall()
        inj.cleanup()
    return obs


def writer_scenario(n, fail_at, tmp):
    """A sorting MafWriter: if close() returns normally the output holds every record."""
    import maflib.sorter as S
    from maflib.header import MafHeader
    from maflib.writer import MafWriter
    from maflib.validation import ValidationStringency as VS
    from .. import sortcases as SC
    inj = Injector(fail_at=fail_at)
    old_tmp = tempfile.tempdir
    tempfile.tempdir = tmp
    inj.install()
    obs = {"raised": None}
    try:
        buf = impl.RecordingHandle()
        h = MafHeader.from_lines(["#version gdc-1.0.0", "#annotation.spec lab", "#sort.order Coordinate"], validation_stringency=VS.Silent)
        w = MafWriter.from_fd(buf, h, validation_stringency=VS.Silent, assume_sorted=False)
        try:
            for k in range(n):
                w += SC.untyped_record("T", "N", "chr1", str(100 - k), str(100 - k))
            w.close()
        except Exception as e:  # noqa
            obs["raised"] = exc_name(e)
        obs["lines"] = len([l for l in buf.text().split("\n")[4:] if l])
        obs["calls"] = list(inj.calls)
        obs["fired"] = inj.fired
        if w._sorter is not None:
            try:
                w._sorter.close()
            except Exception:  # noqa
                pass
        obs["leaked_files"] = len(inj.leaked_files())
        obs["leaked_fds"] = len(inj.leaked_fds())
    finally:
        inj.uninstall()
        inj.cleanup()
        tempfile.tempdir = old_tmp
    return obs


LEFT = ("raised", "leaked_files", "leaked_fds", "open_handles")


# ---- one eval_* per kind of case, shared by run and replay_case; each returns (observation, failures[, stop])
def eval_many_clean(n, cap, tmp):
    """Fault-free sort with n // cap spill files."""
    base = scenario(n, cap, True, None, None, tmp)
    failures = []
    if base["raised"] or base["leaked_files"] or base["leaked_fds"] or base["open_handles"] or len(base["output"]) != n:
        failures.append({"what": "fault-free sort with %d spill files leaves resources behind or fails" % (n // cap), "kind": "clean-run",
                         "n": n, "capacity": cap, "got": {k: base[k] for k in LEFT}, "scenario": "many-files"})
    return base, failures


def eval_many_fault(n, cap, k, call, tmp):
    """The many-files sort with a fault at I/O call k (`call` is the name of that call in the fault-free run)."""
    obs = scenario(n, cap, True, None, k, tmp)
    failures = []
    if obs["fired"] is not None and (obs["leaked_files"] or obs["leaked_fds"] or obs["open_handles"] or not obs["raised"]):
        failures.append({"what": "fault at call %d (%s) of a %d-file sort: leak or swallowed failure" % (k, call, n // cap),
                         "kind": "leak", "n": n, "capacity": cap, "got": {kk: obs[kk] for kk in LEFT},
                         "scenario": "many-files", "fault_at": k, "call": call})
    return obs, failures


def eval_workload_clean(n, cap, sp, ab, tmp):
    """Fault-free run of a workload (iterated twice unless abandoned).  stop = the workload is not explored further."""
    base = scenario(n, cap, sp, ab, None, tmp, reiterate=(ab is None))
    where = {"n": n, "capacity": cap, "always_spill": sp, "abandon_after": ab}
    if base["raised"] or base["leaked_files"] or base["leaked_fds"] or base["open_handles"]:
        return base, [dict(where, what="fault-free sort leaves resources behind or fails", kind="clean-run",
                           got={k: base[k] for k in LEFT}, scenario="workload")], True
    failures = []
    if ab is None and (base["output"] != sorted(base["output"]) or len(base["output"]) != n or base.get("output2") != base["output"]):
        failures.append(dict(where, what="fault-free sort is wrong", kind="clean-run", scenario="workload"))
    return base, failures, False


def eval_workload_fault(n, cap, sp, ab, k, call, tmp):
    """A workload with a fault at I/O call k (`call` is the name of that call in the fault-free run)."""
    obs = scenario(n, cap, sp, ab, k, tmp)
    w2 = {"n": n, "capacity": cap, "always_spill": sp, "abandon_after": ab, "fault_at": k, "call": call}
    failures = []
    if obs["fired"] is None:
        return obs, failures
    if not obs["raised"]:
        failures.append(dict(w2, what="the injected I/O failure never reached the caller", kind="swallowed", phase=obs["phase"], scenario="workload"))
    elif any(not r[1].startswith("OSError") for r in obs["raised"]):
        failures.append(dict(w2, what="a failure other than the I/O error escaped", kind="other-exception", got=obs["raised"], scenario="workload"))
    if obs["leaked_files"] or obs["leaked_fds"] or obs["open_handles"]:
        failures.append(dict(w2, what="after close(): %d spill file(s), %d descriptor(s), %d open gzip handle(s) left behind" % (
            obs["leaked_files"], obs["leaked_fds"], len(obs["open_handles"])), kind="leak", raised=obs["raised"], scenario="workload"))
    return obs, failures


def eval_writer_clean(n, tmp):
    """Fault-free sorting writer over n records."""
    base = writer_scenario(n, None, tmp)
    failures = []
    if base["raised"] or base["lines"] != n:
        failures.append({"what": "fault-free sorting writer is wrong", "kind": "clean-run", "got": base, "scenario": "writer", "n": n})
    return base, failures


def eval_writer_fault(n, k, call, tmp):
    """The sorting writer with a fault at I/O call k."""
    obs = writer_scenario(n, k, tmp)
    failures = []
    if obs["fired"] is not None and obs["raised"] is None and obs["lines"] != n:
        failures.append({"what": "writer.close() returned normally but the output holds %d of %d records" % (obs["lines"], n),
                         "kind": "writer-incomplete", "n": n, "fault_at": k, "call": call, "scenario": "writer"})
    return obs, failures


# ---- correspondence with the Lean effect model
def model_request(n, cap, sp, ab, k):
    r = {"op": "sorter.faults", "n": n, "cap": cap, "always_spill": sp}
    if ab is not None:
        r["abandon"] = ab
    if k is not None:
        r["fail_at"] = k
    return r


def impl_view(obs):
    """The observation of one scenario in the vocabulary of the effect model."""
    return {"calls": obs["calls"], "raised": [list(x) for x in obs["raised"]],
            "output": [x[0] for x in obs["output"]] if obs["output"] is not None else None,
            "fired": obs["fired"] is not None, "leaked_files": obs["leaked_files"], "leaked_fds": obs["leaked_fds"],
            "open_handles": len(obs["open_handles"])}


def compare_model(m, i, wl):
    """None when the model's answer equals the implementation's view, else the disagreement dict."""
    if m == i:
        return None
    keys = [k for k in m if m[k] != i.get(k)]
    d = {"op": "sorter.faults", "workload": wl, "differs": keys}
    if "calls" in keys:
        j = next((x for x in range(min(len(m["calls"]), len(i["calls"]))) if m["calls"][x] != i["calls"][x]), min(len(m["calls"]), len(i["calls"])))
        d["calls_differ_at"] = j
        d["model_calls"] = m["calls"][j:j + 5]
        d["impl_calls"] = i["calls"][j:j + 5]
    for k in keys:
        if k != "calls":
            d["model_" + k], d["impl_" + k] = m[k], i.get(k)
    return d


def run(ctx):
    out = Outcome()
    out.rule = ("workloads (n records, capacity, spill policy, optional early abandonment after j items, optional second iteration); a fault-free run fixes the sequence of I/O calls "
                "(mkstemp, gzip.open, write, read, handle.close, os.close, os.remove); then one run per call position with OSError injected there; after close() (twice) the temp directory, "
                "the mkstemp descriptors and the gzip handles are inspected; every injected run is non-trivial; distinct (workload, position)")
    rng = ctx.rng("c18")
    workloads = [(0, 2, True, None), (1, 2, True, None), (3, 2, True, None), (4, 2, True, None), (5, 2, False, None), (2, 3, False, None),
                 (5, 1, True, None), (6, 2, True, 2), (5, 2, True, 3), (4, 3, True, 1)]
    if ctx.tier == "thorough":
        workloads += [(n, c, sp, ab) for n in range(0, 9) for c in (1, 2, 3, 4) for sp in (True, False) for ab in (None, 1)]
    fault_positions = []
    corr = []      # (workload, observation) pairs compared with the Lean effect model
    with tempfile.TemporaryDirectory() as tmp:
        # many spill files (more than any plausible per-process descriptor budget heuristics): fault-free and a few faults
        for (n, cap) in [(300, 2), (450, 3)]:
            out.evaluations += 1
            base, failures = eval_many_clean(n, cap, tmp)
            out.failures += failures
            for k in sorted(rng.sample(range(len(base["calls"])), 6)):
                out.evaluations += 1
                obs, failures = eval_many_fault(n, cap, k, base["calls"][k], tmp)
                out.failures += failures
                out.nontrivial.add(("many-files", n, cap, k))
        for (n, cap, sp, ab) in workloads:
            out.evaluations += 1
            base, failures, stop = eval_workload_clean(n, cap, sp, ab, tmp)
            out.failures += failures
            if stop:
                continue
            where = {"n": n, "capacity": cap, "always_spill": sp, "abandon_after": ab}
            ncalls = len(base["calls"])
            out.distribution["io_calls"] += ncalls
            corr.append(((n, cap, sp, ab, None), scenario(n, cap, sp, ab, None, tmp)))
            positions = range(ncalls) if (ctx.tier == "thorough" or ncalls <= 60) else sorted(rng.sample(range(ncalls), 60))
            for k in positions:
                out.evaluations += 1
                obs, failures = eval_workload_fault(n, cap, sp, ab, k, base["calls"][k], tmp)
                corr.append(((n, cap, sp, ab, k), obs))
                w2 = dict(where, fault_at=k, call=base["calls"][k])
                fault_positions.append((n, cap, sp, ab, k, base["calls"][k]))
                out.nontrivial.add(repr(w2))
                if obs["fired"] is None:
                    out.distribution["fault-not-reached"] += 1
                    continue
                out.failures += failures
                out.distribution["fault:" + base["calls"][k].split("(")[0]] += 1
            if len(out.samples) < 2 and ncalls > 10:
                out.sample(dict(where, io_calls=base["calls"][:14], n_calls=ncalls))
        # a sorting writer: close() returning normally means every record is in the output
        for n in (3, 5):
            base, failures = eval_writer_clean(n, tmp)
            out.failures += failures
            if failures:
                continue
            for k in range(len(base["calls"])):
                out.evaluations += 1
                obs, failures = eval_writer_fault(n, k, base["calls"][k], tmp)
                if obs["fired"] is None:
                    continue
                out.failures += failures
                out.nontrivial.add(("writer", n, k))
    # correspondence: the effect model predicts the exact I/O call sequence, what is raised in which phase, and what is left
    reqs = [model_request(*wl) for wl, _obs in corr]
    mo = ctx.driver.run(reqs)
    for r, m, (wl, obs) in zip(reqs, mo, corr):
        d = compare_model(m, impl_view(obs), wl)
        if d is not None:
            out.disagreements.append(d)
    out.extra["traces_compared_with_model"] = len(reqs)
    out.extra["fault_positions"] = len(fault_positions)
    out.extra["fault_position_samples"] = fault_positions[:8]
    return out


def _show(tag, v):
    print("%s raised=%s leaked_files=%s leaked_fds=%s open_handles=%s fault_fired=%s; %d I/O call(s)" % (
        tag, v.get("raised"), v.get("leaked_files"), v.get("leaked_fds"), v.get("open_handles"), v.get("fired"), len(v.get("calls") or [])))


def _calls_around(calls, k):
    lo = max(0, (k or 0) - 3)
    return "calls[%d:%d] = %s" % (lo, lo + 8, calls[lo:lo + 8])


def replay_case(ctx, failure):
    """Re-evaluate the stored failing input on the current implementation; return the list of failure dicts it
    produces now (empty list = the property holds on that input)."""
    f = failure
    kind = f.get("kind")
    sc = f.get("scenario")
    if sc is None:                       # files written before the field existed
        if "always_spill" in f:
            sc = "workload"
        elif kind == "writer-incomplete":
            sc = "writer"
        elif "capacity" in f:
            sc = "many-files"
    n, cap, k = f.get("n"), f.get("capacity"), f.get("fault_at")
    if not isinstance(n, int):
        return None
    with tempfile.TemporaryDirectory() as tmp:
        if sc == "many-files" and isinstance(cap, int):
            if kind == "clean-run":
                print("executed: fault-free sort of %d records, capacity %d, always_spill (%d spill files), then close()" % (n, cap, n // cap))
                obs, failures = eval_many_clean(n, cap, tmp)
                print("implementation: %d item(s) returned" % len(obs["output"] or []))
            elif kind == "leak" and isinstance(k, int):
                print("executed: sort of %d records, capacity %d, always_spill (%d spill files), OSError injected at I/O call %d (%s in the fault-free run), then close() (retried on failure)" % (
                    n, cap, n // cap, k, f.get("call")))
                obs, failures = eval_many_fault(n, cap, k, f.get("call"), tmp)
                print("implementation: %s" % _calls_around(obs["calls"], k))
            else:
                return None
            _show("implementation:", dict(obs, open_handles=len(obs["open_handles"])))
        elif sc == "workload" and isinstance(cap, int) and "always_spill" in f:
            sp, ab = f["always_spill"], f.get("abandon_after")
            desc = "%d records, capacity %d, always_spill=%s, %s" % (n, cap, sp, "iteration abandoned after %d item(s)" % ab if ab is not None else "iterated to the end")
            if kind == "clean-run":
                print("executed: fault-free sort (%s%s), then close()" % (desc, ", iterated a second time" if ab is None else ""))
                obs, failures, _stop = eval_workload_clean(n, cap, sp, ab, tmp)
                print("implementation: output keys %s%s" % ([x[0] for x in obs["output"]] if obs["output"] is not None else None,
                                                            "; second iteration %s" % ("equal" if obs.get("output2") == obs["output"] else "differs") if ab is None else ""))
                mobs, k = scenario(n, cap, sp, ab, None, tmp), None      # the trace compared with the model is that of a single iteration
            elif kind in ("swallowed", "other-exception", "leak") and isinstance(k, int):
                print("executed: sort (%s) with OSError injected at I/O call %d (%s in the fault-free run), then close() (retried on failure)" % (desc, k, f.get("call")))
                obs, failures = eval_workload_fault(n, cap, sp, ab, k, f.get("call"), tmp)
                print("implementation: %s" % _calls_around(obs["calls"], k))
                mobs = obs
            else:
                return None
            _show("implementation:", dict(obs, open_handles=len(obs["open_handles"])))
            if ctx.driver.available():
                try:
                    m = ctx.driver.run([model_request(n, cap, sp, ab, k)])[0]
                    _show("model:         ", m)
                    d = compare_model(m, impl_view(mobs), (n, cap, sp, ab, k))
                    if d is None:
                        print("model vs implementation: the I/O trace, what is raised and what is left behind agree exactly")
                    else:
                        print("model vs implementation: differ in %s %s" % (d["differs"], {x: d[x] for x in d if x.startswith("model_") or x.startswith("impl_") or x == "calls_differ_at"}))
                except Exception as e:  # noqa
                    print("model: driver failed (%s)" % str(e)[:200])
        elif sc == "writer":
            if kind == "clean-run":
                print("executed: fault-free sorting MafWriter (assume_sorted=False, Coordinate) over %d records, then close()" % n)
                obs, failures = eval_writer_clean(n, tmp)
            elif kind == "writer-incomplete" and isinstance(k, int):
                print("executed: sorting MafWriter over %d records with OSError injected at I/O call %d (%s in the fault-free run), then close()" % (n, k, f.get("call")))
                obs, failures = eval_writer_fault(n, k, f.get("call"), tmp)
            else:
                return None
            print("implementation: raised=%s, %d of %d record line(s) in the output, fault_fired=%s, leaked_files=%s leaked_fds=%s" % (
                obs["raised"], obs["lines"], n, obs["fired"], obs["leaked_files"], obs["leaked_fds"]))
        else:
            return None
    for g in failures:
        print("oracle: [%s] %s" % (g["kind"], g["what"]))
    if not failures:
        print("oracle: satisfied (%s)" % ("the fault did not fire on this tree" if isinstance(k, int) and obs.get("fired") is None else "failure reported to the caller, nothing left behind"
                                          if isinstance(k, int) and sc != "writer" else "nothing left behind, output complete"))
    return failures


def search(ctx):
    return run(ctx)

