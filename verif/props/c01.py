"""C01 - validation accepts exactly the lines that conform to the scheme."""
import os
import re

from .. import colcases, common, impl
from ..common import float_table, has_unmodelled, is_model_text
from ..runner import Outcome

LEVEL = "proof"
ASSUMPTIONS = [
    "float()/repr() are an abstract host (FloatHost); its graph on the texts of the run is recorded from CPython",
    "int()/uuid.UUID() leniency beyond the modelled ASCII grammar (Unicode digits/spaces, >4300 digits, 0x/_/sign in hex) is the property's don't-care zone",
]
MODES = ["Strict", "Lenient", "Silent"]

_LENIENT = re.compile(r"^\s|\s$|^\+|_|^[+-]?0\d|^-0+$")   # blanks, sign, underscores, non-canonical numerals


_NUMLIKE = re.compile(r"^\s*[+-]?[0-9_]+\s*$")


def host_lenient(t):
    return bool(_LENIENT.search(t)) or colcases.dontcare_numeric(t) or colcases.dontcare_uuid(t) \
        or t.lower().lstrip("+-") in ("nan", "inf", "infinity") or "x" in t.lower() and t.lower().lstrip("+-").startswith("0x")


def numeric_value(v):
    return v and v.get("t") in ("int", "float", "uuid")


_ANYTEXT = {}


def any_text_ok(ann, name):
    """The column's class takes a name OR a number (StringOrIntegerColumn, StringIntegerOrFloatColumn): whether the host's
    parsers read a text as a number or not, the field is in the domain - only the VALUE it denotes is the host's business."""
    if (ann, name) not in _ANYTEXT:
        sch = impl.scheme_by_annotation(ann)
        try:
            mro = [c.__name__ for c in sch.column_class(name).__mro__]
        except Exception:  # noqa
            mro = []
        _ANYTEXT[(ann, name)] = "StringOrIntegerColumn" in mro or "StringIntegerOrFloatColumn" in mro
    return _ANYTEXT[(ann, name)]


def zone(spec, text, anytext=False):
    """must_accept / must_reject / dontcare for one field (spec = answer of spec.domain/spec.line); accept_any = in the
    domain whatever the host's parsers make of it (the value is not judged)."""
    pieces = [text] + text.split(";")
    if any(colcases.dontcare_numeric(p) or colcases.dontcare_uuid(p) for p in pieces):
        if anytext and spec.get("in") and text and len(text) < 4000:
            return "accept_any"
        return "dontcare"
    if spec.get("in"):
        v = spec.get("value")
        typed = numeric_value(v) or (v and v.get("t") == "list" and any(numeric_value(x) for x in v["v"])) \
            or any(_NUMLIKE.match(p) for p in pieces)
        if typed and any(host_lenient(p) for p in pieces):
            return "dontcare"
        return "must_accept"
    if colcases.dontcare_numeric(text) or colcases.dontcare_uuid(text) or \
            any(colcases.dontcare_numeric(p) or colcases.dontcare_uuid(p) for p in text.split(";")):
        return "dontcare"
    return "must_reject"


def eval_layout(ann, m, spec_names):
    """One built-in layout on the implementation against the model's scheme table entry `m` (correspondence)
    and the documented layout `spec_names` (the property's oracle).  -> (names, disagreements, failures)"""
    sch = impl.scheme_by_annotation(ann)
    names = sch.column_names() if sch is not None else None
    dis, fails = [], []
    if sch is not None:
        classes = [sch.column_class(n).__name__ for n in names]
        if not m or m["names"] != names or m["classes"] != classes or m["version"] != sch.version():
            dis.append({"op": "schemes", "annotation": ann,
                        "model": m and {"n": len(m["names"])}, "impl": {"n": len(names)}})
    if spec_names != names:
        fails.append({"what": "layout differs from the documented layout (base order minus filtered, then new columns)",
                      "kind": "layout", "annotation": ann,
                      "expected": spec_names, "got": names})
    return names, dis, fails


def structure_cases(ctx, out):
    """mro / layouts: translator + Lean C3 + Lean scheme building vs live introspection."""
    reqs = [{"op": "schemes"}, {"op": "spec.layouts"}]
    sigs = colcases.class_signatures()
    pairs = []
    for sig, uses in sigs.items():
        for ann, name in uses[:2]:
            pairs.append((ann, name))
            reqs.append({"op": "mro", "scheme": ann, "col": name})
    mo = ctx.driver.run(reqs)
    py_layouts = {ann: impl.scheme_by_annotation(ann) for ann in impl.builtin_annotations()}
    got = {s["annotation"]: s for s in mo[0]["schemes"]}
    spec = {s["annotation"]: s["names"] for s in mo[1]["layouts"]}
    for ann in py_layouts:
        out.evaluations += 1
        _names, dis, fails = eval_layout(ann, got.get(ann), spec.get(ann))
        out.disagreements += dis
        out.failures += fails
        out.nontrivial.add(("layout", ann))
    if set(got) != set(py_layouts):
        out.disagreements.append({"op": "schemes", "model": sorted(got), "impl": sorted(py_layouts)})
    for (ann, name), m in zip(pairs, mo[2:]):
        out.evaluations += 1
        i = impl.run({"op": "mro", "scheme": ann, "col": name})
        if m != i:
            out.disagreements.append({"op": "mro", "request": [ann, name], "model": m, "impl": i})
        out.nontrivial.add(("mro", tuple(i["mro"])))


def field_cases(ctx, out, per_sig_uses=1):
    rng = ctx.rng("fields")
    sigs = colcases.class_signatures()
    reqs, sreqs = [], []
    for sig, uses in sorted(sigs.items()):
        picks = rng.sample(uses, min(per_sig_uses, len(uses)))
        for ann, name in picks:
            cls = impl.scheme_by_annotation(ann).column_class(name)
            for t in colcases.pool_for(cls, rng):
                reqs.append(colcases.build_req(ann, name, t, rng.randrange(0, 5)))
                sreqs.append({"op": "spec.domain", "scheme": ann, "col": name, "text": t,
                              "floats": float_table([t])})
    mo = ctx.driver.run(reqs + sreqs)
    spec = mo[len(reqs):]
    mo = mo[:len(reqs)]
    for r, m, s in zip(reqs, mo, spec):
        out.evaluations += 1
        e = eval_field(r, m, s)
        i, z, text = e["impl"], e["zone"], r["text"]
        out.distribution["zone:" + z] += 1
        out.distribution["impl:" + ("accept" if e["accepted"] else "reject")] += 1
        if has_unmodelled(m):
            out.unmodelled += 1
        elif m != i:
            if z == "dontcare":
                out.dontcare += 1
            else:
                out.disagreements.append({"op": "col.build", "request": r, "model": m, "impl": i})
        out.failures += e["failures"]
        if z != "dontcare":
            out.nontrivial.add((r["scheme"], r["col"], text))
        if len(out.samples) < 3 and z != "dontcare":
            out.sample({"op": "col.build", "scheme": r["scheme"], "column": r["col"], "text": text, "zone": z})


def eval_field(r, m, s):
    """One field (col.build request `r`) on the implementation; the property's oracle against the documented
    domain `s` (answer of spec.domain).  `m` is the model's answer to `r` (only reported, not part of the oracle)."""
    i = impl.run(r)
    text = r["text"]
    z = zone(s, text, any_text_ok(r["scheme"], r["col"]))
    accepted = "col" in i and i["col"]["invalid"] is False and i["col"]["cls"] != "MafColumnRecord"
    # the scheme-level instance check is part of acceptance: a plain MafColumnRecord built by a
    # class that inherits MafColumnRecord.build is rejected by from_line (checked in line cases)
    where = {"scheme": r["scheme"], "column": r["col"], "text": text, "index": r.get("index")}
    fails = []
    if z == "must_accept":
        if not accepted:
            fails.append(dict(where, what="field in the documented domain is rejected", kind="reject-valid",
                              expected=s, got=i))
        elif i["col"]["value"] != s["value"]:
            fails.append(dict(where, what="accepted field does not carry the value the text denotes",
                              kind="wrong-value", expected=s["value"], got=i["col"]["value"]))
    elif z == "accept_any":
        if not accepted:
            fails.append(dict(where, what="field in the documented domain is rejected (the column takes a name or a number: every text is one or the other)", kind="reject-valid",
                              expected=s, got=i))
        z = "dontcare"          # (for the correspondence and the statistics the case stays what it was)
    elif z == "must_reject":
        if accepted:
            fails.append(dict(where, what="field outside the documented domain is accepted", kind="accept-invalid",
                              expected=s, got=i))
    return {"impl": i, "zone": z, "accepted": accepted, "failures": fails}


def check_line(fails, ann, line, mode, lineno, i, s, names, history=None):
    """Property oracle for one parsed line on the implementation's answer `i` (spec answer `s`); failures are
    appended to `fails`.  `history` = the layouts lines were parsed under earlier in this process (first-use order)."""
    fields = line.rstrip("\r\n").split("\t")
    zones = [zone(f, t, any_text_ok(ann, n)) for f, t, n in zip(s["fields"], fields, names)] if s["count_ok"] else []
    where = {"scheme": ann, "line": line, "mode": mode, "lineno": lineno, "after_schemes": list(history or [])}
    if not s["count_ok"]:
        ok = ("exc" in i and i["exc"].startswith("MafFormatException:RECORD_MISMATCH_NUMBER_OF_COLUMNS")) if mode == "Strict" \
            else ("rec" in i and ["RECORD_MISMATCH_NUMBER_OF_COLUMNS", lineno] in i["rec"]["errors"] and not i["rec"]["slots"])
        if not ok:
            fails.append(dict(where, what="wrong field count is not reported as such", kind="count", got=i))
        return "count"
    if "dontcare" in zones:
        # the verdict on the whole line is open; per-field binding of the must-accept fields is still checked
        pass
    all_accept = all(z in ("must_accept", "accept_any") for z in zones)
    any_reject = any(z == "must_reject" for z in zones)
    if mode == "Strict":
        if all_accept and "exc" in i:
            fails.append(dict(where, what="conforming line rejected in Strict mode", kind="reject-valid", got=i))
        if any_reject and not ("exc" in i and i["exc"].startswith("MafFormatException:")):
            fails.append(dict(where, what="non-conforming line not refused with the format exception in Strict mode",
                                     kind="accept-invalid", got=i,
                                     column=names[zones.index("must_reject")]))
        if "exc" in i:
            return "strict-exc"
    if "rec" not in i:
        fails.append(dict(where, what="unexpected exception", kind="exception", got=i))
        return "exc"
    rec = i["rec"]
    if all_accept and rec["errors"]:
        fails.append(dict(where, what="conforming line reports validation errors", kind="reject-valid", got=rec["errors"]))
    if any_reject and not rec["errors"]:
        fails.append(dict(where, what="non-conforming line reports no validation error", kind="accept-invalid"))
    slots = rec["slots"]
    for k, (z, f, t) in enumerate(zip(zones, s["fields"], fields)):
        slot = slots[k] if k < len(slots) else None
        if z == "must_accept":
            if slot is None or slot["key"] != names[k] or slot["index"] != k or slot["value"] != f["value"]:
                fails.append(dict(where, what="field %d is not bound to its column name with the value the text denotes" % k,
                                         kind="binding", column=names[k], text=t, expected=f["value"], got=slot))
                break
        elif z == "accept_any":
            if slot is None or slot["key"] != names[k] or slot["index"] != k:
                fails.append(dict(where, what="field %d (a name or a number: in the domain whatever the text) is not bound to its column name" % k,
                                         kind="binding", column=names[k], text=t, got=slot))
                break
        elif z == "must_reject":
            if slot is not None:
                fails.append(dict(where, what="field outside its domain is exposed as a value",
                                         kind="exposed", column=names[k], text=t, got=slot))
                break
            if not any(names[k] in msg for msg in i.get("messages", [names[k]])):
                fails.append(dict(where, what="rejected field is not reported against its column",
                                         kind="unreported", column=names[k], text=t))
                break
    return "clean" if not rec["errors"] else "errors"


def line_cases(ctx, out, per_scheme):
    rng = ctx.rng("lines")
    reqs, sreqs, meta = [], [], []
    for ann in impl.builtin_annotations():
        names = impl.scheme_by_annotation(ann).column_names()
        for line in colcases.line_cases(ann, rng, per_scheme):
            if not is_model_text(line):
                continue
            lineno = rng.randrange(1, 200)
            sreq = {"op": "spec.line", "scheme": ann, "line": line,
                    "floats": float_table(line.rstrip("\r\n").split("\t"))}
            for mode in MODES:
                reqs.append(colcases.from_line_req(ann, line, mode, lineno))
                sreqs.append(sreq)
                meta.append((ann, line, mode, lineno, names))
    # MafRecord.from_line given a line that still carries its terminator (LF, CRLF, CR): the terminator is no field text
    rng2 = ctx.rng("lines-terminated")
    for ann in impl.builtin_annotations():
        names = impl.scheme_by_annotation(ann).column_names()
        for term in ("\n", "\r\n", "\r"):
            line = "\t".join(colcases.valid_fields(ann, rng2, prefer_nonnull=rng2.choice([0.1, 0.7]))) + term
            if not is_model_text(line):
                continue
            lineno = rng2.randrange(1, 200)
            sreq = {"op": "spec.line", "scheme": ann, "line": line,
                    "floats": float_table(line.rstrip("\r\n").split("\t"))}
            for mode in MODES:
                reqs.append(colcases.from_line_req(ann, line, mode, lineno))
                sreqs.append(sreq)
                meta.append((ann, line, mode, lineno, names))
            out.distribution["line-terminator:" + repr(term)] += 1
    # spec answers are per line: de-duplicate requests
    uniq = {}
    for sr in sreqs:
        uniq.setdefault((sr["scheme"], sr["line"]), sr)
    keys = list(uniq)
    mo = ctx.driver.run(reqs + [uniq[k] for k in keys])
    specs = dict(zip(keys, mo[len(reqs):]))
    history = []      # layouts parsed under so far in this process, in order of first use
    for r, m, (ann, line, mode, lineno, names) in zip(reqs, mo, meta):
        out.evaluations += 1
        e = eval_line(r, names, m, specs[(ann, line)], history)
        if ann not in history:
            history.append(ann)
        if e["model"] == "unmodelled":
            out.unmodelled += 1
        elif e["model"] == "dontcare":
            out.dontcare += 1
        elif e["model"] == "differs":
            out.disagreements.append(e["disagreement"])
        out.failures += e["failures"]
        kind = e["outcome"]
        out.distribution["line:" + kind] += 1
        out.nontrivial.add((ann, line))
        if len(out.samples) < 6 and kind in ("errors", "count"):
            out.sample({"op": "rec.from_line", "scheme": ann, "mode": mode, "line": line[:160], "outcome": kind})


def eval_line(r, names, m, s, history=None):
    """One line in one mode (rec.from_line request `r`) on the implementation: comparison with the model's answer
    `m` (correspondence) and the property's oracle against the documented reading `s` (answer of spec.line)."""
    ann, line, mode, lineno = r["scheme"], r["line"], r["mode"], r["lineno"]
    i = impl_from_line(r)
    i_cmp = {k: v for k, v in i.items() if k != "messages"}
    fields = line.rstrip("\r\n").split("\t")
    dc = any(colcases.dontcare_numeric(p) or colcases.dontcare_uuid(p) for f in fields for p in [f] + f.split(";"))
    e = {"impl": i, "model": "same", "failures": []}
    if has_unmodelled(m):
        e["model"] = "unmodelled"
    elif m != i_cmp:
        if dc:
            e["model"] = "dontcare"
        else:
            e["model"] = "differs"
            e["disagreement"] = {"op": "rec.from_line", "request": {k: r[k] for k in ("scheme", "line", "mode", "lineno")},
                                 "model": summarize(m), "impl": summarize(i_cmp)}
    e["outcome"] = check_line(e["failures"], ann, line, mode, lineno, i, s, names, history)
    return e


def summarize(x):
    if "rec" in x:
        return {"errors": x["rec"]["errors"], "keys": x["rec"]["keys"], "str": x["rec"]["str"], "logs": x.get("logs")}
    return x


def impl_from_line(r):
    """rec.from_line on the implementation, plus the error messages (for 'reported against that column')."""
    from maflib.record import MafRecord
    i = impl.run(r)
    if "rec" in i:
        # messages are only available by re-parsing in Silent mode (cheap)
        try:
            rec = MafRecord.from_line(r["line"], scheme=impl.scheme_of(r), line_number=r.get("lineno"),
                                      validation_stringency=impl.MODES["Silent"])
            i["messages"] = [e.message for e in rec.validation_errors]
        except Exception:  # noqa
            pass
    return i


# ------------------------------------------------------------------ whole files through every reader entry point
def file_preamble(ann):
    """A valid header for the built-in layout `ann` and its column-name line."""
    sch = impl.scheme_by_annotation(ann)
    header = ["#version " + sch.version()]
    if not sch.is_basic():
        header.append("#annotation.spec " + ann)
    return header, "\t".join(sch.column_names())


def blank_lines(width):
    """Data lines that are blank to the eye: no field text at all, or only blanks.  Each is still a data line with
    a field count (1, width, width +- 1) and field texts ('' or blanks) that the property speaks about."""
    tabs = "\t" * (width - 1)
    return ["", tabs, " ", "\t" * max(width - 2, 1), "\t" * width, "  ", "\x0b", "\x0c", " " + tabs, tabs + " "]


def file_data_lines(rng, ann, n):
    """Data lines of a file under the layout: valid / perturbed / wrong-count lines (colcases.line_cases) without line
    breaks, with 0-2 blank-looking lines among them (any position, the last one included)."""
    width = len(impl.scheme_by_annotation(ann).column_names())
    lines = [l.rstrip("\r\n") for l in colcases.line_cases(ann, rng, n)]
    lines = [l for l in lines if "\n" not in l and "\r" not in l and is_model_text(l)]
    for _ in range(rng.choice([0, 1, 1, 2])):
        lines.insert(rng.randrange(len(lines) + 1), rng.choice(blank_lines(width)))
    if rng.random() < 0.3:
        lines.append(rng.choice(blank_lines(width)[:3]))
    return lines


def read_file(case, tmp):
    """The file of `case` read to the end through its reader route, on the implementation.
    -> {"init_exc": ...} or {"items": [per record: {"rec": record_json, "messages": [...]}], "iter_exc": name or None}"""
    sch = impl.scheme_by_annotation(case["scheme"])
    header, col = file_preamble(case["scheme"]) if case.get("header") is None else (case["header"], case["columns"])
    lines = list(header) + [col] + list(case["lines"])
    try:
        reader = impl.open_reader(case["route"], lines, impl.MODES[case["mode"]], sch if case.get("given") else None,
                                  tmp, case.get("final", True))
    except Exception as e:  # noqa
        return {"init_exc": common.exc_name(e)}
    out = {"items": [], "iter_exc": None}
    try:
        for rec in reader:
            out["items"].append({"rec": impl.record_json(rec), "messages": [e.message for e in rec.validation_errors]})
    except Exception as e:  # noqa
        out["iter_exc"] = common.exc_name(e)
    try:
        reader.close()
    except Exception:  # noqa
        pass
    return out


def eval_file(case, specs, tmp, history=None):
    """One file, one reader route, one mode: every data line of the file is a line the property speaks about.
    The reader must hand out one record per data line, in order, and each must satisfy the per-line oracle
    (check_line) with the physical line number; Strict stops with the format exception at the first line that
    does not conform.  `specs`: {line: answer of spec.line}.  case = {"scheme", "header", "columns", "lines",
    "route", "mode", "given", "final"}."""
    ann, mode = case["scheme"], case["mode"]
    names = impl.scheme_by_annotation(ann).column_names()
    n_head = len(case["header"]) + 1
    seen = impl.route_lines(case["route"], list(case["header"]) + [case["columns"]] + list(case["lines"]),
                            case.get("final", True))[n_head:]
    res = read_file(case, tmp)
    e = {"res": res, "failures": [], "outcomes": [], "data_lines": seen}

    def fail(j, **kw):
        e["failures"].append(dict({"scheme": ann, "mode": mode, "entry": "reader", "file": dict(case), "data_index": j,
                                   "after_schemes": list(history or [])}, **kw))
    if "init_exc" in res:
        fail(None, what="a reader cannot be opened on a file with a valid header and the layout's own column names",
             kind="reader-init", got=res["init_exc"])
        return e
    items = res["items"]
    if not res["iter_exc"] and len(items) < len(seen):
        fail(len(items), what="the reader reaches the end of the file with fewer records than data lines: a data line yields neither a record "
             "nor an error (%d data lines, %d records)" % (len(seen), len(items)), kind="missing-record")
    for j, line in enumerate(seen):
        lineno = n_head + j + 1
        if j < len(items):
            i = dict(items[j])
        elif j == len(items) and res["iter_exc"]:
            i = {"exc": res["iter_exc"]}
        else:
            break
        fails = []
        e["outcomes"].append(check_line(fails, ann, line, mode, lineno, i, specs[line], names, history))
        for f in fails:
            f["line_checked"] = f.pop("line")          # the stored input of a file case is the file, not the line
            e["failures"].append(dict(f, entry="reader", file=dict(case), data_index=j))
        if "exc" in i:
            break
    if len(items) > len(seen):
        fail(len(seen), what="the reader hands out more records than the file has data lines (%d data lines, %d records)"
             % (len(seen), len(items)), kind="extra-record")
    return e


def file_specs(ctx, cases):
    """spec.line answers for every data line the cases' routes see: {(scheme, line): answer}."""
    uniq = {}
    for c in cases:
        n_head = len(c["header"]) + 1
        for l in impl.route_lines(c["route"], list(c["header"]) + [c["columns"]] + list(c["lines"]), c.get("final", True))[n_head:]:
            uniq.setdefault((c["scheme"], l), {"op": "spec.line", "scheme": c["scheme"], "line": l,
                                              "floats": float_table(l.split("\t"))})
    keys = list(uniq)
    return dict(zip(keys, ctx.driver.run([uniq[k] for k in keys])))


def file_model_req(case):
    lines = list(case["header"]) + [case["columns"]] + list(case["lines"])
    r = {"op": "reader.run", "lines": lines, "mode": case["mode"],
         "floats": float_table([p for l in lines for p in l.rstrip("\r\n").split("\t")])}
    if case.get("given"):
        r["given"] = case["scheme"]
    return r


def file_cases(ctx, out, per_scheme, n_lines):
    """Whole files: the same generated content through every public way of opening a reader
    (MafReader(lines=...) over a list with and without terminators, a generator, a text handle;
    MafReader.reader_from(path) plain and .gz, LF and CRLF), header's scheme or an explicitly given one."""
    import tempfile
    rng = ctx.rng("files")
    cases = []
    for ann in impl.builtin_annotations():
        header, col = file_preamble(ann)
        for _ in range(per_scheme):
            lines = file_data_lines(rng, ann, n_lines)
            given = rng.random() < 0.3
            base = {"scheme": ann, "header": header, "columns": col, "lines": lines, "given": given}
            for mode in MODES:
                cases.append(dict(base, route="list", mode=mode, final=True))
            # a column-name line that deviates from the layout (non-strict reading reports it once and goes on): the data
            # lines are still read under the scheme the reader works with, field i bound to the scheme's i-th name
            names = col.split("\t")
            dev = list(names)
            how = rng.choice(["swap", "case", "drop-last", "extra"])
            if how == "swap" and len(dev) >= 8:
                a, b = 5, 6
                dev[a], dev[b] = dev[b], dev[a]
            elif how == "case":
                dev[2] = dev[2].lower()
            elif how == "drop-last":
                dev = dev[:-1]
            else:
                dev = dev + ["Extra_Column"]
            cases.append(dict(base, columns="\t".join(dev), route=rng.choice(["list", "handle", "path"]), mode=rng.choice(["Silent", "Lenient"]), final=True))
            for route in impl.READER_ROUTES[1:]:
                cases.append(dict(base, route=route, mode=rng.choice(MODES), final=rng.random() < 0.8))
    specs = file_specs(ctx, cases)
    mreqs = [file_model_req(c) for c in cases if c["route"] == "list"]
    mo = iter(ctx.driver.run(mreqs))
    history = []
    with tempfile.TemporaryDirectory() as tmp:
        for c in cases:
            ann = c["scheme"]
            e = eval_file(c, {l: specs[(ann, l)] for l in set(impl.route_lines(
                c["route"], list(c["header"]) + [c["columns"]] + list(c["lines"]), c["final"])[len(c["header"]) + 1:])}, tmp, history)
            if ann not in history:
                history.append(ann)
            out.evaluations += max(1, len(e["outcomes"]))
            out.failures += e["failures"]
            out.distribution["file-route:" + c["route"]] += 1
            for k in e["outcomes"]:
                out.distribution["file-line:" + k] += 1
            out.nontrivial.add(("file", ann, c["route"], c["mode"], tuple(c["lines"])))
            if c["route"] == "list":
                r = file_model_req(c)
                m = next(mo)
                i = impl.run(r)
                if has_unmodelled(m):
                    out.unmodelled += 1
                elif m != i:
                    fields = [p for l in c["lines"] for f in l.rstrip("\r\n").split("\t") for p in [f] + f.split(";")]
                    if any(colcases.dontcare_numeric(p) or colcases.dontcare_uuid(p) for p in fields):
                        out.dontcare += 1
                    else:
                        keys = [k for k in sorted(set(m) | set(i)) if m.get(k) != i.get(k)]
                        out.disagreements.append({"op": "reader.run", "mode": c["mode"], "differs": keys, "scheme": ann,
                                                  "lines": c["lines"]})


def eval_aliasing(ann, line, other_line):
    """Parse `line`, change in place every mutable value the parsed record hands out (lists: append / clear), then parse
    `line` and `other_line` again: every field must still carry the value its text denotes (= what the first parse gave,
    before the edit).  A record's values belong to that record."""
    from maflib.record import MafRecord
    from maflib.validation import ValidationStringency as VS
    from ..common import enc_val
    sch = impl.scheme_by_annotation(ann)
    names = sch.column_names()

    def parse(l):
        return MafRecord.from_line(l, scheme=sch, validation_stringency=VS.Silent)
    def col(rec, n):
        try:
            return rec[n]
        except KeyError:          # the parse kept no column under that name
            return None
    first, other0 = parse(line), parse(other_line)
    want = [None if c is None else enc_val(c.value) for c in (col(first, n) for n in names)]
    want_other = [None if c is None else enc_val(c.value) for c in (col(other0, n) for n in names)]
    touched = []
    for n in names:
        c = col(first, n)
        if c is not None and isinstance(c.value, list):
            c.value.append("flagged")
            touched.append(n)
    fails = []
    for what, l, w in (("the same line", line, want), ("a later line", other_line, want_other)):
        again = parse(l)
        for k, n in enumerate(names):
            c = col(again, n)
            got = None if c is None else enc_val(c.value)
            if got != w[k]:
                fails.append({"what": "after a parsed record's list values were changed in place, parsing %s binds column %s to %s instead of the value its text %r denotes (%s)" % (
                    what, n, got, l.split("\t")[k], w[k]), "kind": "aliasing", "scheme": ann, "line": line, "other_line": other_line, "column": n, "edited": touched})
                break
        if fails:
            break
    # the same for the lists a scheme hands out: a caller that edits the names it was given (adds its own output column,
    # sorts them for a legend) has not changed the layout lines are parsed under.  (On a scheme instance of its own, so
    # that a broken library cannot spoil the later cases of this run.)
    if not fails:
        sch2 = type(sch)()
        try:
            handed = sch2.column_names()
            if isinstance(handed, list):
                handed.append("my_score")
                handed.sort()
        except Exception:  # noqa
            pass
        again = MafRecord.from_line(line, scheme=sch2, validation_stringency=VS.Silent)
        for k, n in enumerate(names):
            c = col(again, n)
            got = None if c is None else enc_val(c.value)
            if got != want[k]:
                fails.append({"what": "after a caller edited the list handed out by the scheme's column_names(), parsing the same line under that scheme binds column %s to %s "
                                      "instead of the value its text %r denotes (%s)" % (n, got, line.split("\t")[k], want[k]),
                              "kind": "aliasing", "scheme": ann, "line": line, "other_line": other_line, "column": n, "edited": ["<scheme>.column_names()"]})
                break
    # undo (the objects may be shared when the property is broken; keep later cases independent of this one)
    for n in touched:
        c = col(first, n)
        if c is not None and isinstance(c.value, list) and "flagged" in c.value:
            c.value.remove("flagged")
    return touched, fails


def eval_nonutf8(ann, line, k, stray, gz, mode):
    """A file (plain or .gz) whose data line has a byte that is no UTF-8 inside field k: it is not the text of a
    conforming line.  Reading it through reader_from may fail (the file is not text) or report the line; it must not hand
    out, without any error, a record in which that field is bound to a value - the value some OTHER text denotes."""
    import gzip
    import tempfile
    from maflib.reader import MafReader
    sch = impl.scheme_by_annotation(ann)
    names = sch.column_names()
    fields = [f.encode("utf-8") for f in line.split("\t")]
    f = fields[k]
    fields[k] = f[:len(f) // 2] + stray + f[len(f) // 2:]
    data = ("#version %s\n#annotation.spec %s\n" % (sch.version(), ann)).encode() + "\t".join(names).encode() + b"\n" + b"\t".join(fields) + b"\n"
    where = {"kind": "non-utf8", "scheme": ann, "line": line, "field": k, "column": names[k], "stray": stray.hex(), "gz": gz, "mode": mode}
    with tempfile.TemporaryDirectory() as tmp, impl.LogCapture():
        path = os.path.join(tmp, "f.maf" + (".gz" if gz else ""))
        with (gzip.open(path, "wb") if gz else open(path, "wb")) as h:
            h.write(data)
        try:
            rd = MafReader.reader_from(path, validation_stringency=impl.MODES[mode])
            recs = list(rd)
            errs = list(rd.validation_errors)
            rd.close()
        except Exception:  # noqa
            return []
    if len(recs) == 1 and not errs and not recs[0].validation_errors:
        try:
            c = recs[0][names[k]]
        except Exception:  # noqa
            c = None
        if c is not None:
            return [dict(where, what="a %s file whose field %d (%s) holds the byte %s, which is no UTF-8, is read without any error and the field is bound to %r" % (
                ".gz" if gz else "plain", k, names[k], stray.hex(), c.value))]
    return []


def nonutf8_cases(ctx, out):
    rng = ctx.rng("non-utf8")
    anns = impl.builtin_annotations()
    for _ in range(ctx.scale(12, 100)):
        ann = rng.choice(anns)
        fields = colcases.valid_fields(ann, rng, prefer_nonnull=0.9)
        cands = [i for i, f in enumerate(fields) if f]
        if not cands:
            continue
        out.evaluations += 1
        out.failures += eval_nonutf8(ann, "\t".join(fields), rng.choice(cands), rng.choice([b"\xff", b"\xfe", b"\xe9", b"\xc3"]), rng.random() < 0.5, rng.choice(["Silent", "Lenient", "Strict"]))
        out.distribution["file with a byte that is no UTF-8 inside a field"] += 1
        out.nontrivial.add(("non-utf8", ann, tuple(fields)))


def eval_threads(ann, rounds=150):
    """Several threads parse lines at once, each with a scheme instance of its own (a thread pool converting several
    files): every line gets the verdict it gets alone - two threads on conforming lines with long list fields, two on
    lines whose list field has an empty item."""
    import sys
    import threading
    import maflib.column_types as CT
    from maflib.record import MafRecord
    from maflib.validation import ValidationStringency as VS
    sch = impl.scheme_by_annotation(ann)
    names = sch.column_names()
    ks = [i for i, n in enumerate(names) if issubclass(sch.column_class(n), CT.SequenceOfStrings)]
    if not ks:
        return []
    import random
    k = ks[0]
    base = colcases.valid_fields(ann, random.Random(5), prefer_nonnull=0.3)
    good = list(base)
    good[k] = ";".join(["v%d" % i for i in range(300)])
    bad = list(base)
    bad[k] = ";".join(["v%d" % i for i in range(150)] + [""] + ["w%d" % i for i in range(149)])
    lines = ["\t".join(good), "\t".join(bad)]

    def verdict(line, scheme):
        r = MafRecord.from_line(line, scheme=scheme, validation_stringency=VS.Silent)
        try:
            bound = r[names[k]] is not None
        except KeyError:
            bound = False
        return (len(r.validation_errors), bound)
    alone = [verdict(l, type(sch)()) for l in lines]
    where = {"kind": "threads", "scheme": ann, "column": names[k], "alone": alone}
    odd = []

    def work(which):
        scheme = type(sch)()
        for _ in range(rounds):
            v = verdict(lines[which], scheme)
            if v != alone[which]:
                odd.append((which, v))
                return
    saved = sys.getswitchinterval()
    sys.setswitchinterval(1e-6)
    try:
        ts = [threading.Thread(target=work, args=(w,)) for w in (0, 1, 0, 1)]
        for t in ts:
            t.start()
        for t in ts:
            t.join()
    finally:
        sys.setswitchinterval(saved)
    if odd:
        which, v = odd[0]
        return [dict(where, what="parsed by four threads at once (a scheme instance each), the %s line got the verdict (errors, list column bound) = %s; alone it gets %s" % (
            "conforming" if which == 0 else "non-conforming", v, alone[which]))]
    return []


def thread_cases(ctx, out):
    for ann in (["gdc-1.0.0"] if ctx.tier == "quick" else ["gdc-1.0.0", "gdc-1.0.0-protected", "gdc-2.0.0-aliquot"]):
        out.evaluations += 1
        out.failures += eval_threads(ann)
        out.distribution["four threads parsing at once"] += 1
        out.nontrivial.add(("threads", ann))


def aliasing_cases(ctx, out):
    rng = ctx.rng("aliasing")
    anns = impl.builtin_annotations()
    for _ in range(ctx.scale(10, 80)):
        ann = rng.choice(anns)
        line = "\t".join(colcases.valid_fields(ann, rng, prefer_nonnull=rng.choice([0.0, 0.3, 0.9])))
        other = "\t".join(colcases.valid_fields(ann, rng, prefer_nonnull=rng.choice([0.0, 0.5])))
        out.evaluations += 1
        touched, fails = eval_aliasing(ann, line, other)
        out.failures += fails
        out.distribution["aliasing: parse, edit lists in place, parse again"] += 1
        if touched:
            out.nontrivial.add(("aliasing", ann, line))


def run(ctx):
    out = Outcome()
    out.rule = ("type-directed field pools per distinct column class (by MRO) + whole lines (valid, 1-3 perturbed fields, wrong counts) "
                "x 3 modes over all built-in layouts; whole files (valid header, the layout's column line, such lines plus blank-looking lines at any position) "
                "read through every reader entry point (MafReader over a list with/without terminators, a generator, a text handle; reader_from(path) plain and .gz, LF and CRLF): "
                "one record per data line, each under the per-line oracle with its physical line number; a case is non-trivial when it lies in the must-accept or must-reject zone; "
                "distinct = distinct (scheme, column, text) or (scheme, line)")
    structure_cases(ctx, out)
    field_cases(ctx, out, per_sig_uses=ctx.scale(1, 4))
    line_cases(ctx, out, per_scheme=ctx.scale(12, 150))
    file_cases(ctx, out, per_scheme=ctx.scale(1, 6), n_lines=ctx.scale(4, 6))
    aliasing_cases(ctx, out)
    nonutf8_cases(ctx, out)
    thread_cases(ctx, out)
    return out


def search(ctx):
    return run(ctx)


def shrink(ctx, f):
    return f


# ------------------------------------------------------------------ replay
def _short(x, n=400):
    import json
    t = x if isinstance(x, str) else json.dumps(x, default=str, ensure_ascii=True)
    return t if len(t) <= n else t[:n] + "... (%d chars)" % len(t)


def _brief(x):
    if "rec" in x:
        return {"errors": x["rec"]["errors"], "bound": "%d of %d slots" % (len([c for c in x["rec"]["slots"] if c is not None]), len(x["rec"]["slots"])),
                "logs": x.get("logs")}
    return x


def warm_up(schemes):
    """Process history of a line case: parse one line (all fields empty, right count, Silent) under each layout
    the run had parsed lines under before the case, in the same order of first use."""
    from maflib.record import MafRecord
    for ann in schemes:
        sch = impl.scheme_by_annotation(ann)
        if sch is None:
            continue
        try:
            MafRecord.from_line("\t".join([""] * len(sch.column_names())), scheme=sch, line_number=1,
                                validation_stringency=impl.MODES["Silent"])
        except Exception:  # noqa
            pass


def replay_case(ctx, failure):
    """Re-evaluate the stored failing input on the current implementation; the failures it produces now
    ([] = the property holds on it; None = the stored failure lacks the inputs: regenerate from the seed)."""
    f = failure
    if f.get("kind") == "threads" and "scheme" in f:
        fails = eval_threads(f["scheme"])
        print("replay C01: four threads (switch interval 1e-6 s) parse a conforming and a non-conforming %s line 150 times each, each thread with its own scheme instance" % f["scheme"])
        for x in fails:
            print("  oracle: %s" % x["what"])
        return fails
    if f.get("kind") == "non-utf8" and all(k in f for k in ("scheme", "line", "field", "stray", "gz", "mode")):
        fails = eval_nonutf8(f["scheme"], f["line"], int(f["field"]), bytes.fromhex(f["stray"]), bool(f["gz"]), f["mode"])
        print("replay C01: a %s file under %s whose data line has the byte %s in the middle of field %d (%s), read by MafReader.reader_from in %s mode" % (
            ".gz" if f["gz"] else "plain", f["scheme"], f["stray"], int(f["field"]), f.get("column"), f["mode"]))
        for x in fails:
            print("  oracle: %s" % x["what"])
        return fails
    if f.get("kind") == "aliasing" and all(k in f for k in ("scheme", "line", "other_line")):
        touched, fails = eval_aliasing(f["scheme"], f["line"], f["other_line"])
        print("replay C01: MafRecord.from_line under %s; the list values of columns %s of the parsed record changed in place (append); the same line and a later line parsed again" % (f["scheme"], touched))
        for x in fails:
            print("  oracle: %s" % x["what"])
        return fails
    if f.get("kind") == "layout":
        ann = f.get("annotation")
        if ann is None:
            return None
        mo = ctx.driver.run([{"op": "schemes"}, {"op": "spec.layouts"}])
        got = {x["annotation"]: x for x in mo[0]["schemes"]}
        spec = {x["annotation"]: x["names"] for x in mo[1]["layouts"]}
        if ann not in spec and impl.scheme_by_annotation(ann) is None:
            return None       # no such layout on either side: nothing to re-evaluate
        names, dis, fails = eval_layout(ann, got.get(ann), spec.get(ann))
        print("replay C01 layout: column names of the built-in layout %s" % ann)
        print("  implementation: %s" % _short(names))
        print("  documented layout (model, spec.layouts): %s" % ("the same" if spec.get(ann) == names else _short(spec.get(ann))))
        print("  model's scheme table: %s" % ("differs from the implementation" if dis else "agrees with the implementation"))
        return fails
    if "file" in f:
        import tempfile
        case = f["file"]
        if not isinstance(case, dict) or any(k not in case for k in ("scheme", "header", "columns", "lines", "route", "mode", "given")):
            return None
        if impl.scheme_by_annotation(case["scheme"]) is None or case["route"] not in impl.READER_ROUTES:
            return None
        case = dict(case, final=case.get("final", True))
        warm_up(f.get("after_schemes", []))
        specs = {l: v for (_a, l), v in file_specs(ctx, [case]).items()}
        with tempfile.TemporaryDirectory() as tmp:
            e = eval_file(case, specs, tmp, f.get("after_schemes", []))
        res = e["res"]
        print("replay C01 file: %d header line(s), the column line of %s and %d data line(s) read in %s mode through reader route '%s'%s%s"
              % (len(case["header"]), case["scheme"], len(e["data_lines"]), case["mode"], case["route"],
                 " (scheme also given to the reader)" if case["given"] else "",
                 "" if case["final"] else " (last line without terminator)"))
        for j, l in enumerate(e["data_lines"]):
            print("  data line %d (file line %d): %s" % (j, len(case["header"]) + 2 + j, _short(l, 160)))
        if "init_exc" in res:
            print("  implementation: opening the reader raised %s" % res["init_exc"])
        else:
            print("  implementation: %d record(s)%s; errors per record: %s" % (
                len(res["items"]), ", then %s" % res["iter_exc"] if res["iter_exc"] else "",
                _short([x["rec"]["errors"] for x in res["items"]], 300)))
        if case["route"] == "list":
            r = file_model_req(case)
            m = ctx.driver.run([r])[0]
            i = impl.run(r)
            print("  model (reader.run): %s" % ("outside the model" if has_unmodelled(m) else "agrees with the implementation" if m == i else
                                               "DIFFERS: %d record(s)%s" % (len(m.get("records", [])), ", then %s" % m.get("iter_exc") if m.get("iter_exc") else "")))
        else:
            print("  (model: reader.run has no path/handle routes; the list route of the same file is compared in the run)")
        print("  oracle (one record per data line, each under the per-line oracle): outcomes %s, %d failure(s)%s"
              % (e["outcomes"], len(e["failures"]), "".join("\n    - " + x["what"] for x in e["failures"])))
        return e["failures"]
    if "line" in f:
        if any(k not in f for k in ("scheme", "mode", "lineno", "after_schemes")):
            return None
        ann, line, mode, lineno = f["scheme"], f["line"], f["mode"], f["lineno"]
        sch = impl.scheme_by_annotation(ann)
        if sch is None:
            return None
        warm_up(f["after_schemes"])
        r = colcases.from_line_req(ann, line, mode, lineno)
        sreq = {"op": "spec.line", "scheme": ann, "line": line, "floats": float_table(line.rstrip("\r\n").split("\t"))}
        m, s = ctx.driver.run([r, sreq])
        e = eval_line(r, sch.column_names(), m, s, f["after_schemes"])
        print("replay C01 line: MafRecord.from_line(<%d fields>, scheme=%s, line_number=%d, %s) after lines under %d other layouts"
              % (len(line.rstrip("\r\n").split("\t")), ann, lineno, mode, len([a for a in f["after_schemes"] if a != ann])))
        print("  line: %s" % _short(line, 300))
        print("  implementation: %s" % _short(_brief(e["impl"])))
        print("  model: %s (%s)" % (_short(_brief(m)), {"same": "agrees", "differs": "DIFFERS", "dontcare": "differs in the don't-care zone",
                                                           "unmodelled": "outside the model"}[e["model"]]))
        print("  documented reading: count_ok=%s; oracle outcome: %s, %d failure(s)" % (s.get("count_ok"), e["outcome"], len(e["failures"])))
        return e["failures"]
    if "text" in f and "column" in f:
        if any(k not in f for k in ("scheme", "index")):
            return None
        r = colcases.build_req(f["scheme"], f["column"], f["text"], f["index"])
        if impl.scheme_by_annotation(f["scheme"]) is None:
            return None
        sreq = {"op": "spec.domain", "scheme": f["scheme"], "col": f["column"], "text": f["text"], "floats": float_table([f["text"]])}
        m, s = ctx.driver.run([r, sreq])
        e = eval_field(r, m, s)
        print("replay C01 field: %s.build(name=%r, value=%r, column_index=%r) under %s"
              % (impl.class_of(r).__name__, f["column"], f["text"], f["index"], f["scheme"]))
        print("  implementation: %s -> %s" % (_short(e["impl"]), "accepted" if e["accepted"] else "rejected"))
        print("  model: %s (%s)" % (_short(m), "agrees" if m == e["impl"] else "differs"))
        print("  documented domain: %s -> zone %s; %d failure(s)" % (_short(s), e["zone"], len(e["failures"])))
        return e["failures"]
    return None

