"""C01 - validation accepts exactly the lines that conform to the scheme."""
import re

from .. import colcases, common, impl
from ..common import float_table, has_unmodelled, is_model_text
from ..runner import Outcome

LEVEL = "proof"
ASSUMPTIONS = [
    "float()/repr() are an abstract host (FloatHost); its graph on the texts of the run is recorded from CPython",
    "int()/uuid.UUID() leniency beyond the modelled ASCII grammar (Unicode digits/spaces, >4300 digits, 0x/_/sign in hex) is the property's don't-care zone",
]
MODES = ["Strict", "Lenient", "Silent"]

_LENIENT = re.compile(r"^\s|\s$|^\+|_|^[+-]?0\d|^-0+$")   # blanks, sign, underscores, non-canonical numerals


_NUMLIKE = re.compile(r"^\s*[+-]?[0-9_]+\s*$")


def host_lenient(t):
    return bool(_LENIENT.search(t)) or colcases.dontcare_numeric(t) or colcases.dontcare_uuid(t) \
        or t.lower().lstrip("+-") in ("nan", "inf", "infinity") or "x" in t.lower() and t.lower().lstrip("+-").startswith("0x")


def numeric_value(v):
    return v and v.get("t") in ("int", "float", "uuid")


def zone(spec, text):
    """must_accept / must_reject / dontcare for one field (spec = answer of spec.domain/spec.line)."""
    pieces = [text] + text.split(";")
    if any(colcases.dontcare_numeric(p) or colcases.dontcare_uuid(p) for p in pieces):
        return "dontcare"
    if spec.get("in"):
        v = spec.get("value")
        typed = numeric_value(v) or (v and v.get("t") == "list" and any(numeric_value(x) for x in v["v"])) \
            or any(_NUMLIKE.match(p) for p in pieces)
        if typed and any(host_lenient(p) for p in pieces):
            return "dontcare"
        return "must_accept"
    if colcases.dontcare_numeric(text) or colcases.dontcare_uuid(text) or \
            any(colcases.dontcare_numeric(p) or colcases.dontcare_uuid(p) for p in text.split(";")):
        return "dontcare"
    return "must_reject"


def structure_cases(ctx, out):
    """mro / layouts: translator + Lean C3 + Lean scheme building vs live introspection."""
    reqs = [{"op": "schemes"}, {"op": "spec.layouts"}]
    sigs = colcases.class_signatures()
    pairs = []
    for sig, uses in sigs.items():
        for ann, name in uses[:2]:
            pairs.append((ann, name))
            reqs.append({"op": "mro", "scheme": ann, "col": name})
    mo = ctx.driver.run(reqs)
    py_layouts = {ann: impl.scheme_by_annotation(ann) for ann in impl.builtin_annotations()}
    got = {s["annotation"]: s for s in mo[0]["schemes"]}
    spec = {s["annotation"]: s["names"] for s in mo[1]["layouts"]}
    for ann, sch in py_layouts.items():
        out.evaluations += 1
        names = sch.column_names()
        classes = [sch.column_class(n).__name__ for n in names]
        m = got.get(ann)
        if not m or m["names"] != names or m["classes"] != classes or m["version"] != sch.version():
            out.disagreements.append({"op": "schemes", "annotation": ann,
                                      "model": m and {"n": len(m["names"])}, "impl": {"n": len(names)}})
        if spec.get(ann) != names:
            out.failures.append({"what": "layout differs from the documented layout (base order minus filtered, then new columns)",
                                 "kind": "layout", "annotation": ann,
                                 "expected": spec.get(ann), "got": names})
        out.nontrivial.add(("layout", ann))
    if set(got) != set(py_layouts):
        out.disagreements.append({"op": "schemes", "model": sorted(got), "impl": sorted(py_layouts)})
    for (ann, name), m in zip(pairs, mo[2:]):
        out.evaluations += 1
        i = impl.run({"op": "mro", "scheme": ann, "col": name})
        if m != i:
            out.disagreements.append({"op": "mro", "request": [ann, name], "model": m, "impl": i})
        out.nontrivial.add(("mro", tuple(i["mro"])))


def field_cases(ctx, out, per_sig_uses=1):
    rng = ctx.rng("fields")
    sigs = colcases.class_signatures()
    reqs, sreqs = [], []
    for sig, uses in sorted(sigs.items()):
        picks = rng.sample(uses, min(per_sig_uses, len(uses)))
        for ann, name in picks:
            cls = impl.scheme_by_annotation(ann).column_class(name)
            for t in colcases.pool_for(cls, rng):
                reqs.append(colcases.build_req(ann, name, t, rng.randrange(0, 5)))
                sreqs.append({"op": "spec.domain", "scheme": ann, "col": name, "text": t,
                              "floats": float_table([t])})
    mo = ctx.driver.run(reqs + sreqs)
    spec = mo[len(reqs):]
    mo = mo[:len(reqs)]
    for r, m, s in zip(reqs, mo, spec):
        out.evaluations += 1
        i = impl.run(r)
        text = r["text"]
        z = zone(s, text)
        out.distribution["zone:" + z] += 1
        accepted = "col" in i and i["col"]["invalid"] is False and i["col"]["cls"] != "MafColumnRecord"
        # the scheme-level instance check is part of acceptance: a plain MafColumnRecord built by a
        # class that inherits MafColumnRecord.build is rejected by from_line (checked in line cases)
        out.distribution["impl:" + ("accept" if accepted else "reject")] += 1
        if has_unmodelled(m):
            out.unmodelled += 1
        elif m != i:
            if z == "dontcare":
                out.dontcare += 1
            else:
                out.disagreements.append({"op": "col.build", "request": r, "model": m, "impl": i})
        # the property's own oracle on the implementation
        if z == "must_accept":
            if not accepted:
                out.failures.append({"what": "field in the documented domain is rejected", "kind": "reject-valid",
                                     "scheme": r["scheme"], "column": r["col"], "text": text,
                                     "expected": s, "got": i})
            elif i["col"]["value"] != s["value"]:
                out.failures.append({"what": "accepted field does not carry the value the text denotes",
                                     "kind": "wrong-value", "scheme": r["scheme"], "column": r["col"],
                                     "text": text, "expected": s["value"], "got": i["col"]["value"]})
            out.nontrivial.add((r["scheme"], r["col"], text))
        elif z == "must_reject":
            if accepted:
                out.failures.append({"what": "field outside the documented domain is accepted", "kind": "accept-invalid",
                                     "scheme": r["scheme"], "column": r["col"], "text": text,
                                     "expected": s, "got": i})
            out.nontrivial.add((r["scheme"], r["col"], text))
        if len(out.samples) < 3 and z != "dontcare":
            out.sample({"op": "col.build", "scheme": r["scheme"], "column": r["col"], "text": text, "zone": z})


def check_line(out, ann, line, mode, lineno, i, s, names):
    """Property oracle for one parsed line on the implementation's answer `i` (spec answer `s`)."""
    fields = line.rstrip("\r\n").split("\t")
    zones = [zone(f, t) for f, t in zip(s["fields"], fields)] if s["count_ok"] else []
    where = {"scheme": ann, "line": line, "mode": mode, "lineno": lineno}
    if not s["count_ok"]:
        ok = ("exc" in i and i["exc"].startswith("MafFormatException:RECORD_MISMATCH_NUMBER_OF_COLUMNS")) if mode == "Strict" \
            else ("rec" in i and ["RECORD_MISMATCH_NUMBER_OF_COLUMNS", lineno] in i["rec"]["errors"] and not i["rec"]["slots"])
        if not ok:
            out.failures.append(dict(where, what="wrong field count is not reported as such", kind="count", got=i))
        return "count"
    if "dontcare" in zones:
        # the verdict on the whole line is open; per-field binding of the must-accept fields is still checked
        pass
    all_accept = all(z == "must_accept" for z in zones)
    any_reject = any(z == "must_reject" for z in zones)
    if mode == "Strict":
        if all_accept and "exc" in i:
            out.failures.append(dict(where, what="conforming line rejected in Strict mode", kind="reject-valid", got=i))
        if any_reject and not ("exc" in i and i["exc"].startswith("MafFormatException:")):
            out.failures.append(dict(where, what="non-conforming line not refused with the format exception in Strict mode",
                                     kind="accept-invalid", got=i,
                                     column=names[zones.index("must_reject")]))
        if "exc" in i:
            return "strict-exc"
    if "rec" not in i:
        out.failures.append(dict(where, what="unexpected exception", kind="exception", got=i))
        return "exc"
    rec = i["rec"]
    if all_accept and rec["errors"]:
        out.failures.append(dict(where, what="conforming line reports validation errors", kind="reject-valid", got=rec["errors"]))
    if any_reject and not rec["errors"]:
        out.failures.append(dict(where, what="non-conforming line reports no validation error", kind="accept-invalid"))
    slots = rec["slots"]
    for k, (z, f, t) in enumerate(zip(zones, s["fields"], fields)):
        slot = slots[k] if k < len(slots) else None
        if z == "must_accept":
            if slot is None or slot["key"] != names[k] or slot["index"] != k or slot["value"] != f["value"]:
                out.failures.append(dict(where, what="field %d is not bound to its column name with the value the text denotes" % k,
                                         kind="binding", column=names[k], text=t, expected=f["value"], got=slot))
                break
        elif z == "must_reject":
            if slot is not None:
                out.failures.append(dict(where, what="field outside its domain is exposed as a value",
                                         kind="exposed", column=names[k], text=t, got=slot))
                break
            if not any(names[k] in msg for msg in i.get("messages", [names[k]])):
                out.failures.append(dict(where, what="rejected field is not reported against its column",
                                         kind="unreported", column=names[k], text=t))
                break
    return "clean" if not rec["errors"] else "errors"


def line_cases(ctx, out, per_scheme):
    rng = ctx.rng("lines")
    reqs, sreqs, meta = [], [], []
    for ann in impl.builtin_annotations():
        names = impl.scheme_by_annotation(ann).column_names()
        for line in colcases.line_cases(ann, rng, per_scheme):
            if not is_model_text(line):
                continue
            lineno = rng.randrange(1, 200)
            sreq = {"op": "spec.line", "scheme": ann, "line": line,
                    "floats": float_table(line.rstrip("\r\n").split("\t"))}
            for mode in MODES:
                reqs.append(colcases.from_line_req(ann, line, mode, lineno))
                sreqs.append(sreq)
                meta.append((ann, line, mode, lineno, names))
    # spec answers are per line: de-duplicate requests
    uniq = {}
    for sr in sreqs:
        uniq.setdefault((sr["scheme"], sr["line"]), sr)
    keys = list(uniq)
    mo = ctx.driver.run(reqs + [uniq[k] for k in keys])
    specs = dict(zip(keys, mo[len(reqs):]))
    for r, m, (ann, line, mode, lineno, names) in zip(reqs, mo, meta):
        out.evaluations += 1
        i = impl_from_line(r)
        s = specs[(ann, line)]
        i_cmp = {k: v for k, v in i.items() if k != "messages"}
        fields = line.rstrip("\r\n").split("\t")
        dc = any(colcases.dontcare_numeric(p) or colcases.dontcare_uuid(p) for f in fields for p in [f] + f.split(";"))
        if has_unmodelled(m):
            out.unmodelled += 1
        elif m != i_cmp:
            if dc:
                out.dontcare += 1
            else:
                out.disagreements.append({"op": "rec.from_line", "request": {k: r[k] for k in ("scheme", "line", "mode", "lineno")},
                                          "model": summarize(m), "impl": summarize(i_cmp)})
        kind = check_line(out, ann, line, mode, lineno, i, s, names)
        out.distribution["line:" + kind] += 1
        out.nontrivial.add((ann, line))
        if len(out.samples) < 6 and kind in ("errors", "count"):
            out.sample({"op": "rec.from_line", "scheme": ann, "mode": mode, "line": line[:160], "outcome": kind})


def summarize(x):
    if "rec" in x:
        return {"errors": x["rec"]["errors"], "keys": x["rec"]["keys"], "str": x["rec"]["str"], "logs": x.get("logs")}
    return x


def impl_from_line(r):
    """rec.from_line on the implementation, plus the error messages (for 'reported against that column')."""
    from maflib.record import MafRecord
    i = impl.run(r)
    if "rec" in i:
        # messages are only available by re-parsing in Silent mode (cheap)
        try:
            rec = MafRecord.from_line(r["line"], scheme=impl.scheme_of(r), line_number=r.get("lineno"),
                                      validation_stringency=impl.MODES["Silent"])
            i["messages"] = [e.message for e in rec.validation_errors]
        except Exception:  # noqa
            pass
    return i


def run(ctx):
    out = Outcome()
    out.rule = ("type-directed field pools per distinct column class (by MRO) + whole lines (valid, 1-3 perturbed fields, wrong counts) "
                "x 3 modes over all built-in layouts; a case is non-trivial when it lies in the must-accept or must-reject zone; "
                "distinct = distinct (scheme, column, text) or (scheme, line)")
    structure_cases(ctx, out)
    field_cases(ctx, out, per_sig_uses=ctx.scale(1, 4))
    line_cases(ctx, out, per_scheme=ctx.scale(12, 150))
    return out


def search(ctx):
    return run(ctx)


def shrink(ctx, f):
    return f

