"""C07 - the external sorter returns a sorted permutation for every capacity and order."""
import json
import tempfile

from .. import impl, sortcases as SC
from ..common import exc_name, has_unmodelled
from ..runner import Outcome
from .c08 import expected_cmp

LEVEL = "proof"
ASSUMPTIONS = ["gzip/struct/tempfile round-trip bytes faithfully (observed, not proved)",
               "heapq may emit key-equal items in any order: outputs are compared as key sequences plus multisets"]


class JsonCodec:
    def encode(self, obj):
        return bytearray(json.dumps(obj).encode("utf-8"))

    def decode(self, data, start, length):
        v = json.loads(bytes(data[start:start + length]).decode("utf-8"))
        return tuple(v) if isinstance(v, list) else v


def generic_run(items, keyf, cap, always_spill, tmp):
    from maflib.sorter import Sorter
    s = Sorter(cap, JsonCodec(), keyf, tmp_dir=tmp, always_spill=always_spill)
    try:
        for it in items:
            s += it
        first = list(s)
        second = list(s)
        return first, second, None
    except Exception as e:  # noqa
        return None, None, exc_name(e)
    finally:
        try:
            s.close()
        except Exception:  # noqa
            pass


KEYFS = {
    "int": lambda x: x[0],                     # keys include 0
    "str": lambda x: str(x[1]),                # keys include ""
    "mod": lambda x: x[0] % 3,                 # many ties, key 0
    "tuple": lambda x: tuple(x[2:]),           # keys include ()
}


def gen_items(rng, n):
    items = []
    for k in range(n):
        a = rng.choice([0, 0, 1, 2, 3, -1, 5])
        b = rng.choice(["", "", "a", "b", "ab"])
        tail = [rng.randrange(3) for _ in range(rng.choice([0, 0, 1, 2]))]
        items.append(tuple([a, b] + tail))
    return items


def check_output(where, items, keyf, first, second, exc, canon):
    """The oracle on one generic sorting: (failures, key sequence or None)."""
    fails = []
    if exc:
        fails.append(dict(where, what="sorting failed with %s" % exc, kind="exception"))
        return fails, None
    keys = [keyf(x) for x in first]
    if sorted(map(repr, first)) != sorted(map(repr, items)):
        fails.append(dict(where, what="output is not a permutation of the input: %d in, %d out" % (len(items), len(first)),
                          kind="not-permutation", got=first[:8]))
        return fails, None
    if any(keys[i] > keys[i + 1] for i in range(len(keys) - 1)):
        fails.append(dict(where, what="output is not in non-decreasing key order", kind="not-sorted", keys=keys[:12]))
        return fails, None
    if second != first:
        fails.append(dict(where, what="iterating again gives a different sequence", kind="reiterate",
                          first=len(first), second=len(second)))
    if canon is not None and keys != canon:
        fails.append(dict(where, what="key sequence depends on capacity / policy / insertion order", kind="not-canonical", canon=canon))
    return fails, keys


def eval_generic(order, kname, cap, sp, tmp, canon):
    """One generic sorting on the implementation and the oracle's verdict (shared by run and replay_case).

    `order` is the insertion order.  Returns (where, first, second, exc, failures, keys, model request or None)."""
    keyf = KEYFS[kname]
    first, second, exc = generic_run(order, keyf, cap, sp, tmp)
    where = {"items": order, "key": kname, "capacity": cap, "always_spill": sp}
    fails, keys = check_output(where, order, keyf, first, second, exc, canon)
    req = None
    if kname in ("int", "mod") and first is not None:
        req = ({"op": "sorter.run", "cap": cap, "always_spill": sp, "items": [[keyf(x), i] for i, x in enumerate(order)]},
               [keyf(x) for x in first])
    return where, first, second, exc, fails, keys, req


def model_differs(r, keys, m):
    mkeys = [p[0] for p in m["out"]]
    if sorted(p[1] for p in m["out"]) != list(range(len(r["items"]))) or mkeys != keys:
        return {"op": "sorter.run", "request": r, "model_keys": mkeys, "impl_keys": keys}
    return None


def generic_cases(ctx, out, tmp):
    rng = ctx.rng("generic")
    reqs = []
    for _ in range(ctx.scale(60, 500)):
        n = rng.choice([0, 1, 2, 3, 4, 5, 6, 8, 9])
        items = gen_items(rng, n)
        kname = rng.choice(list(KEYFS))
        canon = None
        for cap in range(1, n + 2):
            for sp in (True, False):
                order = list(items)
                rng.shuffle(order)
                out.evaluations += 1
                where, first, second, exc, fails, keys, req = eval_generic(order, kname, cap, sp, tmp, canon)
                out.failures += fails
                if keys is not None and canon is None:
                    canon = keys
                if n >= 2:
                    out.nontrivial.add(repr((sorted(items), kname, cap, sp)))
                out.distribution["key:" + kname] += 1
                if req is not None:
                    reqs.append(req)
        if len(out.samples) < 3 and n >= 4:
            out.sample({"items": items, "key": kname, "capacities": "1..%d" % (n + 1), "policies": [True, False]})
    mo = ctx.driver.run([r for r, _ in reqs])
    for (r, keys), m in zip(reqs, mo):
        d = model_differs(r, keys, m)
        if d:
            out.disagreements.append(d)


def make_maf_record(config, spec):
    """A record of a MAF sorting case from (tumor, normal or None, chromosome, start, end)."""
    t, nn, c, s, e = spec
    if config == "scheme":
        return SC.typed_record(None, t, nn, c, s, e)
    return SC.untyped_record(t, nn or "", c, str(s), str(e))


def maf_keyseq(locs, order):
    return [[l["tumor"] if order == "BarcodesAndCoordinate" else None, l["normal"] if order == "BarcodesAndCoordinate" else None,
             str(l["chr"]), int(l["start"]), int(l["stop"])] for l in locs]


def eval_maf(order, contigs, config, cap, specs, canon):
    """One MAF sorting (records built from `specs`, added in that order) and the oracle's verdict (shared by run and
    replay_case).  Returns (where, output texts or None, failures, key sequence or None)."""
    from maflib.sorter import MafSorter, MafSorterCodec, Sorter
    recs = [make_maf_record(config, sp) for sp in specs]
    kw = {"contigs": contigs} if contigs else {}
    where = {"order": order, "contigs": contigs, "codec": config, "capacity": cap, "specs": [list(sp) for sp in specs],
             "records": [str(r).split("\t")[:8] if config != "scheme" else [SC.loc_json(r)] for r in recs][:8]}
    fails = []
    try:
        if config == "scheme":
            sorter = MafSorter(order, scheme=impl.scheme_by_annotation("gdc-1.0.0"), max_objects_in_ram=cap, **kw)
        elif config == "inferred":
            sorter = MafSorter(order, max_objects_in_ram=cap, **kw)
        else:
            so = SC.order_obj(order, contigs)
            sorter = Sorter(cap, MafSorterCodec(column_names=list(recs[0].keys()) if recs else ["a"]), so.sort_key())
        for r in recs:
            sorter += r
        first = list(sorter)
        second = list(sorter)
        sorter.close()
    except Exception as e:  # noqa
        fails.append(dict(where, what="MAF sorting failed with %s" % exc_name(e), kind="exception"))
        return where, None, fails, None
    texts = [str(r) for r in first]
    texts_in = sorted(str(r) for r in recs)
    if sorted(texts) != texts_in:
        fails.append(dict(where, what="output records are not the added records (text)", kind="not-permutation"))
        return where, texts, fails, None
    vals_in = sorted(repr([impl.enc_val(v) for v in r.column_values()]) for r in recs)
    if sorted(repr([impl.enc_val(v) for v in r.column_values()]) for r in first) != vals_in:
        fails.append(dict(where, what="output records do not carry equal values", kind="values"))
    locs = [SC.loc_json(r) for r in first]
    bad = [i for i in range(len(locs) - 1) if expected_cmp(locs[i], locs[i + 1], order, contigs or []) > 0]
    if bad:
        fails.append(dict(where, what="output is not in non-decreasing key order (documented order)", kind="not-sorted",
                          at=bad[0], keys=locs[bad[0]:bad[0] + 2]))
    if [str(r) for r in second] != texts:
        fails.append(dict(where, what="iterating again gives a different sequence", kind="reiterate"))
    keyseq = maf_keyseq(locs, order)
    if canon is not None and keyseq != canon:
        fails.append(dict(where, what="key sequence depends on the capacity / insertion order", kind="not-canonical", canon=canon))
    return where, texts, fails, keyseq


def maf_cases(ctx, out):
    rng = ctx.rng("maf")
    for _ in range(ctx.scale(40, 400)):
        order = rng.choice(["Coordinate", "BarcodesAndCoordinate"])
        contigs = rng.choice([None, ["1", "2", "10", "X"], ["10", "X", "2", "1"]])
        config = rng.choice(["scheme", "names", "inferred"])
        n = rng.choice([0, 1, 3, 4, 5, 7])
        specs = [(rng.choice(["T1", "T2"]), rng.choice(["N1", "N2", None]), rng.choice(["1", "2", "10", "X"]),
                  rng.choice([5, 9, 10, 100, 1000]), rng.choice([0, 1, 10])) for _ in range(n)]
        canon = None
        for cap in sorted({1, 2, 3, max(1, n), n + 1}):
            out.evaluations += 1
            added = [(t, nn, c, s, s + d) for (t, nn, c, s, d) in specs]
            rng.shuffle(added)
            where, texts, fails, keyseq = eval_maf(order, contigs, config, cap, added, canon)
            out.failures += fails
            if keyseq is None:
                continue
            canon = canon or keyseq
            out.distribution["codec:" + config] += 1
            if n >= 2:
                out.nontrivial.add(repr((specs, order, contigs, config, cap)))


def run(ctx):
    out = Outcome()
    out.rule = ("generic sorter: multisets with ties over int / str / tuple keys including 0, '' and (), every capacity 1..n+1, both spill policies, shuffled insertion orders, "
                "iterated twice; MAF sorter: both orders x contigs absent/lexical/other x three codec configurations x capacities around n; "
                "non-trivial = n >= 2; distinct (multiset, key, capacity, policy)")
    with tempfile.TemporaryDirectory() as tmp:
        generic_cases(ctx, out, tmp)
    maf_cases(ctx, out)
    return out


def _untuple(x):
    return tuple(x) if isinstance(x, list) else x


def specs_of(failure):
    """Insertion-order record specs of a stored MAF case ("specs", or rebuilt from the older "records" field)."""
    if "specs" in failure:
        return [tuple(sp) for sp in failure["specs"]]
    out = []
    for r in failure.get("records", []):
        if failure["codec"] == "scheme":
            l = r[0]
            out.append((l["tumor"], l["normal"], str(l["chr"]), int(l["start"]), int(l["stop"])))
        else:       # Hugo, Chromosome, Start, End, Tumor, Normal, ...
            out.append((r[4], r[5] or None, r[1], int(r[2]), int(r[3])))
    return out


def replay_case(ctx, failure):
    """Re-evaluate the stored failing input on the current implementation; return the list of failure dicts it
    produces now (empty list = the property holds on that input)."""
    if "items" in failure and failure.get("key") in KEYFS and "capacity" in failure:
        order = [_untuple(x) for x in failure["items"]]
        kname, cap, sp = failure["key"], failure["capacity"], bool(failure.get("always_spill"))
        keyf = KEYFS[kname]
        canon = failure.get("canon")
        canon = sorted(keyf(x) for x in order) if canon is None else [_untuple(k) for k in canon]
        print("generic sorter: add %d items %s, key=%s, capacity=%d, always_spill=%s, iterate twice" % (len(order), order, kname, cap, sp))
        with tempfile.TemporaryDirectory() as tmp:
            where, first, second, exc, fails, keys, req = eval_generic(order, kname, cap, sp, tmp, canon)
        if exc:
            print("implementation: raised %s" % exc)
        else:
            print("implementation: first pass %s" % (first,))
            print("                keys %s%s" % ([keyf(x) for x in first], "" if second == first else "; second pass %s" % (second,)))
        print("expected keys:  %s" % canon)
        if req is not None:
            try:
                m = ctx.driver.run([req[0]])[0]
                print("model keys:     %s%s" % ([p[0] for p in m["out"]], "   (differs from the implementation)" if model_differs(req[0], req[1], m) else ""))
            except Exception as e:  # noqa
                print("model: not available (%s)" % str(e)[:200])
        else:
            print("model: not consulted for %s" % ("a failed sorting" if first is None else "key kind %r (only int / mod keys are run on the model)" % kname))
        for f in fails:
            print("oracle fails: %s" % f["what"])
        return fails
    if "codec" in failure and "order" in failure and "capacity" in failure and ("specs" in failure or "records" in failure):
        order, contigs, config, cap = failure["order"], failure.get("contigs") or None, failure["codec"], failure["capacity"]
        specs = specs_of(failure)
        canon = failure.get("canon")
        if canon is None:
            # the key sequence every capacity must produce: the documented order applied to the added records
            import functools
            locs = [SC.loc_json(make_maf_record(config, sp)) for sp in specs]
            locs.sort(key=functools.cmp_to_key(lambda a, b: expected_cmp(a, b, order, contigs or [])))
            canon = maf_keyseq(locs, order)
        print("MAF sorter: order=%s contigs=%s codec=%s capacity=%d; %d records added as (tumor, normal, chr, start, end): %s" % (
            order, contigs, config, cap, len(specs), [list(sp) for sp in specs]))
        where, texts, fails, keyseq = eval_maf(order, contigs, config, cap, specs, canon)
        if texts is None:
            print("implementation: %s" % fails[0]["what"])
        else:
            print("implementation: %d records out%s" % (len(texts), "" if keyseq is None else ", keys %s" % keyseq))
        print("expected keys:  %s" % canon)
        print("model: MAF-record sortings are not run on the model (the generic sorter and the sort keys are)")
        for f in fails:
            print("oracle fails: %s" % f["what"])
        return fails
    return None


def search(ctx):
    return run(ctx)

