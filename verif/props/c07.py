"""C07 - the external sorter returns a sorted permutation for every capacity and order."""
import json
import tempfile

from .. import impl, sortcases as SC
from ..common import exc_name, has_unmodelled
from ..runner import Outcome
from .c08 import expected_cmp

LEVEL = "proof"
ASSUMPTIONS = ["gzip/struct/tempfile round-trip bytes faithfully (observed, not proved)",
               "heapq may emit key-equal items in any order: outputs are compared as key sequences plus multisets"]


class JsonCodec:
    def encode(self, obj):
        return bytearray(json.dumps(obj).encode("utf-8"))

    def decode(self, data, start, length):
        v = json.loads(bytes(data[start:start + length]).decode("utf-8"))
        return tuple(v) if isinstance(v, list) else v


def generic_run(items, keyf, cap, always_spill, tmp):
    from maflib.sorter import Sorter
    s = Sorter(cap, JsonCodec(), keyf, tmp_dir=tmp, always_spill=always_spill)
    try:
        for it in items:
            s += it
        first = list(s)
        second = list(s)
        return first, second, None
    except Exception as e:  # noqa
        return None, None, exc_name(e)
    finally:
        try:
            s.close()
        except Exception:  # noqa
            pass


KEYFS = {
    "int": lambda x: x[0],                     # keys include 0
    "str": lambda x: str(x[1]),                # keys include ""
    "mod": lambda x: x[0] % 3,                 # many ties, key 0
    "tuple": lambda x: tuple(x[2:]),           # keys include ()
}


def gen_items(rng, n):
    items = []
    for k in range(n):
        a = rng.choice([0, 0, 1, 2, 3, -1, 5])
        b = rng.choice(["", "", "a", "b", "ab"])
        tail = [rng.randrange(3) for _ in range(rng.choice([0, 0, 1, 2]))]
        items.append(tuple([a, b] + tail))
    return items


def check_output(out, where, items, keyf, first, second, exc, canon):
    if exc:
        out.failures.append(dict(where, what="sorting failed with %s" % exc, kind="exception"))
        return None
    keys = [keyf(x) for x in first]
    if sorted(map(repr, first)) != sorted(map(repr, items)):
        out.failures.append(dict(where, what="output is not a permutation of the input: %d in, %d out" % (len(items), len(first)),
                                 kind="not-permutation", got=first[:8]))
        return None
    if any(keys[i] > keys[i + 1] for i in range(len(keys) - 1)):
        out.failures.append(dict(where, what="output is not in non-decreasing key order", kind="not-sorted", keys=keys[:12]))
        return None
    if second != first:
        out.failures.append(dict(where, what="iterating again gives a different sequence", kind="reiterate",
                                 first=len(first), second=len(second)))
    if canon is not None and keys != canon:
        out.failures.append(dict(where, what="key sequence depends on capacity / policy / insertion order", kind="not-canonical"))
    return keys


def generic_cases(ctx, out, tmp):
    rng = ctx.rng("generic")
    reqs = []
    for _ in range(ctx.scale(60, 500)):
        n = rng.choice([0, 1, 2, 3, 4, 5, 6, 8, 9])
        items = gen_items(rng, n)
        kname = rng.choice(list(KEYFS))
        keyf = KEYFS[kname]
        canon = None
        for cap in range(1, n + 2):
            for sp in (True, False):
                order = list(items)
                rng.shuffle(order)
                out.evaluations += 1
                first, second, exc = generic_run(order, keyf, cap, sp, tmp)
                where = {"items": order, "key": kname, "capacity": cap, "always_spill": sp}
                keys = check_output(out, where, order, keyf, first, second, exc, canon)
                if keys is not None and canon is None:
                    canon = keys
                if n >= 2:
                    out.nontrivial.add(repr((sorted(items), kname, cap, sp)))
                out.distribution["key:" + kname] += 1
                if kname in ("int", "mod") and first is not None:
                    reqs.append(({"op": "sorter.run", "cap": cap, "always_spill": sp,
                                  "items": [[keyf(x), i] for i, x in enumerate(order)]}, [keyf(x) for x in first]))
        if len(out.samples) < 3 and n >= 4:
            out.sample({"items": items, "key": kname, "capacities": "1..%d" % (n + 1), "policies": [True, False]})
    mo = ctx.driver.run([r for r, _ in reqs])
    for (r, keys), m in zip(reqs, mo):
        mkeys = [p[0] for p in m["out"]]
        if sorted(p[1] for p in m["out"]) != list(range(len(r["items"]))) or mkeys != keys:
            out.disagreements.append({"op": "sorter.run", "request": r, "model_keys": mkeys, "impl_keys": keys})


def maf_cases(ctx, out):
    from maflib.sorter import MafSorter, MafSorterCodec, Sorter
    rng = ctx.rng("maf")
    sch = impl.scheme_by_annotation("gdc-1.0.0")
    for _ in range(ctx.scale(40, 400)):
        order = rng.choice(["Coordinate", "BarcodesAndCoordinate"])
        contigs = rng.choice([None, ["1", "2", "10", "X"], ["10", "X", "2", "1"]])
        config = rng.choice(["scheme", "names", "inferred"])
        n = rng.choice([0, 1, 3, 4, 5, 7])
        specs = [(rng.choice(["T1", "T2"]), rng.choice(["N1", "N2", None]), rng.choice(["1", "2", "10", "X"]),
                  rng.choice([5, 9, 10, 100, 1000]), rng.choice([0, 1, 10])) for _ in range(n)]
        canon = None
        for cap in sorted({1, 2, 3, max(1, n), n + 1}):
            out.evaluations += 1
            recs = []
            for (t, nn, c, s, d) in specs:
                if config == "scheme":
                    recs.append(SC.typed_record(rng, t, nn, c, s, s + d))
                else:
                    recs.append(SC.untyped_record(t, nn or "", c, str(s), str(s + d)))
            rng.shuffle(recs)
            kw = {"contigs": contigs} if contigs else {}
            where = {"order": order, "contigs": contigs, "codec": config, "capacity": cap,
                     "records": [str(r).split("\t")[:8] if config != "scheme" else [SC.loc_json(r)] for r in recs][:8]}
            try:
                if config == "scheme":
                    sorter = MafSorter(order, scheme=sch, max_objects_in_ram=cap, **kw)
                elif config == "inferred":
                    sorter = MafSorter(order, max_objects_in_ram=cap, **kw)
                else:
                    so = SC.order_obj(order, contigs)
                    sorter = Sorter(cap, MafSorterCodec(column_names=list(recs[0].keys()) if recs else ["a"]), so.sort_key())
                for r in recs:
                    sorter += r
                first = list(sorter)
                second = list(sorter)
                sorter.close()
            except Exception as e:  # noqa
                out.failures.append(dict(where, what="MAF sorting failed with %s" % exc_name(e), kind="exception"))
                continue
            texts_in = sorted(str(r) for r in recs)
            if sorted(str(r) for r in first) != texts_in:
                out.failures.append(dict(where, what="output records are not the added records (text)", kind="not-permutation"))
                continue
            vals_in = sorted(repr([impl.enc_val(v) for v in r.column_values()]) for r in recs)
            if sorted(repr([impl.enc_val(v) for v in r.column_values()]) for r in first) != vals_in:
                out.failures.append(dict(where, what="output records do not carry equal values", kind="values"))
            locs = [SC.loc_json(r) for r in first]
            bad = [i for i in range(len(locs) - 1) if expected_cmp(locs[i], locs[i + 1], order, contigs or []) > 0]
            if bad:
                out.failures.append(dict(where, what="output is not in non-decreasing key order (documented order)", kind="not-sorted",
                                         at=bad[0], keys=locs[bad[0]:bad[0] + 2]))
            if [str(r) for r in second] != [str(r) for r in first]:
                out.failures.append(dict(where, what="iterating again gives a different sequence", kind="reiterate"))
            keyseq = [[l["tumor"] if order == "BarcodesAndCoordinate" else None, l["normal"] if order == "BarcodesAndCoordinate" else None,
                       str(l["chr"]), int(l["start"]), int(l["stop"])] for l in locs]
            if canon is not None and keyseq != canon:
                out.failures.append(dict(where, what="key sequence depends on the capacity / insertion order", kind="not-canonical"))
            canon = canon or keyseq
            out.distribution["codec:" + config] += 1
            if n >= 2:
                out.nontrivial.add(repr((specs, order, contigs, config, cap)))


def run(ctx):
    out = Outcome()
    out.rule = ("generic sorter: multisets with ties over int / str / tuple keys including 0, '' and (), every capacity 1..n+1, both spill policies, shuffled insertion orders, "
                "iterated twice; MAF sorter: both orders x contigs absent/lexical/other x three codec configurations x capacities around n; "
                "non-trivial = n >= 2; distinct (multiset, key, capacity, policy)")
    with tempfile.TemporaryDirectory() as tmp:
        generic_cases(ctx, out, tmp)
    maf_cases(ctx, out)
    return out


def search(ctx):
    return run(ctx)

