"""C07 - the external sorter returns a sorted permutation for every capacity and order."""
import json
import tempfile

from .. import impl, sortcases as SC
from ..common import exc_name, has_unmodelled
from ..runner import Outcome
from .c08 import expected_cmp

LEVEL = "proof"
ASSUMPTIONS = ["gzip/struct/tempfile round-trip bytes faithfully (observed, not proved)",
               "heapq may emit key-equal items in any order: outputs are compared as key sequences plus multisets"]


class JsonCodec:
    def encode(self, obj):
        return bytearray(json.dumps(obj).encode("utf-8"))

    def decode(self, data, start, length):
        v = json.loads(bytes(data[start:start + length]).decode("utf-8"))
        return tuple(v) if isinstance(v, list) else v


def generic_run(items, keyf, cap, always_spill, tmp):
    from maflib.sorter import Sorter
    s = Sorter(cap, JsonCodec(), keyf, tmp_dir=tmp, always_spill=always_spill)
    try:
        for it in items:
            s += it
        first = list(s)
        second = list(s)
        return first, second, None
    except Exception as e:  # noqa
        return None, None, exc_name(e)
    finally:
        try:
            s.close()
        except Exception:  # noqa
            pass


KEYFS = {
    "int": lambda x: x[0],                     # keys include 0
    "str": lambda x: str(x[1]),                # keys include ""
    "mod": lambda x: x[0] % 3,                 # many ties, key 0
    "tuple": lambda x: tuple(x[2:]),           # keys include ()
}


def gen_items(rng, n):
    items = []
    for k in range(n):
        a = rng.choice([0, 0, 1, 2, 3, -1, 5])
        b = rng.choice(["", "", "a", "b", "ab"])
        tail = [rng.randrange(3) for _ in range(rng.choice([0, 0, 1, 2]))]
        items.append(tuple([a, b] + tail))
    return items


def check_output(where, items, keyf, first, second, exc, canon):
    """The oracle on one generic sorting: (failures, key sequence or None)."""
    fails = []
    if exc:
        fails.append(dict(where, what="sorting failed with %s" % exc, kind="exception"))
        return fails, None
    keys = [keyf(x) for x in first]
    if sorted(map(repr, first)) != sorted(map(repr, items)):
        fails.append(dict(where, what="output is not a permutation of the input: %d in, %d out" % (len(items), len(first)),
                          kind="not-permutation", got=first[:8]))
        return fails, None
    if any(keys[i] > keys[i + 1] for i in range(len(keys) - 1)):
        fails.append(dict(where, what="output is not in non-decreasing key order", kind="not-sorted", keys=keys[:12]))
        return fails, None
    if second != first:
        fails.append(dict(where, what="iterating again gives a different sequence", kind="reiterate",
                          first=len(first), second=len(second)))
    if canon is not None and keys != canon:
        fails.append(dict(where, what="key sequence depends on capacity / policy / insertion order", kind="not-canonical", canon=canon))
    return fails, keys


def eval_generic(order, kname, cap, sp, tmp, canon):
    """One generic sorting on the implementation and the oracle's verdict (shared by run and replay_case).

    `order` is the insertion order.  Returns (where, first, second, exc, failures, keys, model request or None)."""
    keyf = KEYFS[kname]
    first, second, exc = generic_run(order, keyf, cap, sp, tmp)
    where = {"items": order, "key": kname, "capacity": cap, "always_spill": sp}
    fails, keys = check_output(where, order, keyf, first, second, exc, canon)
    req = None
    if kname in ("int", "mod") and first is not None:
        req = ({"op": "sorter.run", "cap": cap, "always_spill": sp, "items": [[keyf(x), i] for i, x in enumerate(order)]},
               [keyf(x) for x in first])
    return where, first, second, exc, fails, keys, req


def model_differs(r, keys, m):
    mkeys = [p[0] for p in m["out"]]
    if sorted(p[1] for p in m["out"]) != list(range(len(r["items"]))) or mkeys != keys:
        return {"op": "sorter.run", "request": r, "model_keys": mkeys, "impl_keys": keys}
    return None


def eval_generic_history(batches, kname, cap, always_spill, tmp, early=None):
    """Items added in batches with a full iteration after each batch: every iteration returns all items added so far,
    each once, in non-decreasing key order (iterating is not the end of a sorter's life)."""
    from maflib.sorter import Sorter
    keyf = KEYFS[kname]
    where = {"kind": "iterate-then-add", "batches": [[list(x) for x in b] for b in batches], "key": kname, "capacity": cap, "always_spill": always_spill}
    if early:
        # consumer-first pipelines: the iterator object is made (iter(sorter), or enumerate / map / zip over the sorter,
        # which call iter() at once) BEFORE the batch is added and consumed afterwards; nothing is consumed early, so
        # every item added by then is part of the iteration
        where["early"] = early
    s = Sorter(cap, JsonCodec(), keyf, tmp_dir=tmp, always_spill=always_spill)
    fails = []
    added = []
    try:
        for n, b in enumerate(batches):
            pending = None
            if early:
                pending = iter(s) if early == "iter" else (x for _k, x in enumerate(s)) if early == "enumerate" else map(lambda x: x, s)
            for it in b:
                s += it
                added.append(it)
            got = [tuple(x) for x in (s if pending is None else pending)]
            if sorted(map(repr, got)) != sorted(map(repr, added)):
                fails.append(dict(where, what="iteration %d (after %d items in all) does not return every added item exactly once (%d returned)" % (n + 1, len(added), len(got))))
                break
            keys = [keyf(x) for x in got]
            if any(keys[i] > keys[i + 1] for i in range(len(keys) - 1)):
                fails.append(dict(where, what="iteration %d (items added after an earlier iteration) is not in non-decreasing key order: %s" % (n + 1, keys)))
                break
    except Exception as e:  # noqa
        fails.append(dict(where, what="adding after an iteration, or iterating again, failed with %s" % exc_name(e)))
    finally:
        try:
            s.close()
        except Exception:  # noqa
            pass
    return fails


def generic_history_cases(ctx, out, tmp):
    rng = ctx.rng("generic-history")
    for _ in range(ctx.scale(80, 600)):
        batches = [gen_items(rng, rng.choice([0, 1, 2, 3, 4])) for _b in range(rng.choice([2, 3]))]
        n = sum(len(b) for b in batches)
        cap = rng.choice([1, 2, 3, max(1, n), n + 1, n + 3])
        out.evaluations += 1
        out.failures += eval_generic_history(batches, rng.choice(list(KEYFS)), cap, rng.random() < 0.5, tmp, early=rng.choice([None, None, "iter", "enumerate", "map"]))
        out.distribution["generic: iterate, add more, iterate again"] += 1
        if n >= 2:
            out.nontrivial.add(repr(("history", batches, cap)))


def generic_cases(ctx, out, tmp):
    rng = ctx.rng("generic")
    reqs = []
    for _ in range(ctx.scale(60, 500)):
        n = rng.choice([0, 1, 2, 3, 4, 5, 6, 8, 9])
        items = gen_items(rng, n)
        kname = rng.choice(list(KEYFS))
        canon = None
        for cap in range(1, n + 2):
            for sp in (True, False):
                order = list(items)
                rng.shuffle(order)
                out.evaluations += 1
                where, first, second, exc, fails, keys, req = eval_generic(order, kname, cap, sp, tmp, canon)
                out.failures += fails
                if keys is not None and canon is None:
                    canon = keys
                if n >= 2:
                    out.nontrivial.add(repr((sorted(items), kname, cap, sp)))
                out.distribution["key:" + kname] += 1
                if req is not None:
                    reqs.append(req)
        if len(out.samples) < 3 and n >= 4:
            out.sample({"items": items, "key": kname, "capacities": "1..%d" % (n + 1), "policies": [True, False]})
    mo = ctx.driver.run([r for r, _ in reqs])
    for (r, keys), m in zip(reqs, mo):
        d = model_differs(r, keys, m)
        if d:
            out.disagreements.append(d)


def make_maf_record(config, spec):
    """A record of a MAF sorting case from (tumor, normal or None, chromosome, start, end)."""
    t, nn, c, s, e = spec
    if config == "scheme":
        return SC.typed_record(None, t, nn, c, s, e)
    return SC.untyped_record(t, nn or "", c, str(s), str(e))


def maf_keyseq(locs, order):
    return [[l["tumor"] if order == "BarcodesAndCoordinate" else None, l["normal"] if order == "BarcodesAndCoordinate" else None,
             str(l["chr"]), int(l["start"]), int(l["stop"])] for l in locs]


MAFSORTER_ROUTES = ["kw-contigs", "kw-fasta", "positional-contigs", "positional-fasta"]


def mafsorter_args(route, contigs, tmp):
    """(positional, keyword) sort-order arguments of MafSorter(name, scheme, capacity, *args, **kwargs) for a route."""
    if not contigs:
        return (), {}
    if route == "kw-fasta":
        return (), {"fasta_index": SC.fai_path(tmp, contigs)}
    if route == "positional-contigs":
        return (None, list(contigs)), {}
    if route == "positional-fasta":
        return (SC.fai_path(tmp, contigs),), {}
    return (), {"contigs": contigs}


def routes_of_config(config, contigs):
    """The ways (order, contigs) can be handed to the sorter of a codec configuration."""
    if config == "names":
        return SC.routes_for(contigs)
    return MAFSORTER_ROUTES if contigs else ["kw-contigs"]


EMPTY_LISTS = {"Center": "", "dbSNP_RS": "", "dbSNP_Val_Status": "", "Validation_Method": ""}


def eval_maf_after_edits(order, contigs, cap, specs, canon):
    """Typed records whose list columns are empty are built (and their values copied); THEN, elsewhere in the process,
    lines are parsed and the lists those records hand out are edited in place; then the records are sorted under the scheme:
    what comes back carries the values that were added."""
    import random
    from .. import colcases
    recs = [SC.typed_record(None, t, nn, c, s, e, extra=EMPTY_LISTS) for (t, nn, c, s, e) in specs]
    pre = sorted(repr([impl.enc_val(v) for v in r.column_values()]) for r in recs)
    undo = colcases.edit_parsed_lists("gdc-1.0.0", random.Random(3))
    try:
        where, texts, fails, keyseq = eval_maf(order, contigs, "scheme", cap, specs, canon, _recs=recs, _pre_vals=pre)
    finally:
        undo()
    for f in fails:
        f["history"] = "parsed-lists-edited"
    return where, texts, fails, keyseq


def eval_maf(order, contigs, config, cap, specs, canon, route=None, tmp=None, refused_first=None, _recs=None, _pre_vals=None):
    """One MAF sorting (records built from `specs`, added in that order) and the oracle's verdict (shared by run and
    replay_case).  `route` says how (order, contigs) reaches the sorter (None: contigs= keyword / Cls(contigs=...)).
    Returns (where, output texts or None, failures, key sequence or None)."""
    from maflib.sorter import MafSorter, MafSorterCodec, Sorter
    recs = _recs if _recs is not None else [make_maf_record(config, sp) for sp in specs]
    where = {"order": order, "contigs": contigs, "codec": config, "capacity": cap, "specs": [list(sp) for sp in specs],
             "records": [str(r).split("\t")[:8] if config != "scheme" else [SC.loc_json(r)] for r in recs][:8]}
    if route is not None:
        where["route"] = route
    fails = []
    try:
        args, kw = mafsorter_args(route, contigs, tmp)
        if config in ("scheme", "inferred"):
            sch = impl.scheme_by_annotation("gdc-1.0.0") if config == "scheme" else None
            if args:      # sort-order arguments given by position follow (name, scheme, capacity)
                sorter = MafSorter(order, sch, cap, *args, **kw)
            elif sch is not None:
                sorter = MafSorter(order, scheme=sch, max_objects_in_ram=cap, **kw)
            else:
                sorter = MafSorter(order, max_objects_in_ram=cap, **kw)
        else:
            so = SC.order_obj(order, contigs) if route is None else SC.order_via(route, order, contigs, tmp)
            sorter = Sorter(cap, MafSorterCodec(column_names=list(recs[0].keys()) if recs else ["a"]), so.sort_key())
        if refused_first:
            # the caller first offers a record the key function refuses (a line of another layout without a start position,
            # or on a chromosome the contig list does not know), catches the error and carries on: a refused record
            # is no part of the collection
            bad = (SC.untyped_record("T0", "N0", "1", "1", "2", drop=("Start_Position", "Reference_Allele")) if refused_first == "layout"
                   else SC.untyped_record("T0", "N0", "no-such-contig", "1", "2", drop=("Hugo_Symbol",)))
            where["refused_first"] = refused_first
            try:
                sorter += bad
            except Exception:  # noqa
                pass
            else:
                sorter.close()
                return where, None, [], None          # it was accepted: another collection, not this case
        for r in recs:
            sorter += r
        first = list(sorter)
        second = list(sorter)
        sorter.close()
    except Exception as e:  # noqa
        fails.append(dict(where, what="MAF sorting failed with %s" % exc_name(e), kind="exception"))
        return where, None, fails, None
    texts = [str(r) for r in first]
    texts_in = sorted(str(r) for r in recs)
    if sorted(texts) != texts_in:
        fails.append(dict(where, what="output records are not the added records (text)", kind="not-permutation"))
        return where, texts, fails, None
    vals_in = _pre_vals if _pre_vals is not None else sorted(repr([impl.enc_val(v) for v in r.column_values()]) for r in recs)
    if sorted(repr([impl.enc_val(v) for v in r.column_values()]) for r in first) != vals_in:
        fails.append(dict(where, what="output records do not carry equal values", kind="values"))
    locs = [SC.loc_json(r) for r in first]
    bad = [i for i in range(len(locs) - 1) if expected_cmp(locs[i], locs[i + 1], order, contigs or []) > 0]
    if bad:
        fails.append(dict(where, what="output is not in non-decreasing key order (documented order)", kind="not-sorted",
                          at=bad[0], keys=locs[bad[0]:bad[0] + 2]))
    if [str(r) for r in second] != texts:
        fails.append(dict(where, what="iterating again gives a different sequence", kind="reiterate"))
    keyseq = maf_keyseq(locs, order)
    if canon is not None and keyseq != canon:
        fails.append(dict(where, what="key sequence depends on the capacity / insertion order", kind="not-canonical", canon=canon))
    return where, texts, fails, keyseq


def eval_maf_reused(order, contigs, config, cap, specs, touch):
    """ONE record object added several times, its location / barcodes changed in place between the adds (a caller that
    re-uses a template record).  Every add hands over the record as it is then: the output must be those states, sorted."""
    from maflib.sorter import MafSorter
    where = {"order": order, "contigs": contigs, "codec": config, "capacity": cap, "specs": [list(sp) for sp in specs], "reused": True, "touch": touch,
             "kind": "reused-record"}
    fails = []
    try:
        sch = impl.scheme_by_annotation("gdc-1.0.0") if config == "scheme" else None
        kw = {"contigs": list(contigs)} if contigs else {}
        sorter = MafSorter(order, scheme=sch, max_objects_in_ram=cap, **kw) if sch is not None else MafSorter(order, max_objects_in_ram=cap, **kw)
        rec = make_maf_record(config, specs[0])
        snaps = []
        for sp in specs:
            text = SC.retarget(rec, make_maf_record(config, sp))
            if touch:
                _ = (rec.chromosome, rec.start, rec.end)      # the caller (or an order checker) looks at the location
            snaps.append(text)
            sorter += rec
        first = [str(r) for r in sorter]
        locs = [SC.loc_json(r) for r in sorter]
        sorter.close()
    except Exception as e:  # noqa
        return where, [dict(where, what="MAF sorting of a re-used record failed with %s" % exc_name(e))]
    if sorted(first) != sorted(snaps):
        fails.append(dict(where, what="a record object re-used for %d adds (changed in place between them): the output is not the %d states that were added" % (len(specs), len(specs)),
                          got=[t.split("\t")[:8] for t in first][:6]))
    else:
        bad = [i for i in range(len(locs) - 1) if expected_cmp(locs[i], locs[i + 1], order, contigs or []) > 0]
        if bad:
            fails.append(dict(where, what="a record object re-used for several adds: the output is not in non-decreasing key order", at=bad[0], keys=locs[bad[0]:bad[0] + 2]))
    return where, fails


def maf_reused_cases(ctx, out):
    rng = ctx.rng("maf-reused")
    for _ in range(ctx.scale(60, 500)):
        order = rng.choice(["Coordinate", "BarcodesAndCoordinate"])
        contigs = rng.choice([None, ["1", "2", "10", "X"], ["10", "X", "2", "1"]])
        config = rng.choice(["scheme", "inferred"])
        n = rng.choice([2, 3, 4, 6])
        specs = [(rng.choice(SC.TUMORS if rng.random() < 0.3 else ["T1", "T2"]), rng.choice(["N1", "N2", None]), rng.choice(["1", "2", "10", "X"]),
                  rng.choice([5, 9, 10, 100, 1000]), 0) for _ in range(n)]
        specs = [(t, nn, c, s_, s_ + rng.choice([0, 1, 10])) for (t, nn, c, s_, _d) in specs]
        cap = rng.choice([1, 2, 3, n + 1])
        out.evaluations += 1
        where, fails = eval_maf_reused(order, contigs, config, cap, specs, rng.random() < 0.6)
        out.failures += fails
        out.distribution["maf:one record object re-used for several adds"] += 1
        out.nontrivial.add(repr(("reused", specs, order, contigs, config, cap)))


LAYOUTS = [
    ["Hugo_Symbol", "Chromosome", "Start_Position", "End_Position", "Tumor_Sample_Barcode", "Matched_Norm_Sample_Barcode", "Reference_Allele", "Tumor_Seq_Allele2"],
    ["Chromosome", "Hugo_Symbol", "End_Position", "Start_Position", "Matched_Norm_Sample_Barcode", "Tumor_Sample_Barcode"],
    ["Tumor_Sample_Barcode", "Matched_Norm_Sample_Barcode", "Chromosome", "Start_Position", "End_Position"],
]


def eval_maf_sequence(order, runs):
    """Several scheme-less MafSorters used one after the other in one process, their records laid out differently
    (other column order / other columns): each returns exactly what was added to it, sorted."""
    from maflib.sorter import MafSorter
    where = {"kind": "sorters-in-sequence", "order": order, "runs": runs}
    fails = []
    for k, (layout, cap, specs) in enumerate(runs):
        try:
            sorter = MafSorter(order, max_objects_in_ram=cap)
            recs = [SC.untyped_record(t, nn or "", c, str(s_), str(e_), names=LAYOUTS[layout]) for (t, nn, c, s_, e_) in specs]
            for r in recs:
                sorter += r
            got = list(sorter)
            sorter.close()
        except Exception as e:  # noqa
            fails.append(dict(where, what="the %s scheme-less sorter of the process failed with %s" % (["first", "second", "third"][k], exc_name(e))))
            break
        if sorted(str(r) for r in got) != sorted(str(r) for r in recs) or any(list(g.keys()) != LAYOUTS[layout] for g in got):
            fails.append(dict(where, what="the %s scheme-less sorter of the process does not return the records added to it (text or column names differ)" % ["first", "second", "third"][k]))
            break
        locs = [SC.loc_json(r) for r in got]
        bad = [i for i in range(len(locs) - 1) if expected_cmp(locs[i], locs[i + 1], order, []) > 0]
        if bad:
            fails.append(dict(where, what="the %s scheme-less sorter of the process is not in key order" % ["first", "second", "third"][k]))
            break
    return fails


def maf_sequence_cases(ctx, out):
    rng = ctx.rng("maf-sequence")
    for _ in range(ctx.scale(20, 150)):
        order = rng.choice(["Coordinate", "BarcodesAndCoordinate"])
        runs = []
        for _r in range(rng.choice([2, 3])):
            n = rng.choice([1, 2, 3, 4])
            specs = [[rng.choice(SC.TUMORS if rng.random() < 0.3 else ["T1", "T2"]), rng.choice(["N1", "N2"]), rng.choice(["1", "2", "10", "X"]), rng.choice([5, 9, 10, 100]), 0] for _i in range(n)]
            specs = [[t, nn, c, s_, s_ + rng.choice([0, 1])] for (t, nn, c, s_, _e) in specs]
            runs.append([rng.randrange(len(LAYOUTS)), rng.choice([1, 2, n + 1]), specs])
        out.evaluations += 1
        out.failures += eval_maf_sequence(order, runs)
        out.distribution["maf: scheme-less sorters one after the other"] += 1
        out.nontrivial.add(repr(("sequence", order, runs)))


def maf_after_edits_cases(ctx, out):
    rng = ctx.rng("maf-after-edits")
    for _ in range(ctx.scale(4, 30)):
        order = rng.choice(["Coordinate", "BarcodesAndCoordinate"])
        n = rng.choice([1, 3, 4])
        specs = [(rng.choice(SC.TUMORS if rng.random() < 0.3 else ["T1", "T2"]), rng.choice(["N1", None]), rng.choice(["1", "2", "X"]), rng.choice([5, 9, 100]), 0) for _k in range(n)]
        specs = [(t, nn, c, s, s + d) for (t, nn, c, s, d) in specs]
        out.evaluations += 1
        where, texts, fails, keyseq = eval_maf_after_edits(order, None, rng.choice([1, 2, n + 1]), specs, None)
        out.failures += fails
        out.distribution["scheme codec after in-place edits of other records' lists"] += 1
        out.nontrivial.add(repr(("after-edits", specs, order)))


def maf_cases(ctx, out):
    rng = ctx.rng("maf")
    for _ in range(ctx.scale(40, 400)):
        order = rng.choice(["Coordinate", "BarcodesAndCoordinate"])
        contigs = rng.choice([None, ["1", "2", "10", "X"], ["10", "X", "2", "1"]])
        config = rng.choice(["scheme", "names", "inferred"])
        n = rng.choice([0, 1, 3, 4, 5, 7])
        # (positions of any size: beyond 2**53 neighbouring integers are one and the same double)
        starts = [5, 9, 10, 100, 1000] if rng.random() < 0.8 else [2 ** 53, 2 ** 53 + 1, 2 ** 53 + 2, 2 ** 63, 2 ** 63 + 1, 7]
        specs = [(rng.choice(SC.TUMORS if rng.random() < 0.3 else ["T1", "T2"]), rng.choice(["N1", "N2", None]), rng.choice(["1", "2", "10", "X"]),
                  rng.choice(starts), rng.choice([0, 1, 10])) for _ in range(n)]
        refused = rng.choice([None, None, "layout", "contig" if contigs else "layout"]) if config in ("inferred", "names") else None
        canon = None
        for cap in sorted({1, 2, 3, max(1, n), n + 1}):
            out.evaluations += 1
            added = [(t, nn, c, s, s + d) for (t, nn, c, s, d) in specs]
            rng.shuffle(added)
            where, texts, fails, keyseq = eval_maf(order, contigs, config, cap, added, canon, refused_first=refused)
            out.failures += fails
            if keyseq is None:
                continue
            canon = canon or keyseq
            out.distribution["codec:" + config] += 1
            if n >= 2:
                out.nontrivial.add(repr((specs, order, contigs, config, cap)))



# ---------------------------------------------------------------------------------------------------------------------
# The generic sorter with arbitrary codecs: whatever bytes a codec produces (0x00, 0x0A, 0xFF, nothing at all) must come
# back unchanged from a spill file, and any key type that totally preorders the items must do.
import functools
import pickle
import struct


class PickleCodec:
    def __init__(self, protocol):
        self.protocol = protocol

    def encode(self, obj):
        return bytearray(pickle.dumps(obj, protocol=self.protocol))

    def decode(self, data, start, length):
        return pickle.loads(bytes(data[start:start + length]))


class StructCodec:
    """Integers and tuples of integers as packed 32-bit fields (binary: any byte value can occur)."""

    def encode(self, obj):
        if isinstance(obj, tuple):
            return bytearray(b"t" + struct.pack("<%di" % len(obj), *obj))
        return bytearray(b"i" + struct.pack(">i", obj))

    def decode(self, data, start, length):
        raw = bytes(data[start:start + length])
        if raw[:1] == b"t":
            return tuple(struct.unpack("<%di" % ((length - 1) // 4), raw[1:]))
        return struct.unpack(">i", raw[1:])[0]


class RawCodec:
    """bytes items stored as they are (the empty item encodes to nothing)."""

    def encode(self, obj):
        return bytearray(obj)

    def decode(self, data, start, length):
        return bytes(data[start:start + length])


class Utf8Codec:
    def encode(self, obj):
        return bytearray(obj.encode("utf-8"))

    def decode(self, data, start, length):
        return bytes(data[start:start + length]).decode("utf-8")


CODECS = {"json": JsonCodec, "pickle0": lambda: PickleCodec(0), "pickle2": lambda: PickleCodec(2), "pickle4": lambda: PickleCodec(4),
          "struct": StructCodec, "raw": RawCodec, "utf8": Utf8Codec}


@functools.total_ordering
class Falsy:
    """A key that totally orders like the wrapped value and is false in a boolean context."""

    def __init__(self, v):
        self.v = v

    def __bool__(self):
        return False

    def __lt__(self, other):
        return self.v < other.v

    def __eq__(self, other):
        return self.v == other.v

    def __hash__(self):
        return hash(self.v)

    def __repr__(self):
        return "Falsy(%r)" % (self.v,)


@functools.total_ordering
class Desc:
    """A key that orders the other way round (the sorter must use the key, not the item)."""

    def __init__(self, v):
        self.v = v

    def __lt__(self, other):
        return other.v < self.v

    def __eq__(self, other):
        return self.v == other.v

    def __hash__(self):
        return hash(self.v)

    def __repr__(self):
        return "Desc(%r)" % (self.v,)


INTS = [0, 10, 266, 2570, -1, 255, 1, 2, 3, 168430090, -246, 65535, 13, 2573]     # 10 = 0x0A, 266 = 0x010A, -246 = 0xFFFFFF0A, ...
FAMILIES = {
    "ints": {"pool": INTS, "codecs": ["json", "pickle0", "pickle2", "pickle4", "struct"],
             "keys": {"id": lambda x: x, "mod": lambda x: x % 3, "neg": lambda x: -x, "falsy": Falsy, "desc": Desc,
                      "pair": lambda x: (x % 2, x), "float": lambda x: x / 2.0}},
    "strs": {"pool": ["", "\n", "a", "a\nb", "b\n", "\x00", "\u00ff", "\r\n", "ab", "\n\n", "\u2028"],
             "codecs": ["json", "pickle0", "pickle2", "pickle4", "utf8"],
             "keys": {"id": lambda x: x, "len": len, "rev": lambda x: x[::-1], "falsy": Falsy, "desc": Desc}},
    "bytes": {"pool": [b"", b"\n", b"\x00", b"\xff", b"a\nb", b"\n\n", b"\x00\n\xff", b"ab", b"\r\n", b"\n\x00\x00\x00"],
              "codecs": ["pickle2", "pickle4", "raw"],
              "keys": {"id": lambda x: x, "len": len, "falsy": Falsy, "desc": Desc}},
    "tuples": {"pool": None, "codecs": ["json", "pickle2", "pickle4", "struct"],
               "keys": {"id": lambda x: x, "len": len, "sum": sum, "falsy": Falsy}},
}
INT_KEYS = {("ints", "id"), ("ints", "mod"), ("ints", "neg"), ("strs", "len"), ("bytes", "len"), ("tuples", "len"), ("tuples", "sum")}


def gen_family_items(rng, family, n):
    if family == "tuples":
        return [tuple(rng.choice(INTS) for _ in range(rng.choice([0, 1, 1, 2, 3]))) for _ in range(n)]
    pool = FAMILIES[family]["pool"]
    few = rng.sample(pool, min(len(pool), rng.choice([2, 3, 5, len(pool)])))      # small pools give ties and duplicates
    return [rng.choice(few) for _ in range(n)]


def enc_item(x):
    """JSON form of an item or key (bytes, tuples and the wrapper keys are tagged)."""
    if isinstance(x, bytes):
        return {"hex": x.hex()}
    if isinstance(x, tuple):
        return {"tuple": [enc_item(y) for y in x]}
    if isinstance(x, list):
        return {"list": [enc_item(y) for y in x]}
    if isinstance(x, (Falsy, Desc)):
        return {type(x).__name__: enc_item(x.v)}
    if isinstance(x, float):
        return {"float": repr(x)}
    if x is None or isinstance(x, (int, str)):
        return x
    return {"repr": repr(x)}


def dec_item(j):
    if isinstance(j, dict):
        if "hex" in j:
            return bytes.fromhex(j["hex"])
        if "tuple" in j:
            return tuple(dec_item(y) for y in j["tuple"])
        if "float" in j:
            return float(j["float"])
    return j


def codec_run(items, keyf, codec, cap, always_spill, method, tmp, peek=None):
    """(first pass, second pass, error, items taken from an iteration abandoned before the first pass or None)"""
    from maflib.sorter import Sorter
    s = Sorter(cap, CODECS[codec](), keyf, tmp_dir=tmp, always_spill=always_spill) if tmp is not None else \
        Sorter(cap, CODECS[codec](), keyf, always_spill=always_spill)
    try:
        for it in items:
            if method == "add":
                s.add(it)
            else:
                s += it
        taken = None
        if peek is not None:
            it = iter(s)
            taken = [x for _k, x in zip(range(peek), it)]
            it.close()                      # the caller walks away from this iteration
        first = list(s)
        second = list(s)
        return first, second, None, taken
    except Exception as e:  # noqa
        return None, None, exc_name(e), None
    finally:
        try:
            s.close()
        except Exception:  # noqa
            pass


def eval_codec(order, family, kname, codec, cap, sp, method, tmp, peek=None):
    """One generic sorting of `order` (insertion order) through a codec, and the oracle's verdict (shared by run and
    replay_case).  The expected key sequence is the sorted sequence of the items' keys: it does not depend on anything
    else.  Returns (where, first pass or None, failures, model request or None)."""
    keyf = FAMILIES[family]["keys"][kname]
    first, second, exc, taken = codec_run(order, keyf, codec, cap, sp, method, tmp, peek)
    where = {"case": "codec", "family": family, "items": [enc_item(x) for x in order], "key": kname, "codec": codec,
             "capacity": cap, "always_spill": sp, "method": method, "tmp_dir": tmp is not None}
    if peek is not None:
        where["abandoned_after"] = peek
    fails = []
    if exc:
        fails.append(dict(where, what="sorting failed with %s" % exc, kind="exception"))
        return where, None, fails, None
    # the items come back exactly once each, equal in type and value
    if sorted(repr(x) for x in first) != sorted(repr(x) for x in order):
        fails.append(dict(where, what="output is not a permutation of the input: %d in, %d out" % (len(order), len(first)),
                          kind="not-permutation", got=[enc_item(x) for x in first[:10]]))
        return where, first, fails, None
    keys = [keyf(x) for x in first]
    if any(keys[i] > keys[i + 1] for i in range(len(keys) - 1)):
        fails.append(dict(where, what="output is not in non-decreasing key order", kind="not-sorted", keys=[enc_item(k) for k in keys[:12]]))
        return where, first, fails, None
    if second != first:
        fails.append(dict(where, what="iterating again gives a different sequence", kind="reiterate", first=len(first), second=len(second)))
    if taken is not None and [enc_item(keyf(x)) for x in taken] != [enc_item(k) for k in keys[:peek]]:
        fails.append(dict(where, what="an iteration abandoned after %d items gave other items than the start of the next one" % peek, kind="reiterate",
                          got=[enc_item(x) for x in taken]))
    canon = sorted(keyf(x) for x in order)
    if [enc_item(k) for k in keys] != [enc_item(k) for k in canon]:
        fails.append(dict(where, what="key sequence depends on capacity / policy / insertion order", kind="not-canonical",
                          canon=[enc_item(k) for k in canon[:12]]))
    req = None
    if (family, kname) in INT_KEYS:
        req = ({"op": "sorter.run", "cap": cap, "always_spill": sp, "items": [[keyf(x), i] for i, x in enumerate(order)]}, keys)
    return where, first, fails, req


def codec_cases(ctx, out, tmp):
    """Multisets of items whose encodings contain every awkward byte, through every codec that can carry them."""
    rng = ctx.rng("codecs")
    reqs = []
    for _ in range(ctx.scale(45, 450)):
        family = rng.choice(sorted(FAMILIES))
        codec = rng.choice(FAMILIES[family]["codecs"])
        kname = rng.choice(sorted(FAMILIES[family]["keys"]))
        n = rng.choice([0, 1, 2, 3, 4, 5, 6, 8])
        items = gen_family_items(rng, family, n)
        caps = list(range(1, n + 2))
        if n > 4:
            caps = sorted(rng.sample(caps, 4) + [n])
        for cap in caps:
            for sp in (True, False):
                order = list(items)
                rng.shuffle(order)
                method = rng.choice(["+=", "+=", "add"])
                out.evaluations += 1
                peek = rng.randrange(0, n + 1) if rng.random() < 0.3 else None
                where, first, fails, req = eval_codec(order, family, kname, codec, cap, sp, method, tmp if rng.random() < 0.8 else None, peek)
                out.failures += fails
                spilled = sp or n >= cap
                if n >= 2 and spilled:
                    out.nontrivial.add(repr((sorted(map(repr, items)), family, kname, codec, cap, sp)))
                out.distribution["codec:" + codec] += 1
                out.distribution["codec-key:%s/%s" % (family, kname)] += 1
                if spilled and any(b in (0, 10, 255) for x in order for b in bytes(CODECS[codec]().encode(x))):
                    out.distribution["spilled with a 0x00/0x0A/0xFF byte"] += 1
                if req is not None:
                    reqs.append(req)
        if n >= 4 and sum(1 for x in out.samples if x.get("codec")) < 2:
            out.sample({"codec": codec, "family": family, "key": kname, "items": [enc_item(x) for x in items]}, limit=8)
    mo = ctx.driver.run([r for r, _ in reqs])
    for (r, keys), m in zip(reqs, mo):
        d = model_differs(r, keys, m)
        if d:
            out.disagreements.append(d)


def maf_route_cases(ctx, out, tmp):
    """MAF sortings in which (order, contigs) reaches the sorter through every constructor / header route."""
    rng = ctx.rng("maf-routes")
    contig_sets = [["2", "10", "1", "X"], ["X", "10", "2", "1"], ["1", "2", "10", "X"], None, SC.LONG]
    for _ in range(ctx.scale(45, 400)):
        order = rng.choice(["Coordinate", "BarcodesAndCoordinate"])
        contigs = rng.choice(contig_sets)
        config = rng.choice(["scheme", "names", "names", "inferred"])
        route = rng.choice(routes_of_config(config, contigs))
        n = rng.choice([2, 3, 4, 5, 6])
        specs = [(rng.choice(SC.TUMORS if rng.random() < 0.3 else ["T1", "T2"]), rng.choice(["N1", "N2", None]), rng.choice(["1", "2", "10", "X"]),
                  rng.choice([5, 9, 10, 100, 1000]), rng.choice([0, 1, 10])) for _ in range(n)]
        canon = None
        for cap in sorted({1, rng.choice([2, 3]), n + 1}):
            out.evaluations += 1
            added = [(t, nn, c, s, s + d) for (t, nn, c, s, d) in specs]
            rng.shuffle(added)
            where, texts, fails, keyseq = eval_maf(order, contigs, config, cap, added, canon, route, tmp)
            out.failures += fails
            if keyseq is None:
                continue
            canon = canon or keyseq
            out.distribution["route:" + route] += 1
            out.nontrivial.add(repr((specs, order, contigs, config, cap, route)))


def run(ctx):
    out = Outcome()
    out.rule = ("generic sorter: multisets with ties over int / str / tuple keys including 0, '' and (), every capacity 1..n+1, both spill policies, shuffled insertion orders, "
                "iterated twice; MAF sorter: both orders x contigs absent/lexical/other x three codec configurations x capacities around n; "
                "non-trivial = n >= 2; distinct (multiset, key, capacity, policy); "
                "codecs: json / pickle protocols 0,2,4 / struct / raw bytes / utf-8 over ints, strings, bytes and tuples whose encodings contain 0x00, 0x0A and 0xFF "
                "(and the empty encoding), keys of type int, float, str, bytes, tuple and two wrapper classes (false in a boolean context; descending), += and add(), "
                "tmp_dir given or not; routes: (order, contigs) handed to MafSorter by keyword / position / FASTA index, and to Sorter as the key of an order built by every "
                "constructor, header-record, from_lines, from_defaults, from_reader and reader route")
    with tempfile.TemporaryDirectory() as tmp:
        generic_cases(ctx, out, tmp)
        generic_history_cases(ctx, out, tmp)
        codec_cases(ctx, out, tmp)
        maf_cases(ctx, out)
        maf_after_edits_cases(ctx, out)
        maf_reused_cases(ctx, out)
        maf_sequence_cases(ctx, out)
        maf_route_cases(ctx, out, tmp)
    return out


def _untuple(x):
    return tuple(x) if isinstance(x, list) else x


def specs_of(failure):
    """Insertion-order record specs of a stored MAF case ("specs", or rebuilt from the older "records" field)."""
    if "specs" in failure:
        return [tuple(sp) for sp in failure["specs"]]
    out = []
    for r in failure.get("records", []):
        if failure["codec"] == "scheme":
            l = r[0]
            out.append((l["tumor"], l["normal"], str(l["chr"]), int(l["start"]), int(l["stop"])))
        else:       # Hugo, Chromosome, Start, End, Tumor, Normal, ...
            out.append((r[4], r[5] or None, r[1], int(r[2]), int(r[3])))
    return out


def replay_reused(ctx, f):
    specs = [tuple(sp) for sp in f["specs"]]
    where, fails = eval_maf_reused(f["order"], f.get("contigs"), f["codec"], f["capacity"], specs, f.get("touch", False))
    print("replay C07: MafSorter(%s, capacity %d, contigs %s); ONE %s record object added %d times, location / barcodes set in place to %s" % (
        f["order"], f["capacity"], f.get("contigs"), f["codec"], len(specs), specs))
    for x in fails:
        print("  oracle: %s" % x["what"])
    return fails


def replay_case(ctx, failure):
    if failure.get("kind") == "sorters-in-sequence" and "runs" in failure:
        fails = eval_maf_sequence(failure["order"], failure["runs"])
        print("replay C07: %d scheme-less MafSorter(%s) used one after the other in this process; (layout, capacity, records) per sorter: %s" % (len(failure["runs"]), failure["order"], failure["runs"]))
        for x in fails:
            print("  oracle: %s" % x["what"])
        return fails
    if failure.get("kind") == "iterate-then-add" and "batches" in failure:
        import tempfile as _tf
        with _tf.TemporaryDirectory() as tmp:
            fails = eval_generic_history([[tuple(x) for x in b] for b in failure["batches"]], failure["key"], failure["capacity"], failure["always_spill"], tmp, early=failure.get("early"))
        print("replay C07: Sorter(capacity %d, always_spill=%s, key %s); batches %s, the sorter iterated to the end after each batch" % (
            failure["capacity"], failure["always_spill"], failure["key"], failure["batches"]))
        for x in fails:
            print("  oracle: %s" % x["what"])
        return fails
    if failure.get("history") == "parsed-lists-edited" and "specs" in failure:
        specs = [tuple(sp) for sp in failure["specs"]]
        where, texts, fails, keyseq = eval_maf_after_edits(failure["order"], failure.get("contigs"), failure["capacity"], specs, None)
        print("replay C07: %d gdc-1.0.0 records with empty list columns are built; other lines are parsed and the lists those records hand out are edited in place; MafSorter(%s, scheme, capacity %d) sorts the records" % (
            len(specs), failure["order"], failure["capacity"]))
        for x in fails:
            print("  oracle: %s" % x["what"])
        return fails
    if failure.get("kind") == "reused-record" and "specs" in failure:
        return replay_reused(ctx, failure)
    """Re-evaluate the stored failing input on the current implementation; return the list of failure dicts it
    produces now (empty list = the property holds on that input)."""
    if failure.get("case") == "codec" and failure.get("family") in FAMILIES:
        family, kname, codec = failure["family"], failure["key"], failure["codec"]
        if kname not in FAMILIES[family]["keys"] or codec not in CODECS:
            return None
        order = [dec_item(x) for x in failure["items"]]
        cap, sp, method = failure["capacity"], bool(failure.get("always_spill")), failure.get("method", "+=")
        keyf = FAMILIES[family]["keys"][kname]
        print("generic sorter, codec=%s: %s %d items %r, key=%s, capacity=%d, always_spill=%s, iterate twice" % (
            codec, method, len(order), order, kname, cap, sp))
        print("encodings: %s" % [bytes(CODECS[codec]().encode(x)) for x in order][:12])
        with tempfile.TemporaryDirectory() as tmp:
            if failure.get("abandoned_after") is not None:
                print("an iteration is started first and abandoned after %d items" % failure["abandoned_after"])
            where, first, fails, req = eval_codec(order, family, kname, codec, cap, sp, method, tmp if failure.get("tmp_dir", True) else None, failure.get("abandoned_after"))
        if first is None:
            print("implementation: %s" % fails[0]["what"])
        else:
            print("implementation: first pass %r" % (first,))
            print("                keys %r" % ([keyf(x) for x in first],))
        print("expected keys:  %r" % (sorted(keyf(x) for x in order),))
        if req is not None:
            try:
                m = ctx.driver.run([req[0]])[0]
                print("model keys:     %s%s" % ([p[0] for p in m["out"]], "   (differs from the implementation)" if model_differs(req[0], req[1], m) else ""))
            except Exception as e:  # noqa
                print("model: not available (%s)" % str(e)[:200])
        else:
            print("model: not consulted (%s)" % ("a failed or incomplete sorting" if first is None or any(f["kind"] in ("not-permutation", "not-sorted") for f in fails)
                                                 else "only integer keys are run on the model"))
        for f in fails:
            print("oracle fails: %s" % f["what"])
        return fails
    if "items" in failure and failure.get("key") in KEYFS and "capacity" in failure:
        order = [_untuple(x) for x in failure["items"]]
        kname, cap, sp = failure["key"], failure["capacity"], bool(failure.get("always_spill"))
        keyf = KEYFS[kname]
        canon = failure.get("canon")
        canon = sorted(keyf(x) for x in order) if canon is None else [_untuple(k) for k in canon]
        print("generic sorter: add %d items %s, key=%s, capacity=%d, always_spill=%s, iterate twice" % (len(order), order, kname, cap, sp))
        with tempfile.TemporaryDirectory() as tmp:
            where, first, second, exc, fails, keys, req = eval_generic(order, kname, cap, sp, tmp, canon)
        if exc:
            print("implementation: raised %s" % exc)
        else:
            print("implementation: first pass %s" % (first,))
            print("                keys %s%s" % ([keyf(x) for x in first], "" if second == first else "; second pass %s" % (second,)))
        print("expected keys:  %s" % canon)
        if req is not None:
            try:
                m = ctx.driver.run([req[0]])[0]
                print("model keys:     %s%s" % ([p[0] for p in m["out"]], "   (differs from the implementation)" if model_differs(req[0], req[1], m) else ""))
            except Exception as e:  # noqa
                print("model: not available (%s)" % str(e)[:200])
        else:
            print("model: not consulted for %s" % ("a failed sorting" if first is None else "key kind %r (only int / mod keys are run on the model)" % kname))
        for f in fails:
            print("oracle fails: %s" % f["what"])
        return fails
    if "codec" in failure and "order" in failure and "capacity" in failure and ("specs" in failure or "records" in failure):
        order, contigs, config, cap = failure["order"], failure.get("contigs") or None, failure["codec"], failure["capacity"]
        specs = specs_of(failure)
        canon = failure.get("canon")
        if canon is None:
            # the key sequence every capacity must produce: the documented order applied to the added records
            import functools
            locs = [SC.loc_json(make_maf_record(config, sp)) for sp in specs]
            locs.sort(key=functools.cmp_to_key(lambda a, b: expected_cmp(a, b, order, contigs or [])))
            canon = maf_keyseq(locs, order)
        route = failure.get("route")
        print("MAF sorter: order=%s contigs=%s codec=%s capacity=%d%s; %d records added as (tumor, normal, chr, start, end): %s" % (
            order, contigs, config, cap, "" if route is None else " (order, contigs) supplied through route %r" % route, len(specs), [list(sp) for sp in specs]))
        with tempfile.TemporaryDirectory() as tmp:
            where, texts, fails, keyseq = eval_maf(order, contigs, config, cap, specs, canon, route, tmp, refused_first=failure.get("refused_first"))
        if failure.get("refused_first"):
            print("before them the caller offered a record the key function refuses (%s) and caught the error" % failure["refused_first"])
        if texts is None:
            print("implementation: %s" % fails[0]["what"])
        else:
            print("implementation: %d records out%s" % (len(texts), "" if keyseq is None else ", keys %s" % keyseq))
        print("expected keys:  %s" % canon)
        print("model: MAF-record sortings are not run on the model (the generic sorter and the sort keys are)")
        for f in fails:
            print("oracle fails: %s" % f["what"])
        return fails
    return None


def search(ctx):
    return run(ctx)

